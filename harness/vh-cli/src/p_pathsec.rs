//! C31: `security::validate_path` on real directory trees with symlinks vs the Lean model
//! (`vmodel pathsec`) and vs the kernel's own resolution.
//!
//! Each scenario builds a random tree under `/var/tmp/vh-pathsec-<pid>-<n>` (removed afterwards),
//! describes it to the model (`d`/`f`/`l` lines, absolute real paths), and issues requests
//! `v =<workdir> =<path>`. For an accepted path the harness additionally looks at the real file
//! system itself: `same=1` iff `stat(request)` (kernel resolution) and `lstat(result)` are the same
//! inode, `nolink=1` iff no prefix of the result is a symlink.
use crate::util::{catch, Ctx};
use std::os::unix::fs::{symlink, MetadataExt};
use std::path::{Path, PathBuf};
use varpulis_cli::security::{validate_path, SecurityError};

pub const NAMES: &[&str] = &["C31"];

fn enc(s: &str) -> String {
    let mut o = String::from("=");
    for c in s.chars() {
        if c.is_ascii_alphanumeric() || c == '/' || c == '.' || c == '_' || c == '-' {
            o.push(c);
        } else {
            o.push_str(&format!("%{:x};", c as u32));
        }
    }
    o
}

#[derive(Clone, PartialEq)]
enum Kind { Dir, File, Link(String) }

struct Tree {
    base: String,
    /// path relative to base (components), kind
    nodes: Vec<(Vec<String>, Kind)>,
}

impl Tree {
    fn abs(&self, rel: &[String]) -> String {
        if rel.is_empty() { self.base.clone() } else { format!("{}/{}", self.base, rel.join("/")) }
    }
    fn has(&self, rel: &[String]) -> bool { self.nodes.iter().any(|(p, _)| p == rel) }
    fn dirs(&self) -> Vec<Vec<String>> {
        let mut d: Vec<Vec<String>> = vec![vec![]];
        d.extend(self.nodes.iter().filter(|(_, k)| *k == Kind::Dir).map(|(p, _)| p.clone()));
        d
    }
    fn add(&mut self, rel: Vec<String>, k: Kind) -> bool {
        if self.has(&rel) { return false; }
        let p = self.abs(&rel);
        let ok = match &k {
            Kind::Dir => std::fs::create_dir(&p).is_ok(),
            Kind::File => std::fs::write(&p, b"x").is_ok(),
            Kind::Link(t) => symlink(t, &p).is_ok(),
        };
        if ok { self.nodes.push((rel, k)); }
        ok
    }
}

const ODD: &[&str] = &[
    "sp ace", "\u{e9}t\u{e9}", "\u{65e5}\u{672c}", "...", "..a", "a..", ".hidden", "-rf", "~", "a\\b",
    "new\nline", "tab\t", "%41", "a;b", "a=b", "\u{202e}rtl", "\u{fffd}", "\u{1f600}", "a b  c", "*", "?",
    "\u{7f}", "\u{1}", "c:", "NUL", "a\u{301}",
];
const PLAIN: &[&str] = &["a", "b", "c", "data", "f.vpl", "x", "lnk", "up", "sub", "d1"];

fn rel_target(from_dir: &[String], to: &[String]) -> String {
    // relative path from directory `from_dir` to node `to` (both relative to base)
    let mut i = 0;
    while i < from_dir.len() && i < to.len() && from_dir[i] == to[i] { i += 1; }
    let mut parts: Vec<String> = (i..from_dir.len()).map(|_| "..".to_string()).collect();
    parts.extend(to[i..].iter().cloned());
    if parts.is_empty() { ".".to_string() } else { parts.join("/") }
}

fn scenario(ctx: &mut Ctx, n: u64, root: &str, home: &Path) {
    let base = format!("{}/vh-pathsec-{}-{}", root, std::process::id(), n);
    let _ = std::fs::remove_dir_all(&base);
    std::fs::create_dir(&base).expect("create base");
    let mut t = Tree { base: base.clone(), nodes: vec![] };

    // name pool of this scenario: few names, reused in several directories, so that random walks hit
    let mut pool: Vec<String> = Vec::new();
    for _ in 0..3 { pool.push(ctx.rng.pick(PLAIN).to_string()); }
    for _ in 0..(1 + ctx.rng.below(3)) { pool.push(ctx.rng.pick(ODD).to_string()); }
    if ctx.thorough && ctx.rng.chance(1, 10) { pool.push("n".repeat(255)); }
    pool.sort(); pool.dedup();

    let wdname = ctx.rng.pick(&["wd", "work dir", "wd.\u{e9}", "wk"]).to_string();
    t.add(vec![wdname.clone()], Kind::Dir);
    // siblings whose names extend the work directory's name (string-prefix trap), and an outside area
    t.add(vec![format!("{}-evil", wdname)], Kind::Dir);
    t.add(vec![format!("{}-evil", wdname), "x".into()], Kind::File);
    t.add(vec![format!("{}2", wdname)], Kind::File);
    t.add(vec!["outside".into()], Kind::Dir);
    t.add(vec!["outside".into(), "secret".into()], Kind::File);
    t.add(vec!["wdlink".into()], Kind::Link(wdname.clone()));
    t.add(vec![wdname.clone(), "in.txt".into()], Kind::File);

    let nnodes = 6 + ctx.rng.below(if ctx.thorough { 30 } else { 18 });
    for _ in 0..nnodes {
        let dirs = t.dirs();
        // bias towards the work directory's subtree
        let parent = if ctx.rng.chance(2, 3) {
            let inside: Vec<&Vec<String>> = dirs.iter().filter(|d| d.first() == Some(&wdname)).collect();
            (*ctx.rng.pick(&inside)).clone()
        } else { ctx.rng.pick(&dirs).clone() };
        let name = ctx.rng.pick(&pool).clone();
        let mut rel = parent.clone(); rel.push(name.clone());
        let r = ctx.rng.below(100);
        let kind = if r < 35 { Kind::Dir } else if r < 60 { Kind::File } else {
            let all: Vec<Vec<String>> = t.nodes.iter().map(|(p, _)| p.clone()).collect();
            let to = ctx.rng.pick(&all).clone();
            let tgt = match ctx.rng.below(14) {
                0 => "..".to_string(),
                1 => ".".to_string(),
                2 => "../..".to_string(),
                3 => "nope".to_string(),                       // dangling
                4 => name.clone(),                             // self loop
                5 => base.clone(),                             // absolute, the whole universe
                6 => "/".to_string(),
                7 => format!("{}/", t.abs(&to)),               // trailing slash
                8 => format!("{}/outside", base),              // absolute, outside the work directory
                9 => format!(".//{}", rel_target(&parent, &to)),
                10 | 11 => t.abs(&to),
                _ => rel_target(&parent, &to),
            };
            Kind::Link(tgt)
        };
        let label = match &kind { Kind::Dir => "node:dir", Kind::File => "node:file", Kind::Link(_) => "node:link" };
        if t.add(rel, kind) { ctx.count(label); }
    }
    // a chain of symlinks around the resolver's limit of 40
    let mut chain_head: Option<String> = None;
    if ctx.rng.chance(1, 6) {
        let k = 37 + ctx.rng.below(6); // 37..42 links
        let mut ok = true;
        for i in 0..k {
            let tgt = if i + 1 == k { "in.txt".to_string() } else { format!("ch{}", i + 1) };
            ok &= t.add(vec![wdname.clone(), format!("ch{}", i)], Kind::Link(tgt));
        }
        if ok { chain_head = Some("ch0".to_string()); ctx.count(&format!("chain:{}", k)); }
    }

    // describe the world to the model: ancestors of base are real directories (base is canonical)
    ctx.directive(&format!("new {}", n));
    let mut anc = String::new();
    for comp in base.split('/').filter(|c| !c.is_empty()) {
        anc.push('/'); anc.push_str(comp);
        ctx.directive(&format!("d {}", enc(&anc)));
    }
    for (rel, k) in &t.nodes {
        let p = enc(&t.abs(rel));
        match k {
            Kind::Dir => ctx.directive(&format!("d {}", p)),
            Kind::File => ctx.directive(&format!("f {}", p)),
            Kind::Link(tg) => ctx.directive(&format!("l {} {}", p, enc(tg))),
        }
    }
    std::env::set_current_dir(&base).expect("chdir");
    ctx.directive(&format!("cwd {}", enc(&base)));

    let wd_abs = t.abs(&[wdname.clone()]);
    let nreq = if ctx.thorough { 60 } else { 36 };
    let links: Vec<Vec<String>> = t.nodes.iter().filter(|(_, k)| matches!(k, Kind::Link(_))).map(|(p, _)| p.clone()).collect();
    for q in 0..nreq {
        // work directory argument
        let wd = match ctx.rng.below(20) {
            0 => format!("{}/", wd_abs),
            1 => format!("{}/wdlink", base),
            2 => wdname.clone(),                                   // relative to the process cwd (= base)
            3 => format!("{}/{}/../{}", base, wdname, wdname),
            4 => base.clone(),
            5 => format!("{}/nonexistent", base),
            6 => format!("{}/{}2", base, wdname),                  // a regular file
            7 => if ctx.rng.chance(1, 2) { String::new() } else { format!("{}//.//{}", base, wdname) },
            _ => wd_abs.clone(),
        };
        // requested path
        let mut segs: Vec<String> = Vec::new();
        let style = ctx.rng.below(10);
        if style < 3 && !links.is_empty() {
            // go through a symlink of the tree, then a little further
            let l = ctx.rng.pick(&links).clone();
            if l.first() == Some(&wdname) && ctx.rng.chance(3, 4) { segs.extend(l[1..].iter().cloned()); }
            else { segs.push(t.abs(&l)); }
            for _ in 0..ctx.rng.below(3) { segs.push(pick_seg(ctx, &pool)); }
            ctx.count("req:via-link");
        } else if style < 5 {
            // an existing node, addressed relative to the work directory or absolutely
            let to = ctx.rng.pick(&t.nodes).0.clone();
            if ctx.rng.chance(1, 2) { segs.push(rel_target(&[wdname.clone()], &to)); } else { segs.push(t.abs(&to)); }
            if ctx.rng.chance(1, 3) { segs.push(pick_seg(ctx, &pool)); }
            ctx.count("req:existing");
        } else {
            if ctx.rng.chance(1, 5) { segs.push(ctx.rng.pick(&[base.clone(), wd_abs.clone(), "/".to_string(), format!("{}-evil", wd_abs), format!("{}/wdlink", base)]).clone()); }
            for _ in 0..(1 + ctx.rng.below(6)) { segs.push(pick_seg(ctx, &pool)); }
            ctx.count("req:random");
        }
        if q == 0 { if let Some(h) = &chain_head { segs = vec![h.clone()]; } }
        let mut path = segs.join(if ctx.rng.chance(1, 12) { "//" } else { "/" });
        if ctx.rng.chance(1, 8) { path.push('/'); }
        if ctx.rng.chance(1, 60) { path.push_str("\0x"); }
        if ctx.rng.chance(1, 60) { path = String::new(); }

        let wdp = PathBuf::from(&wd);
        let p2 = path.clone();
        let res = match catch(move || validate_path(&p2, &wdp)) {
            Err(_) => "panic".to_string(),
            Ok(Ok(c)) => {
                let cs = c.to_str().unwrap_or("<non-utf8>").to_string();
                // the kernel's own resolution of the request
                let req = if path.starts_with('/') { path.clone() } else { format!("{}/{}", wd, path) };
                let same = match (std::fs::metadata(&req), std::fs::symlink_metadata(&c)) {
                    (Ok(a), Ok(b)) => a.dev() == b.dev() && a.ino() == b.ino(),
                    _ => false,
                };
                let mut nolink = true;
                let mut pre = PathBuf::from("/");
                for comp in c.components().skip(1) {
                    pre.push(comp);
                    match std::fs::symlink_metadata(&pre) {
                        Ok(m) => if m.file_type().is_symlink() { nolink = false; },
                        Err(_) => nolink = false,
                    }
                }
                format!("ok {} same={} nolink={}", enc(&cs), same as u8, nolink as u8)
            }
            Ok(Err(SecurityError::InvalidWorkdir { .. })) => "err workdir".to_string(),
            Ok(Err(SecurityError::InvalidPath { .. })) => "err invalid".to_string(),
            Ok(Err(SecurityError::PathTraversal { .. })) => "err traversal".to_string(),
            Ok(Err(_)) => "err other".to_string(),
        };
        ctx.count(&format!("verdict:{}", res.split(' ').take(if res.starts_with("ok") { 1 } else { 2 }).collect::<Vec<_>>().join("-")));
        ctx.case(&format!("v {} {}", enc(&wd), enc(&path)), &res);
    }
    std::env::set_current_dir(home).expect("chdir back");
    let _ = std::fs::remove_dir_all(&base);
}

fn pick_seg(ctx: &mut Ctx, pool: &[String]) -> String {
    match ctx.rng.below(12) {
        0 | 1 | 2 => "..".to_string(),
        3 => ".".to_string(),
        4 => String::new(),
        5 => "in.txt".to_string(),
        6 => ctx.rng.pick(&["outside", "secret", "wdlink", "x"]).to_string(),
        _ => ctx.rng.pick(pool).clone(),
    }
}

pub fn run(ctx: &mut Ctx, _name: &str) {
    let home = std::env::current_dir().expect("cwd");
    let root = std::fs::canonicalize("/var/tmp").expect("/var/tmp").to_str().unwrap().to_string();
    let scenarios = if ctx.thorough { 1200 } else { 120 };
    for n in 0..scenarios {
        scenario(ctx, n, &root, &home);
    }
    ctx.notes.push(format!("trees under {}/vh-pathsec-<pid>-<n>, removed after each scenario; glibc realpath via std::fs::canonicalize", root));
}
