//! C22: tenant/pipeline metadata in the state store across restarts, with a crash injected after
//! every store write, driven through the real REST handlers (warp::test) and TenantManager::recover.
use crate::util::Ctx;
use std::sync::atomic::{AtomicU64, Ordering};
use std::sync::Arc;
use varpulis_runtime::persistence::{Checkpoint, MemoryStore, StateStore, StoreError};
use varpulis_runtime::tenant::{shared_tenant_manager_with_store, PipelineStatus, TenantManager};

pub const NAMES: &[&str] = &["C22"];

/// Store wrapper: after `limit` writes the process is considered dead — further writes fail
/// (the handlers only log persistence errors; the manager is discarded and a new one recovers).
struct CrashStore { inner: MemoryStore, writes: AtomicU64, limit: AtomicU64 }
impl CrashStore {
    fn dead(&self) -> bool { self.writes.load(Ordering::SeqCst) >= self.limit.load(Ordering::SeqCst) }
    fn tick(&self) -> Result<(), StoreError> {
        if self.dead() { return Err(StoreError::IoError("verif: process crashed".into())); }
        self.writes.fetch_add(1, Ordering::SeqCst);
        Ok(())
    }
}
impl StateStore for CrashStore {
    fn save_checkpoint(&self, c: &Checkpoint) -> Result<(), StoreError> { self.tick()?; self.inner.save_checkpoint(c) }
    fn load_latest_checkpoint(&self) -> Result<Option<Checkpoint>, StoreError> { self.inner.load_latest_checkpoint() }
    fn load_checkpoint(&self, id: u64) -> Result<Option<Checkpoint>, StoreError> { self.inner.load_checkpoint(id) }
    fn list_checkpoints(&self) -> Result<Vec<u64>, StoreError> { self.inner.list_checkpoints() }
    fn prune_checkpoints(&self, keep: usize) -> Result<usize, StoreError> { self.inner.prune_checkpoints(keep) }
    fn put(&self, key: &str, value: &[u8]) -> Result<(), StoreError> { self.tick()?; self.inner.put(key, value) }
    fn get(&self, key: &str) -> Result<Option<Vec<u8>>, StoreError> { self.inner.get(key) }
    fn delete(&self, key: &str) -> Result<(), StoreError> { self.tick()?; self.inner.delete(key) }
    fn flush(&self) -> Result<(), StoreError> { Ok(()) }
}

const NAMES_POOL: &[&str] = &["alpha", "beta", "gamma"];
const SRC_POOL: &[&str] = &[
    "stream A = SensorReading .where(x > 1)",
    "stream B = Tick .where(v < 5) .emit(v: v)",
    "stream C = Order .where(amount >= 10)",
];
const BAD_SRC: &str = "stream = = .where(";
/// parses, but Engine::load / Engine::reload refuse it (a rejected operation that got past the parser)
const REJ_SRC: &str = "stream A = SensorReading .where(x > 1) .collect()";
const ADMIN: &str = "admin-key-verif";

struct World {
    tenants: Vec<(String, String)>,            // model index -> (uuid, api key)
    pipes: Vec<String>,                        // model index -> pipeline uuid
}

fn code<T: PartialEq + ?Sized>(pool: &[&T], x: &T) -> usize { pool.iter().position(|p| *p == x).map(|i| i + 1).unwrap_or(0) }

/// what a freshly restarted server recovers from the store, in model coordinates
fn dump_recovered(store: &Arc<CrashStore>, w: &World) -> String {
    let mut mgr = TenantManager::with_store(store.clone() as Arc<dyn StateStore>);
    let _ = mgr.recover();
    let mut ts: Vec<String> = Vec::new();
    for t in mgr.list_tenants() {
        let ti = w.tenants.iter().position(|(id, _)| id == t.id.as_str()).map(|i| i as i64).unwrap_or(-1);
        let ki = w.tenants.iter().position(|(_, k)| *k == t.api_key).map(|i| i as i64).unwrap_or(-1);
        let mut ps: Vec<(i64, String)> = t.pipelines.values().map(|p| {
            let pi = w.pipes.iter().position(|id| *id == p.id).map(|i| i as i64).unwrap_or(-1);
            let st = match &p.status { PipelineStatus::Running => 0, PipelineStatus::Stopped => 1, PipelineStatus::Error(_) => 2 };
            (pi, format!("P{}:{}:{}:{}", pi, code(NAMES_POOL, p.name.as_str()), code(SRC_POOL, p.source.as_str()), st))
        }).collect();
        ps.sort();
        // the API key index must be recovered too: the key resolves to this tenant
        let key_ok = mgr.get_tenant_by_api_key(&t.api_key).map(|id| id.as_str() == t.id.as_str()).unwrap_or(false);
        ts.push(format!("{:04}|T{}:{}:{}:{}[{}]", ti, ti, code(NAMES_POOL, t.name.as_str()), ki, if key_ok { "k" } else { "NOKEY" },
            ps.iter().map(|(_, s)| s.clone()).collect::<Vec<_>>().join(",")));
    }
    ts.sort();
    let out = ts.iter().map(|s| s.splitn(2, '|').nth(1).unwrap().to_string()).collect::<Vec<_>>().join(" ");
    if out.is_empty() { "-".into() } else { out }
}

async fn scenario(ctx: &mut Ctx, len: u64) {
    let store = Arc::new(CrashStore { inner: MemoryStore::new(), writes: AtomicU64::new(0), limit: AtomicU64::new(u64::MAX) });
    let mut mgr = shared_tenant_manager_with_store(store.clone() as Arc<dyn StateStore>);
    let mut w = World { tenants: Vec::new(), pipes: Vec::new() };
    // model-side liveness bookkeeping only to choose meaningful targets
    let mut live_t: Vec<usize> = Vec::new();
    let mut live_p: Vec<(usize, usize)> = Vec::new(); // (tenant, pipe)
    ctx.directive("new");
    let mut force_deploy: Option<usize> = None;
    for _ in 0..len + 1 {
        let routes = varpulis_cli::api::api_routes(mgr.clone(), Some(ADMIN.to_string()));
        store.limit.store(u64::MAX, Ordering::SeqCst);
        let crash: Option<u64> = if ctx.rng.chance(2, 5) { Some(ctx.rng.below(3)) } else { None };
        if let Some(n) = crash { store.limit.store(store.writes.load(Ordering::SeqCst) + n, Ordering::SeqCst); }
        // after a reload that the engine refused, the next operation is an acknowledged deploy on the same
        // tenant: it persists the tenant, so a refused source that leaked into the pipeline becomes visible
        let r = if force_deploy.is_some() { 30 } else { ctx.rng.below(100) };
        let mut opline: String;
        let status: u16;
        if live_t.is_empty() || r < 18 {
            let name = *ctx.rng.pick(NAMES_POOL);
            let resp = warp::test::request().method("POST").path("/api/v1/tenants").header("x-admin-key", ADMIN)
                .json(&serde_json::json!({"name": name})).reply(&routes).await;
            status = resp.status().as_u16();
            let ti = w.tenants.len();
            if resp.status().is_success() {
                let v: serde_json::Value = serde_json::from_slice(resp.body()).unwrap_or_default();
                w.tenants.push((v["id"].as_str().unwrap_or("").to_string(), v["api_key"].as_str().unwrap_or("").to_string()));
                live_t.push(ti);
            }
            opline = format!("create {} {} {}", ti, code(NAMES_POOL, name), ti);
            ctx.count("op:create-tenant");
        } else if r < 28 {
            let ti = *ctx.rng.pick(&live_t);
            let resp = warp::test::request().method("DELETE").path(&format!("/api/v1/tenants/{}", w.tenants[ti].0)).header("x-admin-key", ADMIN).reply(&routes).await;
            status = resp.status().as_u16();
            if resp.status().is_success() { live_t.retain(|x| *x != ti); live_p.retain(|(t, _)| *t != ti); }
            opline = format!("remove {}", ti);
            ctx.count("op:remove-tenant");
        } else if r < 58 {
            let forced = force_deploy.take();
            let ti = match forced { Some(t) if live_t.contains(&t) => t, _ => *ctx.rng.pick(&live_t) };
            let name = *ctx.rng.pick(NAMES_POOL);
            let bad = forced.is_none() && ctx.rng.chance(1, 6);
            let src = if bad { if ctx.rng.chance(1, 2) { BAD_SRC } else { REJ_SRC } } else { *ctx.rng.pick(SRC_POOL) };
            let resp = warp::test::request().method("POST").path("/api/v1/pipelines").header("x-api-key", w.tenants[ti].1.as_str())
                .json(&serde_json::json!({"name": name, "source": src})).reply(&routes).await;
            status = resp.status().as_u16();
            let pi = w.pipes.len();
            if resp.status().is_success() {
                let v: serde_json::Value = serde_json::from_slice(resp.body()).unwrap_or_default();
                w.pipes.push(v["id"].as_str().unwrap_or("").to_string());
                live_p.push((ti, pi));
            }
            opline = format!("deploy {} {} {} {}", ti, pi, code(NAMES_POOL, name), code(SRC_POOL, src));
            ctx.count(if bad { "op:deploy-invalid-source" } else { "op:deploy" });
        } else if r < 78 && !live_p.is_empty() {
            // delete a pipeline — sometimes with a foreign tenant's key (must be rejected)
            let (ti, pi) = *ctx.rng.pick(&live_p);
            let foreign = live_t.len() > 1 && ctx.rng.chance(1, 5);
            let key_t = if foreign { *live_t.iter().find(|t| **t != ti).unwrap() } else { ti };
            let resp = warp::test::request().method("DELETE").path(&format!("/api/v1/pipelines/{}", w.pipes[pi])).header("x-api-key", w.tenants[key_t].1.as_str()).reply(&routes).await;
            status = resp.status().as_u16();
            if resp.status().is_success() { live_p.retain(|(_, p)| *p != pi); }
            opline = format!("delpipe {} {}", key_t, pi);
            ctx.count(if foreign { "op:delete-pipeline-foreign-key" } else { "op:delete-pipeline" });
        } else if !live_p.is_empty() {
            let (ti, pi) = *ctx.rng.pick(&live_p);
            let bad = ctx.rng.chance(1, 4);
            let src = if bad { if ctx.rng.chance(1, 3) { BAD_SRC } else { REJ_SRC } } else { *ctx.rng.pick(SRC_POOL) };
            let resp = warp::test::request().method("POST").path(&format!("/api/v1/pipelines/{}/reload", w.pipes[pi])).header("x-api-key", w.tenants[ti].1.as_str())
                .json(&serde_json::json!({"source": src})).reply(&routes).await;
            status = resp.status().as_u16();
            opline = format!("reload {} {} {}", ti, pi, code(SRC_POOL, src));
            if src == REJ_SRC && crash.is_none() { force_deploy = Some(ti); }
            ctx.count(if bad { "op:reload-invalid-source" } else { "op:reload" });
        } else {
            continue;
        }
        let acked = (200..300).contains(&status);
        opline.push_str(&format!(" ack={}", if acked { 1 } else { 0 }));
        match crash {
            None => {
                let rec = dump_recovered(&store, &w);
                ctx.case(&opline, &rec);
                ctx.count(if acked { "acked" } else { "rejected" });
            }
            Some(n) => {
                // the process dies: whatever was written stays, the manager is gone, a new server recovers
                store.limit.store(u64::MAX, Ordering::SeqCst);
                let rec = dump_recovered(&store, &w);
                ctx.case(&format!("crash {} {}", n, opline), &rec);
                ctx.count(&format!("crash-after-{}-writes", n));
                mgr = shared_tenant_manager_with_store(store.clone() as Arc<dyn StateStore>);
                // resynchronise the generator's view with what was recovered
                let m = mgr.read().await;
                live_t = (0..w.tenants.len()).filter(|i| m.list_tenants().iter().any(|t| t.id.as_str() == w.tenants[*i].0)).collect();
                live_p = Vec::new();
                for t in m.list_tenants() {
                    if let Some(ti) = w.tenants.iter().position(|(id, _)| id == t.id.as_str()) {
                        for p in t.pipelines.values() {
                            if let Some(pi) = w.pipes.iter().position(|id| *id == p.id) { live_p.push((ti, pi)); }
                        }
                    }
                }
                live_p.sort();
            }
        }
    }
}

pub fn run(ctx: &mut Ctx, _name: &str) {
    let rt = tokio::runtime::Builder::new_current_thread().enable_all().build().unwrap();
    let n = if ctx.thorough { 1500 } else { 150 };
    rt.block_on(async {
        for _ in 0..n {
            let len = 2 + ctx.rng.below(7);
            scenario(ctx, len).await;
        }
    });
}
