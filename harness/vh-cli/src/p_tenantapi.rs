//! C28: request sequences over 2-3 tenants against the real `api_routes` (`warp::test`), mixing every
//! pipeline endpoint with own ids, the other tenants' ids, ids of nothing, and own / foreign / unknown keys.
//! Around every request the state of every tenant the key does NOT belong to is snapshotted
//! (usage, pipelines with name/source/status, engine counters), and the reply body is searched for
//! the other tenants' pipeline ids, tenant ids, names and api keys.
//! Lines: see Driver/TenantApi.lean. Real UUIDs are renamed: pipelines p0,p1,… in order of successful
//! deploys, tenants T0,T1,….
use crate::util::Ctx;
use std::collections::HashMap;
use std::sync::Arc;
use varpulis_runtime::tenant::{SharedTenantManager, TenantManager, TenantQuota};

pub const NAMES: &[&str] = &["C28"];

struct World {
    mgr: SharedTenantManager,
    tenants: Vec<(String, String, String)>,        // (canonical id, real id, api key)
    pid_real: HashMap<String, String>,             // canonical -> real
    pid_canon: HashMap<String, String>,            // real -> canonical
    owner: HashMap<String, usize>,                 // canonical pid -> tenant index
    names: HashMap<String, usize>,                 // pipeline name -> tenant index
    checkpoints: Vec<serde_json::Value>,
    next_pid: usize,
}

fn vpl(src: &str) -> String {
    match src.parse::<i64>() {
        Ok(t) => format!("stream Out = E\n    .where(x > {t})\n    .emit(x: x)\n"),
        Err(_) => "this is not valid {{{".to_string(),
    }
}

fn src_token(vpl: &str) -> String {
    // inverse of `vpl` for the sources this harness deploys
    if let Some(i) = vpl.find("x > ") {
        let rest = &vpl[i + 4..];
        let end = rest.find(')').unwrap_or(rest.len());
        rest[..end].trim().to_string()
    } else { "?".into() }
}

async fn snapshot_others(w: &World, except: Option<usize>) -> String {
    let m = w.mgr.read().await;
    let mut out = vec![];
    for (i, (canon, real, _)) in w.tenants.iter().enumerate() {
        if Some(i) == except { continue; }
        let tid = varpulis_runtime::TenantId::new(real.as_str());
        match m.get_tenant(&tid) {
            None => out.push(format!("{canon}:gone")),
            Some(t) => {
                let mut ps = vec![];
                for p in t.pipelines.values() {
                    let (ein, eout) = p.engine.lock().await.event_counters();
                    ps.push(format!("{}|{}|{}|{}|{}|{}", p.id, p.name, p.source, p.status, ein, eout));
                }
                ps.sort();
                out.push(format!("{canon}:{}:{}:{}:{}:{:?}", t.usage.events_processed, t.usage.output_events_emitted,
                    t.usage.active_pipelines, t.quota.max_pipelines, ps));
            }
        }
    }
    format!("{:?} n={}", out, m.tenant_count())
}

fn leak(w: &World, owner: Option<usize>, body: &str, requested: &str) -> bool {
    // an error message may echo the id the requester typed himself: that is not a leak
    let body = &body.replace(requested, "<requested-id>");
    for (i, (_, real, key)) in w.tenants.iter().enumerate() {
        if Some(i) == owner { continue; }
        if body.contains(real.as_str()) || body.contains(key.as_str()) { return true; }
    }
    for (canon, real) in &w.pid_real {
        if w.owner.get(canon).copied() != owner && body.contains(real.as_str()) { return true; }
    }
    for (name, t) in &w.names {
        if Some(*t) != owner && body.contains(&format!("\"{name}\"")) { return true; }
    }
    false
}

fn canon_info(w: &World, v: &serde_json::Value) -> String {
    let id = v.get("id").and_then(|x| x.as_str()).unwrap_or("?");
    format!("{}:{}:{}:{}", w.pid_canon.get(id).cloned().unwrap_or_else(|| format!("?{id}")),
        v.get("name").and_then(|x| x.as_str()).unwrap_or("?"),
        v.get("status").and_then(|x| x.as_str()).unwrap_or("?"),
        src_token(v.get("source").and_then(|x| x.as_str()).unwrap_or("")))
}

fn outs(evs: Option<&Vec<serde_json::Value>>, flat: bool) -> String {
    let xs: Vec<String> = evs.map(|l| l.iter().map(|e| {
        let f = if flat { e.get("x") } else { e.get("fields").and_then(|f| f.get("x")) };
        f.map(|x| x.to_string()).unwrap_or_else(|| "?".into())
    }).collect()).unwrap_or_default();
    if xs.is_empty() { "-".into() } else { xs.join(",") }
}

pub fn run(ctx: &mut Ctx, _name: &str) {
    let scenarios = if ctx.thorough { 400 } else { 40 };
    let len = if ctx.thorough { 70 } else { 55 };
    let rt = tokio::runtime::Builder::new_multi_thread().worker_threads(2).enable_all().build().expect("runtime");
    rt.block_on(async {
        for _ in 0..scenarios { scenario(ctx, len).await; }
    });
}

async fn scenario(ctx: &mut Ctx, len: usize) {
    let nt = 2 + ctx.rng.below(2) as usize;
    let mut mgr = TenantManager::new();
    let mut tenants = vec![];
    let mut decl = vec![];
    for i in 0..nt {
        let key = format!("key-{}-{}", i, ctx.rng.below(1000));
        let maxp = 1 + ctx.rng.below(3) as usize;
        let quota = TenantQuota { max_pipelines: maxp, max_events_per_second: 0, max_streams_per_pipeline: 50 };
        let id = mgr.create_tenant(format!("Tenant{i}"), key.clone(), quota).expect("tenant");
        decl.push(format!("T{i}:{key}:{maxp}"));
        tenants.push((format!("T{i}"), id.as_str().to_string(), key));
    }
    let mgr: SharedTenantManager = Arc::new(tokio::sync::RwLock::new(mgr));
    let routes = varpulis_cli::api::api_routes(mgr.clone(), None);
    let mut w = World { mgr, tenants, pid_real: HashMap::new(), pid_canon: HashMap::new(), owner: HashMap::new(),
        names: HashMap::new(), checkpoints: vec![], next_pid: 0 };
    ctx.directive(&format!("new tenants={}", decl.join(";")));

    // forced requests: (tenant, operation number, canonical pipeline id) — own-then-foreign bursts
    let mut forced: std::collections::VecDeque<(usize, u64, String)> = std::collections::VecDeque::new();
    for step in 0..len {
        // every now and then: the OWNER reads one of its pipelines, and immediately afterwards every other
        // tenant (valid key) reads the SAME id through the same endpoint — what a response cache keyed by
        // pipeline id only, or any other state shared across tenants, would get wrong
        if forced.is_empty() && !w.pid_real.is_empty() && ctx.rng.chance(1, 5) {
            let mut ids: Vec<String> = w.owner.keys().cloned().collect(); ids.sort();
            let pid = ctx.rng.pick(&ids).clone();
            let o = w.owner[&pid];
            let op = *ctx.rng.pick(&[4u64, 4, 9, 11, 11, 13, 2, 3]);   // get, checkpoint, metrics, logs, list, usage
            forced.push_back((o, op, pid.clone()));
            for t in 0..nt { if t != o { forced.push_back((t, op, pid.clone())); } }
            if ctx.rng.chance(1, 2) { forced.push_back((o, op, pid.clone())); }
            ctx.count("burst:own-then-foreign");
        }
        let force = forced.pop_front();
        // who asks
        let (key, owner): (String, Option<usize>) = if let Some((t, _, _)) = &force { (w.tenants[*t].2.clone(), Some(*t)) } else if ctx.rng.chance(1, 12) {
            (format!("{}x", w.tenants[0].2), None)          // nobody's key (near miss of a real one)
        } else { let i = ctx.rng.below(nt as u64) as usize; (w.tenants[i].2.clone(), Some(i)) };
        // which pipeline id: own / foreign / nothing
        let all: Vec<String> = { let mut v: Vec<String> = w.pid_real.keys().cloned().collect(); v.sort(); v };
        let own: Vec<String> = all.iter().filter(|p| w.owner.get(*p).copied() == owner && owner.is_some()).cloned().collect();
        let foreign: Vec<String> = all.iter().filter(|p| w.owner.get(*p).copied() != owner).cloned().collect();
        let (pid, kind) = if let Some((t, _, p)) = &force { (p.clone(), if w.owner.get(p) == Some(t) { "own" } else { "foreign" }) } else { match ctx.rng.below(10) {
            0..=4 if !own.is_empty() => (ctx.rng.pick(&own).clone(), "own"),
            5..=8 if !foreign.is_empty() => (ctx.rng.pick(&foreign).clone(), "foreign"),
            _ if !own.is_empty() && ctx.rng.chance(1, 2) => (ctx.rng.pick(&own).clone(), "own"),
            _ => ("nope".to_string(), "none"),
        } };
        let real_pid = w.pid_real.get(&pid).cloned().unwrap_or_else(|| "no-such-pipeline".into());
        // early in a scenario deploy more often so that there is something to attack
        let opn = if let Some((_, o, _)) = &force { *o } else if step < 2 * nt && ctx.rng.chance(2, 3) { 0 } else { ctx.rng.below(14) };
        let (opname, line, method, path, body): (&str, String, &str, String, Option<serde_json::Value>) = match opn {
            0 | 1 => {
                let src = if ctx.rng.chance(1, 8) { "bad".to_string() } else { ctx.rng.range(-2, 5).to_string() };
                let name = format!("n{}_{}", owner.map(|o| o.to_string()).unwrap_or("x".into()), step);
                ("deploy", format!("deploy {name} {src}"), "POST", "/api/v1/pipelines".into(),
                 Some(serde_json::json!({"name": name, "source": vpl(&src)})))
            }
            2 => ("list", "list".into(), "GET", "/api/v1/pipelines".into(), None),
            3 => ("usage", "usage".into(), "GET", "/api/v1/usage".into(), None),
            4 => ("get", format!("get {pid}"), "GET", format!("/api/v1/pipelines/{real_pid}"), None),
            5 => ("delete", format!("delete {pid}"), "DELETE", format!("/api/v1/pipelines/{real_pid}"), None),
            6 | 7 => {
                let x = ctx.rng.range(-3, 8);
                ("inject", format!("inject {pid} {x}"), "POST", format!("/api/v1/pipelines/{real_pid}/events"),
                 Some(serde_json::json!({"event_type": "E", "fields": {"x": x}})))
            }
            8 => {
                let n = 1 + ctx.rng.below(4);
                let xs: Vec<i64> = (0..n).map(|_| ctx.rng.range(-3, 8)).collect();
                let evs: Vec<serde_json::Value> = xs.iter().map(|x| serde_json::json!({"event_type": "E", "fields": {"x": x}})).collect();
                ("batch", format!("batch {pid} {}", xs.iter().map(|x| x.to_string()).collect::<Vec<_>>().join(",")), "POST",
                 format!("/api/v1/pipelines/{real_pid}/events-batch"), Some(serde_json::json!({"events": evs})))
            }
            9 => ("checkpoint", format!("checkpoint {pid}"), "POST", format!("/api/v1/pipelines/{real_pid}/checkpoint"), None),
            10 if !w.checkpoints.is_empty() => {
                let i = ctx.rng.below(w.checkpoints.len() as u64) as usize;
                ("restore", format!("restore {pid} c{i}"), "POST", format!("/api/v1/pipelines/{real_pid}/restore"),
                 Some(serde_json::json!({"checkpoint": w.checkpoints[i]})))
            }
            11 => ("metrics", format!("metrics {pid}"), "GET", format!("/api/v1/pipelines/{real_pid}/metrics"), None),
            12 => {
                let src = if ctx.rng.chance(1, 8) { "bad".to_string() } else { ctx.rng.range(-2, 5).to_string() };
                ("reload", format!("reload {pid} {src}"), "POST", format!("/api/v1/pipelines/{real_pid}/reload"),
                 Some(serde_json::json!({"source": vpl(&src)})))
            }
            13 if force.is_some() || ctx.rng.chance(1, 3) => ("logs", format!("logs {pid}"), "GET", format!("/api/v1/pipelines/{real_pid}/logs"), None),
            _ => ("get", format!("get {pid}"), "GET", format!("/api/v1/pipelines/{real_pid}"), None),
        };
        let uses_pid = !matches!(opname, "deploy" | "list" | "usage");
        ctx.count(&format!("op:{opname}"));
        if uses_pid { ctx.count(&format!("pid:{}:{}", if owner.is_some() { "tenant-key" } else { "unknown-key" }, kind)); }

        let before = snapshot_others(&w, owner).await;
        let mut req = warp::test::request().method(method).path(&path).header("x-api-key", key.as_str());
        if let Some(b) = &body { req = req.json(b); }
        let resp = tokio::time::timeout(std::time::Duration::from_millis(if opname == "logs" { 300 } else { 20000 }), req.reply(&routes)).await;
        let after = snapshot_others(&w, owner).await;

        let (reply, leaked) = match resp {
            Err(_) => (if opname == "logs" { "200 logs".to_string() } else { "timeout".to_string() }, false),
            Ok(r) => {
                let status = r.status().as_u16();
                let text = String::from_utf8_lossy(r.body()).to_string();
                let v: serde_json::Value = serde_json::from_str(&text).unwrap_or(serde_json::Value::Null);
                let code = v.get("code").and_then(|c| c.as_str()).unwrap_or("");
                let leaked = leak(&w, owner, &text, &real_pid);
                let reply = match (status, opname) {
                    (401, _) => "401".to_string(),
                    (404, _) if code == "tenant_not_found" => "404t".into(),
                    (404, _) => "404p".into(),
                    (429, _) => "429".into(),
                    (400, _) => "400".into(),
                    (500, _) => "500".into(),
                    (201, "deploy") => {
                        let real = v.get("id").and_then(|x| x.as_str()).unwrap_or("?").to_string();
                        let canon = format!("p{}", w.next_pid);
                        w.next_pid += 1;
                        w.pid_real.insert(canon.clone(), real.clone());
                        w.pid_canon.insert(real, canon.clone());
                        if let Some(o) = owner { w.owner.insert(canon.clone(), o); }
                        let name = v.get("name").and_then(|x| x.as_str()).unwrap_or("?").to_string();
                        if let Some(o) = owner { w.names.insert(name.clone(), o); }
                        format!("201 {canon} {name}")
                    }
                    (200, "list") => {
                        let mut l: Vec<String> = v.get("pipelines").and_then(|p| p.as_array()).map(|a| a.iter().map(|p| canon_info(&w, p)).collect()).unwrap_or_default();
                        l.sort();
                        format!("200 list {}", if l.is_empty() { "-".to_string() } else { l.join(",") })
                    }
                    (200, "get") => format!("200 info {}", canon_info(&w, &v)),
                    (200, "delete") => "200 deleted".into(),
                    (200, "inject") => format!("200 inj {}", outs(v.get("output_events").and_then(|e| e.as_array()), false)),
                    (200, "batch") => format!("200 batch {} {}", v.get("accepted").and_then(|a| a.as_u64()).unwrap_or(999),
                        outs(v.get("output_events").and_then(|e| e.as_array()), true)),
                    (200, "checkpoint") => {
                        w.checkpoints.push(v.get("checkpoint").cloned().unwrap_or(serde_json::Value::Null));
                        let p = v.get("pipeline_id").and_then(|x| x.as_str()).unwrap_or("?");
                        format!("200 ck {} {}", w.pid_canon.get(p).cloned().unwrap_or("?".into()), v.get("events_processed").and_then(|a| a.as_u64()).unwrap_or(999))
                    }
                    (200, "restore") => {
                        let p = v.get("pipeline_id").and_then(|x| x.as_str()).unwrap_or("?");
                        format!("200 restored {}", w.pid_canon.get(p).cloned().unwrap_or("?".into()))
                    }
                    (200, "metrics") => {
                        let p = v.get("pipeline_id").and_then(|x| x.as_str()).unwrap_or("?");
                        format!("200 metrics {} {} {}", w.pid_canon.get(p).cloned().unwrap_or("?".into()),
                            v.get("events_processed").and_then(|a| a.as_u64()).unwrap_or(999), v.get("output_events_emitted").and_then(|a| a.as_u64()).unwrap_or(999))
                    }
                    (200, "reload") => "200 reloaded".into(),
                    (200, "usage") => {
                        let t = v.get("tenant_id").and_then(|x| x.as_str()).unwrap_or("?");
                        let canon = w.tenants.iter().find(|(_, real, _)| real == t).map(|(c, _, _)| c.clone()).unwrap_or("?".into());
                        format!("200 usage {} {} {} {} {}", canon, v.get("events_processed").and_then(|a| a.as_u64()).unwrap_or(999),
                            v.get("output_events_emitted").and_then(|a| a.as_u64()).unwrap_or(999),
                            v.get("active_pipelines").and_then(|a| a.as_u64()).unwrap_or(999),
                            v.get("quota").and_then(|q| q.get("max_pipelines")).and_then(|a| a.as_u64()).unwrap_or(999))
                    }
                    (s, o) => format!("{s} ?{o}"),
                };
                (reply, leaked)
            }
        };
        // a deleted pipeline keeps its canonical name (later requests with it must answer 404)
        ctx.count(&format!("reply:{}", reply.split(' ').take(2).collect::<Vec<_>>().join("_")));
        ctx.case(&format!("req {key} {line}"), &format!("{} | others={} leak={}", reply, if before == after { "same" } else { "changed" }, if leaked { 1 } else { 0 }));
    }
}
