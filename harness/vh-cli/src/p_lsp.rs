//! C43: the six language-server handlers on mutated example documents (multi-byte characters,
//! CRLF, truncations) at every position within / just past the text, one `catch_unwind` per call;
//! plus the shared text helpers (through `verif_*` accessors) against the Lean model
//! (`vmodel lsptext`). Ranges are judged in Lean against the document sent on the `new doc` line.
use crate::util::{catch, Ctx};
use tower_lsp::lsp_types::{Position, Range, Url};
use varpulis_lsp::completion::{get_completions, verif_completion_prefix};
use varpulis_lsp::diagnostics::{get_diagnostics, verif_clamp_to_document, verif_get_error_end_column, verif_position_to_line_col};
use varpulis_lsp::hover::{get_hover, verif_get_word_at_position};
use varpulis_lsp::navigation::{get_definition, get_references, verif_byte_offset_to_position, verif_word_at_position};
use varpulis_lsp::semantic::{get_semantic_tokens, verif_match_token};

pub const NAMES: &[&str] = &["C43"];

const SEEDS: &[&str] = &[
    "event Trade:\n    symbol: str\n    price: float\n\nstream Big = Trade\n    .where(price > 100)\n    .emit(symbol: symbol, total: price * 2)\n",
    "connector K = kafka(brokers: \"k:9092\")\n\nevent A:\n    id: int\n\nstream S = A.from(K, topic: \"t\")\nstream Out = S.to(K, topic: \"o\")\n",
    "event Login:\n    user: str\nevent Tx:\n    user: str\n    amount: float\n\nstream Fraud = Login as l\n    -> Tx where user == l.user as t\n    .within(5m)\n    .emit(user: l.user, amount: t.amount)\n",
    "fn double(x: int) -> int:\n    return x * 2\n\nevent E:\n    v: int\n\nstream D = E\n    .select(w: double(v))\n    .emit()\n",
    "event T:\n    sym: str\n    p: float\n\nstream Avg = T\n    .partition_by(sym)\n    .window(10s)\n    .aggregate(avg_p: avg(p), n: count())\n    .having(n > 2)\n",
    "# comment \u{e9}\u{e9}\u{e9}\u{2026}\nlet threshold = 10\nconst NAME = \"x\"\nevent M:\n    value: float\nstream H = M.where(value > threshold).emit(v: value)\n",
    "pattern P = SEQ(A a, B+ b, C c) within 1h\nstream X = A -> all B as bs -> C .within(1h) .emit(n: 1)\n",
    "event S:\n    ts: timestamp\n    d: duration\nstream W = S.where(ts > @2024-01-01T00:00:00Z and d < 5m).emit(ok: true)\n",
];

/// the generator's alphabet of non-ASCII characters (2, 3 and 4 bytes; letters, digits, spaces,
/// symbols, combining mark, upper case); classification is sent to the model as `cls` cases
const MB: &[char] = &[
    '\u{e9}', '\u{c9}', '\u{fc}', '\u{3b1}', '\u{3a9}', '\u{65e5}', '\u{672c}', '\u{663}', '\u{b2}', '\u{2167}',
    '\u{20ac}', '\u{2014}', '\u{2026}', '\u{a0}', '\u{2003}', '\u{3000}', '\u{301}', '\u{1f600}', '\u{1d4d0}', '\u{feff}',
];

fn hex(s: &str) -> String { s.bytes().map(|b| format!("{:02x}", b)).collect() }

fn fmt_pos(p: &Position) -> String { format!("{}:{}", p.line, p.character) }
fn fmt_range(r: &Range) -> String { format!("{}-{}", fmt_pos(&r.start), fmt_pos(&r.end)) }

fn char_floor(s: &str, mut i: usize) -> usize {
    if i > s.len() { i = s.len(); }
    while !s.is_char_boundary(i) { i -= 1; }
    i
}

fn mutate(ctx: &mut Ctx, doc: &str) -> String {
    let mut s = doc.to_string();
    let n = 1 + ctx.rng.below(4);
    for _ in 0..n {
        let at = char_floor(&s, ctx.rng.below(s.len() as u64 + 1) as usize);
        match ctx.rng.below(19) {
            0 | 1 | 2 => { // insert a multi-byte character
                s.insert(at, *ctx.rng.pick(MB)); ctx.count("mut:insert-mb");
            }
            3 => { // replace an identifier-ish run by a multi-byte identifier
                let id: String = (0..1 + ctx.rng.below(3)).map(|_| *ctx.rng.pick(&MB[..10])).collect();
                let pre = if ctx.rng.chance(1, 2) { "a" } else { "" };
                s.insert_str(at, &format!("{}{}", pre, id)); ctx.count("mut:mb-identifier");
            }
            4 => { // delete a character
                if at < s.len() { s.remove(at); } ctx.count("mut:delete");
            }
            5 => { // truncate
                s.truncate(at); ctx.count("mut:truncate");
            }
            6 => { s.insert(at, '\n'); ctx.count("mut:newline"); }
            7 => {
                if ctx.rng.chance(1, 2) { s = s.replace('\n', "\r\n"); ctx.count("mut:crlf"); }
                else if ctx.rng.chance(1, 2) { s.insert(at, '\r'); ctx.count("mut:lone-cr"); }
                else { // old Mac line ends: every second line break becomes a lone CR
                    let mut k = 0; s = s.chars().map(|c| if c == '\n' { k += 1; if k % 2 == 0 { '\r' } else { '\n' } } else { c }).collect(); ctx.count("mut:lone-cr");
                }
            }
            8 => { // a comment line with multi-byte text
                let c: String = (0..3 + ctx.rng.below(4)).map(|_| *ctx.rng.pick(MB)).collect();
                let line_start = s[..at].rfind('\n').map(|i| i + 1).unwrap_or(0);
                s.insert_str(line_start, &format!("# {}\n", c)); ctx.count("mut:mb-comment");
            }
            9 => { // connector parameter context with multi-byte names
                let c: String = (0..1 + ctx.rng.below(2)).map(|_| *ctx.rng.pick(MB)).collect();
                let sp = *ctx.rng.pick(&["", " ", "\u{a0}", "  "]);
                let op = *ctx.rng.pick(&[".from(", ".to("]);
                s.insert_str(at, &format!("{}{}a{}, ", op, sp, c)); ctx.count("mut:from-to");
            }
            10 => { // stray punctuation / unbalanced brackets
                s.insert_str(at, *ctx.rng.pick(&["(", ")", "[", "\"", "'", ":", ".", "@", "{", "->", "# "])); ctx.count("mut:punct");
            }
            11 => { // multi-byte inside a string literal
                let c: String = (0..2).map(|_| *ctx.rng.pick(MB)).collect();
                s.insert_str(at, &format!("\"{}\"", c)); ctx.count("mut:mb-string");
            }
            12 => { // duplicate a slice
                let b = char_floor(&s, at + ctx.rng.below(30) as usize);
                let piece = s[at..b].to_string();
                s.insert_str(at, &piece); ctx.count("mut:duplicate");
            }
            13 | 14 => { // a syntax error after multi-byte text on the same line (character column != byte offset)
                let c: String = (0..2 + ctx.rng.below(3)).map(|_| *ctx.rng.pick(&MB[5..13])).collect();
                let line_end = s[at..].find('\n').map(|i| at + i).unwrap_or(s.len());
                s.insert_str(line_end, &format!(" \"{}\" {}", c, ctx.rng.pick(&[")", "]", "}", "@@", "= =", "\u{e9}"]))); ctx.count("mut:error-after-mb");
            }
            15 | 16 => { // the document ends in the middle of an expression, on a line with multi-byte text:
                // the parse error sits at the very end of that line and its padded end column must be clamped
                let c: String = (0..1 + ctx.rng.below(4)).map(|_| *ctx.rng.pick(&MB[..13])).collect();
                let line_end = s[at..].find('\n').map(|i| at + i).unwrap_or(s.len());
                s.truncate(line_end);
                let line_start = s.rfind('\n').map(|i| i + 1).unwrap_or(0);
                if ctx.rng.chance(1, 2) { s.truncate(line_start); s.push_str("let s ="); }
                s.push_str(&format!(" \"{}\" {}", c, ctx.rng.pick(&["+", "and", "(", "==", ",", "*", "or", ".where(", "["])));
                ctx.count("mut:eof-after-mb");
            }
            17 => { // nesting deeper than the parser allows (InvalidToken, end = start + 10) on a multi-byte line
                let c: String = (0..1 + ctx.rng.below(3)).map(|_| *ctx.rng.pick(&MB[..6])).collect();
                if !s.is_empty() && !s.ends_with('\n') { s.push('\n'); }
                s.push_str(&format!("let {} = {}1", c, "[".repeat(17 + ctx.rng.below(4) as usize)));
                ctx.count("mut:deep-nesting-mb");
            }
            _ => { // upper-case multi-byte type name
                s.insert_str(at, &format!(" {}{} ", ctx.rng.pick(&['\u{c9}', '\u{3a9}', 'Z']), ctx.rng.pick(MB))); ctx.count("mut:mb-type");
            }
        }
    }
    s
}

fn xhex(s: &str) -> String { format!("x{}", hex(s)) }

/// the shared text helpers (through the `verif_*` accessors) at every offset / position
fn helper_lines(ctx: &mut Ctx, doc: &str) {
    for off in 0..doc.len() + 3 {
        let d = doc.to_string();
        let a = catch(move || verif_position_to_line_col(&d, off)).map(|(l, c)| format!("{}:{}", l, c)).unwrap_or("panic".into());
        let d = doc.to_string();
        let b = catch(move || verif_byte_offset_to_position(&d, off)).map(|(l, c)| format!("{}:{}", l, c)).unwrap_or("panic".into());
        ctx.case(&format!("o {}", off), &format!("d={} n={}", a, b));
    }
    let lines: Vec<&str> = doc.split('\n').collect();
    for li in 0..lines.len() + 2 {
        let blen = lines.get(li).map(|l| l.len()).unwrap_or(0);
        for ci in 0..blen + 3 {
            let pos = Position { line: li as u32, character: ci as u32 };
            let fw = |r: Result<Option<String>, String>| match r { Err(_) => "panic".to_string(), Ok(None) => "none".to_string(), Ok(Some(w)) => xhex(&w) };
            let d = doc.to_string();
            let h = fw(catch(move || verif_get_word_at_position(&d, pos)));
            let d = doc.to_string();
            let n = fw(catch(move || verif_word_at_position(&d, pos)));
            let d = doc.to_string();
            let p = catch(move || verif_completion_prefix(&d, pos)).map(|p| xhex(&p)).unwrap_or("panic".into());
            if h != "none" { ctx.count("helper:word"); }
            ctx.case(&format!("w {} {}", li, ci), &format!("h={} n={} p={}", h, n, p));
            let d = doc.to_string();
            let e = catch(move || verif_get_error_end_column(&d, li, ci)).map(|e| e.to_string()).unwrap_or("panic".into());
            let d = doc.to_string();
            let c = catch(move || verif_clamp_to_document(&d, pos)).map(|p| fmt_pos(&p)).unwrap_or("panic".into());
            ctx.case(&format!("e {} {}", li, ci), &format!("eec={} clamp={}", e, c));
        }
    }
    // identifier tokens starting with a multi-byte letter (no keyword / type / function can match)
    for line in doc.lines() {
        for (i, ch) in line.char_indices() {
            if !ch.is_ascii() && ch.is_alphabetic() {
                let rest = line[i..].to_string();
                let r2 = rest.clone();
                let r = match catch(move || verif_match_token(&r2)) {
                    Err(_) => "panic".to_string(),
                    Ok(None) => "nomatch".to_string(),
                    Ok(Some((len, _))) => {
                        let r3 = rest.clone();
                        match catch(move || r3[..len].chars().count()) { Ok(n) => format!("len={} chars={}", len, n), Err(_) => "panic".to_string() }
                    }
                };
                ctx.count("helper:mb-ident-token");
                ctx.case(&format!("tok {}", xhex(&rest)), &r);
            }
        }
    }
}

fn one_doc(ctx: &mut Ctx, doc: &str, uri: &Url, dense: bool) {
    ctx.directive(&format!("new doc {}", hex(doc)));
    helper_lines(ctx, doc);
    // document-level handlers
    let d = doc.to_string();
    let r = match catch(move || get_diagnostics(&d)) {
        Err(_) => { ctx.count("diag:panic"); "panic".to_string() }
        Ok(ds) => {
            ctx.count(if ds.is_empty() { "diag:none" } else { "diag:some" });
            if ds.is_empty() { "-".to_string() } else { ds.iter().map(|x| fmt_range(&x.range)).collect::<Vec<_>>().join(" ") }
        }
    };
    ctx.case("diag", &r);
    let d = doc.to_string();
    let r = match catch(move || get_semantic_tokens(&d)) {
        Err(_) => { ctx.count("sem:panic"); "panic".to_string() }
        Ok(ts) => {
            ctx.count("sem:ok");
            let (mut l, mut c) = (0u64, 0u64);
            let mut out = Vec::new();
            for t in &ts {
                if t.delta_line > 0 { l += t.delta_line as u64; c = t.delta_start as u64; } else { c += t.delta_start as u64; }
                out.push(format!("{}:{}+{}", l, c, t.length));
            }
            if out.is_empty() { "-".to_string() } else { out.join(" ") }
        }
    };
    ctx.case("sem", &r);
    // positional handlers at every position within / just past the text
    let lines: Vec<&str> = doc.split('\n').collect();
    for li in 0..lines.len() + 2 {
        let blen = lines.get(li).map(|l| l.len()).unwrap_or(0);
        let mut ci = 0usize;
        while ci <= blen + 2 {
            let pos = Position { line: li as u32, character: ci as u32 };
            let d = doc.to_string();
            let h = match catch(move || get_hover(&d, pos)) {
                Err(_) => { ctx.count("hover:panic"); "panic" } Ok(Some(_)) => { ctx.count("hover:some"); "some" } Ok(None) => "none" };
            let d = doc.to_string();
            let (c, k) = match catch(move || get_completions(&d, pos)) {
                Err(_) => { ctx.count("compl:panic"); ("panic".to_string(), "panic") }
                Ok(v) => {
                    // connector-parameter context, read off the result: parameter names only (kind PROPERTY), or nothing
                    let params = v.iter().all(|i| i.kind == Some(tower_lsp::lsp_types::CompletionItemKind::PROPERTY));
                    if params { ctx.count(if v.is_empty() { "compl:connector-params-unknown" } else { "compl:connector-params" }); }
                    (format!("{}", v.len()), if params { "p" } else { "o" })
                } };
            let (dd, rr) = if dense || ci % 3 == 0 || ci + 3 > blen {
                let d = doc.to_string(); let u = uri.clone();
                let dd = match catch(move || get_definition(&d, pos, &u)) {
                    Err(_) => { ctx.count("def:panic"); "panic".to_string() }
                    Ok(None) => "none".to_string(),
                    Ok(Some(loc)) => { ctx.count("def:some"); fmt_range(&loc.range) } };
                let d = doc.to_string(); let u = uri.clone();
                let rr = match catch(move || get_references(&d, pos, &u)) {
                    Err(_) => { ctx.count("refs:panic"); "panic".to_string() }
                    Ok(None) => "none".to_string(),
                    Ok(Some(locs)) => { ctx.count("refs:some"); if locs.is_empty() { "-".to_string() } else { locs.iter().map(|l| fmt_range(&l.range)).collect::<Vec<_>>().join(",") } } };
                (dd, rr)
            } else { ("skip".to_string(), "skip".to_string()) };
            ctx.case(&format!("at {} {}", li, ci), &format!("h={} c={} k={} d={} r={}", h, c, k, dd, rr));
            ci += 1;
        }
    }
}

pub fn run(ctx: &mut Ctx, _name: &str) {
    std::panic::set_hook(Box::new(|_| {}));
    let uri = Url::parse("file:///doc.vpl").unwrap();
    // character classes the word helpers depend on, for the generator's alphabet
    ctx.directive("new classes");
    for c in MB.iter().copied().chain((0x20u8..0x7f).map(|b| b as char)).chain(['\t', '\r']) {
        ctx.case(&format!("cls {:x}", c as u32),
            &format!("w={} s={} u={} a={} n={}", (c.is_alphanumeric() || c == '_') as u8, c.is_whitespace() as u8, c.is_uppercase() as u8, c.is_alphabetic() as u8, c.len_utf8()));
    }
    // fixed witnesses first
    for w in ["# \u{e9}\u{e9}\u{e9}\u{2026}", "a\u{e9}", "x = \u{65e5}\u{672c}", "stream x = y.where(", "s.from( a\u{e9}", "\u{e9}@", "", "let x = \"\u{65e5}\u{65e5}\u{65e5}\" )", "a\r\n\u{1f600}b\r\n", "event A:\r    x: int\rstream S = A.where(\u{e9} > 1)\r", "let a = 1\rlet \u{65e5} = (\r\n",
        // connector-parameter context (decided by value through the completions)
        "connector K = kafka(brokers: \"k\")\nstream S = A.from( K , topic: \"t\", ", "stream S = A.to(\u{e9}K,", "stream S = A.from(K", "s.from(1, ", "s.from(a).to( b\u{a0}, ",
        // parse errors at the very end of a line with multi-byte characters (padded end column must be clamped in characters)
        "let s = \"\u{b0}C \u{2192} \u{e9}lev\u{e9}\" +", "stream Hot = Reading.where(unit == \"\u{b0}C\" and",
        "let \u{e9} = [[[[[[[[[[[[[[[[[1", "event A:\n    x: int\nlet s = \"\u{65e5}\u{672c}\" ("] {
        one_doc(ctx, w, &uri, true);
    }
    let ndocs = if ctx.thorough { 600 } else { 40 };
    for i in 0..ndocs {
        let seed = SEEDS[(i as usize) % SEEDS.len()];
        // work on a slice of the seed so that documents stay small
        let mut doc = seed.to_string();
        if i >= SEEDS.len() as u64 && ctx.rng.chance(1, 2) {
            let a = char_floor(&doc, ctx.rng.below(doc.len() as u64) as usize);
            let a = doc[..a].rfind('\n').map(|i| i + 1).unwrap_or(0);
            let b = char_floor(&doc, a + 40 + ctx.rng.below(120) as usize);
            doc = doc[a..b].to_string();
        }
        let doc = if i < SEEDS.len() as u64 && !ctx.thorough { doc } else { mutate(ctx, &doc) };
        one_doc(ctx, &doc, &uri, ctx.thorough);
    }
    let _ = std::panic::take_hook();
}
