//! C18: the REAL `varpulis simulate` binary with 1..8 workers, preload and streaming modes, on
//! generated stateless and key-partitioned programs and random event files; the multiset of output
//! events on stdout is compared with the single-worker run and, for the modelled program families,
//! with the Lean model (`vmodel simulate`).
//!
//! The binary is (re)built from `$VERIF_REPO` with `cargo build --offline -p varpulis-cli --bin varpulis`
//! into `<verif>/.build/cargo-cli` on every run, so it always reflects the current tree.
//! Each configuration is run twice: normally (stdout lists the output events) and with `--quiet`
//! (reports the number of events the engines emitted without going through the output channel).
use crate::util::Ctx;
use std::path::{Path, PathBuf};
use std::process::Command;

pub const NAMES: &[&str] = &["C18"];

fn build_binary() -> PathBuf {
    let repo = std::env::var("VERIF_REPO").unwrap_or_else(|_| "/repo".to_string());
    // the harness runs in <verif>/.build/run
    let build = std::env::current_dir().unwrap().parent().unwrap().to_path_buf();
    let target = build.join("cargo-cli");
    let out = Command::new("cargo")
        .args(["build", "--offline", "-p", "varpulis-cli", "--bin", "varpulis"])
        .current_dir(&repo)
        .env("CARGO_NET_OFFLINE", "true")
        .env("CARGO_TARGET_DIR", &target)
        .output()
        .expect("cargo");
    if !out.status.success() {
        eprintln!("building the varpulis binary failed:\n{}", String::from_utf8_lossy(&out.stderr));
        std::process::exit(3);
    }
    target.join("debug").join("varpulis")
}

struct RunOut { listed: Vec<String>, emitted_quiet: Option<u64>, ok: bool }

fn run_cli(bin: &Path, prog: &Path, evts: &Path, workers: u32, preload: bool, quiet: bool) -> (bool, String) {
    let mut c = Command::new(bin);
    c.arg("simulate").arg("-p").arg(prog).arg("-e").arg(evts).arg("--immediate").arg("--workers").arg(workers.to_string());
    if preload { c.arg("--preload"); }
    if quiet { c.arg("--quiet"); }
    c.env("RUST_LOG", "error").env("NO_COLOR", "1");
    match c.output() {
        Ok(o) => (o.status.success(), String::from_utf8_lossy(&o.stdout).to_string()),
        Err(_) => (false, String::new()),
    }
}

fn one_config(ctx: &mut Ctx, bin: &Path, prog: &Path, evts: &Path, workers: u32, preload: bool) -> RunOut {
    let (okq, outq) = run_cli(bin, prog, evts, workers, preload, true);
    let emitted_quiet = outq.lines().find_map(|l| l.strip_prefix("Output events emitted: ").and_then(|n| n.trim().parse::<u64>().ok()));
    let mut best: Option<Vec<String>> = None;
    let mut ok = okq;
    // the listing can lag behind the engines (bounded channel, fixed grace period): retry twice
    for attempt in 0..3 {
        let (okn, out) = run_cli(bin, prog, evts, workers, preload, false);
        ok &= okn;
        let mut listed: Vec<String> = Vec::new();
        let mut in_summary = false;
        for l in out.lines() {
            if l.starts_with("Output Events Summary:") { in_summary = true; continue; }
            if in_summary { if let Some(ev) = l.strip_prefix("  - ") { listed.push(ev.to_string()); } }
        }
        listed.sort();
        let complete = emitted_quiet.map(|e| listed.len() as u64 >= e).unwrap_or(true);
        if best.as_ref().map(|b| listed.len() > b.len()).unwrap_or(true) { best = Some(listed); }
        if complete { break; }
        ctx.count(&format!("retry:incomplete-listing-attempt{}", attempt + 1));
    }
    RunOut { listed: best.unwrap_or_default(), emitted_quiet, ok }
}

#[derive(Clone, Copy, PartialEq, Debug)]
enum Fam { Filter, Window, Both, Chain, SeqPart, Sliding }

fn scenario(ctx: &mut Ctx, bin: &Path, dir: &Path, n: u64, fam: Fam, nev: usize, cmax: i64, configs: &[(u32, bool)]) {
    let c = ctx.rng.range(0, cmax);
    let m = ctx.rng.range(1, 5);
    let wn = ctx.rng.range(1, 5);
    let nkeys = ctx.rng.range(1, 12);
    let intkeys = matches!(fam, Fam::Window | Fam::Sliding) && ctx.rng.chance(1, 3);
    let kty = if intkeys { "int" } else { "str" };
    let program = match fam {
        Fam::Filter => format!("event T:\n    k: {kty}\n    v: int\n\nstream Out = T\n    .where(v > {c})\n    .emit(k: k, w: v * {m})\n"),
        Fam::Window => format!("event T:\n    k: {kty}\n    v: int\n\nstream Out = T\n    .partition_by(k)\n    .window({wn})\n    .aggregate(s: sum(v), c: count())\n    .emit(key: _partition, s: s, c: c)\n"),
        Fam::Both => format!("event T:\n    k: {kty}\n    v: int\n\nstream F = T\n    .where(v > {c})\n    .emit(k: k, w: v * {m})\n\nstream W = T\n    .partition_by(k)\n    .window({wn})\n    .aggregate(s: sum(v), c: count())\n    .emit(key: _partition, s: s, c: c)\n"),
        Fam::Chain => format!("event T:\n    k: {kty}\n    v: int\n\nstream Mid = T\n    .where(v > {c})\n    .emit(k: k, v: v)\n\nstream Out = Mid\n    .where(v < {})\n    .emit(k: k, w: v + {m})\n", c + 40),
        Fam::SeqPart => "event A:\n    k: str\n    v: int\nevent B:\n    k: str\n    v: int\n\nstream M = A as a -> B as b\n    .partition_by(k)\n    .emit(k: a.k, av: a.v, bv: b.v)\n".to_string(),
        Fam::Sliding => format!("event T:\n    k: {kty}\n    v: int\n\nstream Out = T\n    .partition_by(k)\n    .window({}, sliding: {})\n    .aggregate(s: sum(v), c: count())\n    .emit(key: _partition, s: s, c: c)\n", wn + 1, 1 + ctx.rng.below(2)),
    };
    ctx.directive(&format!("new {}", n));
    match fam {
        Fam::Filter => ctx.directive(&format!("prog filter {} {}", c, m)),
        Fam::Window => ctx.directive(&format!("prog window {}", wn)),
        Fam::Both => ctx.directive(&format!("prog both {} {} {}", c, m, wn)),
        _ => ctx.directive(&format!("prog opaque {:?}", fam)),
    }
    let mut evt = String::from("# generated\n");
    for i in 0..nev {
        let k = ctx.rng.below(nkeys as u64);
        let v = ctx.rng.range(0, 120);
        let ty = if fam == Fam::SeqPart { if ctx.rng.chance(1, 2) { "A" } else { "B" } } else { "T" };
        let kk = if intkeys { format!("{}", k) } else { format!("\"k{}\"", k) };
        evt.push_str(&format!("{} {{ k: {}, v: {} }}\n", ty, kk, v));
        if i % 17 == 16 { evt.push('\n'); }
        if matches!(fam, Fam::Filter | Fam::Window | Fam::Both) {
            ctx.directive(&format!("ev {} {}", if intkeys { format!("{}", k) } else { format!("k{}", k) }, v));
        }
    }
    let pp = dir.join(format!("p{}.vpl", n));
    let ep = dir.join(format!("e{}.evt", n));
    std::fs::write(&pp, &program).unwrap();
    std::fs::write(&ep, &evt).unwrap();
    ctx.count(&format!("family:{:?}{}", fam, if intkeys { "-intkeys" } else { "" }));
    for &(w, preload) in configs {
        let r = one_config(ctx, bin, &pp, &ep, w, preload);
        let res = if !r.ok { "error".to_string() } else {
            format!("emitted={} listed={} out={}", r.emitted_quiet.map(|e| e.to_string()).unwrap_or("?".into()), r.listed.len(),
                if r.listed.is_empty() { "-".to_string() } else { r.listed.join(";;") })
        };
        ctx.count(&format!("workers:{}", w));
        ctx.count(if preload { "mode:preload" } else { "mode:streaming" });
        if r.listed.is_empty() { ctx.count("outputs:none"); } else { ctx.count_n("outputs:events", r.listed.len() as u64); }
        ctx.case(&format!("run {} {}", w, if preload { "preload" } else { "streaming" }), &res);
    }
    let _ = std::fs::remove_file(&pp);
    let _ = std::fs::remove_file(&ep);
}

pub fn run(ctx: &mut Ctx, _name: &str) {
    let bin = build_binary();
    let dir = PathBuf::from(format!("/var/tmp/vh-simulate-{}", std::process::id()));
    let _ = std::fs::remove_dir_all(&dir);
    std::fs::create_dir_all(&dir).expect("scratch dir");
    let fams = [Fam::Filter, Fam::Window, Fam::Both, Fam::SeqPart, Fam::Sliding, Fam::Chain];
    let all: Vec<(u32, bool)> = (1..=8).flat_map(|w| [(w, true), (w, false)]).collect();
    let nsc = if ctx.thorough { 48 } else { 6 };
    for n in 0..nsc {
        let fam = if n < 2 { [Fam::Filter, Fam::Window][n as usize] } else { *ctx.rng.pick(&fams) };
        let nev = 10 + ctx.rng.below(if ctx.thorough { 600 } else { 200 }) as usize;
        // the single worker first (reference), then a sample of worker counts in both modes
        let configs: Vec<(u32, bool)> = if ctx.thorough { all.clone() } else {
            let mut c = vec![(1, true), (1, false)];
            let mut ws: Vec<u32> = vec![2, 3, 4, 5, 6, 7, 8];
            for _ in 0..2 { let i = ctx.rng.below(ws.len() as u64) as usize; let w = ws.remove(i); c.push((w, ctx.rng.chance(1, 2))); }
            c.push((*ctx.rng.pick(&[2u32, 4, 8]), true));
            c.push((*ctx.rng.pick(&[3u32, 5, 8]), false));
            c
        };
        scenario(ctx, &bin, &dir, n, fam, nev, 80, &configs);
    }
    // witness of the listed finding: more output events than the output channel holds
    scenario(ctx, &bin, &dir, 1000, Fam::Filter, 2500, 0, &[(1, true), (4, true)]);
    let _ = std::fs::remove_dir_all(&dir);
    ctx.notes.push(format!("binary: {} (cargo build --offline -p varpulis-cli --bin varpulis in $VERIF_REPO)", bin.display()));
}
