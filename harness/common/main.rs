//! Correspondence harness entry point (shared by all harness crates).
//! usage: <harness> <case-set> --seed N --tier quick|thorough --out <cases-file> [--replay FILE]
//! Writes one case per line (`<op> => <impl result>`) and `<out>.stats.json`.
//! Exit codes: 0 ok, 2 usage, 3 generator error (a generated input the front end rejects).
mod util;
include!(concat!(env!("OUT_DIR"), "/dispatch.rs"));

fn main() {
    let args: Vec<String> = std::env::args().collect();
    if args.len() < 2 {
        eprintln!("usage: {} <case-set> --seed N --tier quick|thorough --out FILE", args[0]);
        std::process::exit(2);
    }
    let name = args[1].clone();
    let mut seed: u64 = 1;
    let mut tier = "quick".to_string();
    let mut out = "cases.txt".to_string();
    let mut replay: Option<String> = None;
    let mut i = 2;
    while i < args.len() {
        match args[i].as_str() {
            "--seed" => { seed = args[i + 1].parse().unwrap_or(1); i += 1; }
            "--tier" => { tier = args[i + 1].clone(); i += 1; }
            "--out" => { out = args[i + 1].clone(); i += 1; }
            "--replay" => { replay = Some(args[i + 1].clone()); i += 1; }
            _ => {}
        }
        i += 1;
    }
    let mut ctx = util::Ctx::new(seed, &tier, &out, replay);
    if !dispatch(&mut ctx, &name) {
        eprintln!("unknown case-set {name}");
        std::process::exit(2);
    }
    ctx.finish();
}
