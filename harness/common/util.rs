use std::collections::BTreeMap;
use std::io::Write;

/// splitmix64: every random choice of a run derives from one seed.
pub struct Rng(pub u64);
impl Rng {
    pub fn next(&mut self) -> u64 {
        self.0 = self.0.wrapping_add(0x9E3779B97F4A7C15);
        let mut z = self.0;
        z = (z ^ (z >> 30)).wrapping_mul(0xBF58476D1CE4E5B9);
        z = (z ^ (z >> 27)).wrapping_mul(0x94D049BB133111EB);
        z ^ (z >> 31)
    }
    pub fn below(&mut self, n: u64) -> u64 { if n == 0 { 0 } else { self.next() % n } }
    pub fn range(&mut self, lo: i64, hi: i64) -> i64 { lo + self.below((hi - lo + 1) as u64) as i64 }
    pub fn chance(&mut self, num: u64, den: u64) -> bool { self.below(den) < num }
    pub fn pick<'a, T>(&mut self, xs: &'a [T]) -> &'a T { &xs[self.below(xs.len() as u64) as usize] }
}

pub struct Ctx {
    pub rng: Rng,
    pub seed: u64,
    pub thorough: bool,
    pub replay: Option<String>,
    out: std::io::BufWriter<std::fs::File>,
    out_path: String,
    pub cases: u64,
    pub hist: BTreeMap<String, u64>,
    pub samples: Vec<String>,
    pub notes: Vec<String>,
}

impl Ctx {
    pub fn new(seed: u64, tier: &str, out: &str, replay: Option<String>) -> Self {
        let f = std::fs::File::create(out).expect("create out");
        Ctx {
            rng: Rng(seed), seed, thorough: tier == "thorough", replay,
            out: std::io::BufWriter::new(f), out_path: out.to_string(),
            cases: 0, hist: BTreeMap::new(), samples: Vec::new(), notes: Vec::new(),
        }
    }
    /// one case: the operation as the model reads it, and the implementation's canonical answer
    pub fn case(&mut self, op: &str, result: &str) {
        debug_assert!(!op.contains('\n') && !result.contains('\n'));
        writeln!(self.out, "{} => {}", op, result).unwrap();
        self.cases += 1;
        if self.samples.len() < 6 && (self.cases % 97 == 1) {
            let mut s = format!("{} => {}", op, result);
            if s.len() > 300 { s.truncate(300); s.push_str("..."); }
            self.samples.push(s);
        }
    }
    /// a line for the model without an implementation answer (state set-up)
    pub fn directive(&mut self, op: &str) { writeln!(self.out, "{}", op).unwrap(); }
    /// a fresh scratch directory next to the case file (removed by the caller)
    pub fn scratch(&mut self, name: &str) -> std::path::PathBuf {
        let base = std::path::Path::new(&self.out_path).parent().map(|p| p.to_path_buf()).unwrap_or_else(|| std::path::PathBuf::from("."));
        let d = base.join(format!("scratch-{}-{}-{}", name, std::process::id(), self.rng.next() % 1_000_000));
        let _ = std::fs::remove_dir_all(&d);
        std::fs::create_dir_all(&d).expect("scratch dir");
        d
    }
    pub fn count(&mut self, key: &str) { *self.hist.entry(key.to_string()).or_insert(0) += 1; }
    pub fn count_n(&mut self, key: &str, n: u64) { *self.hist.entry(key.to_string()).or_insert(0) += n; }
    pub fn finish(mut self) {
        self.out.flush().unwrap();
        let stats = serde_json::json!({
            "seed": self.seed, "cases": self.cases, "histogram": self.hist,
            "samples": self.samples, "notes": self.notes,
        });
        std::fs::write(format!("{}.stats.json", self.out_path), serde_json::to_string_pretty(&stats).unwrap()).unwrap();
    }
}

/// run a closure catching panics; Err(message) on panic
pub fn catch<T>(f: impl FnOnce() -> T + std::panic::UnwindSafe) -> Result<T, String> {
    std::panic::catch_unwind(f).map_err(|e| {
        if let Some(s) = e.downcast_ref::<&str>() { s.to_string() }
        else if let Some(s) = e.downcast_ref::<String>() { s.clone() }
        else { "panic".to_string() }
    })
}
