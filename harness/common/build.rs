// Generates the dispatch table from src/p_*.rs: every such module exposes
//   pub const NAMES: &[&str];  pub fn run(ctx: &mut crate::util::Ctx, name: &str);
use std::{env, fs, path::Path};
fn main() {
    let src = Path::new(&env::var("CARGO_MANIFEST_DIR").unwrap()).join("src");
    let mut mods: Vec<String> = fs::read_dir(&src).unwrap().filter_map(|e| {
        let n = e.unwrap().file_name().into_string().unwrap();
        if n.starts_with("p_") && n.ends_with(".rs") { Some(n.trim_end_matches(".rs").to_string()) } else { None }
    }).collect();
    mods.sort();
    let mut out = String::new();
    for m in &mods {
        out.push_str(&format!("#[path = \"{}/{}.rs\"] mod {};\n", src.display(), m, m));
    }
    out.push_str("pub fn dispatch(ctx: &mut crate::util::Ctx, name: &str) -> bool {\n");
    for m in &mods {
        out.push_str(&format!("    if {m}::NAMES.contains(&name) {{ {m}::run(ctx, name); return true; }}\n", m = m));
    }
    out.push_str("    false\n}\n");
    fs::write(Path::new(&env::var("OUT_DIR").unwrap()).join("dispatch.rs"), out).unwrap();
    println!("cargo:rerun-if-changed=src");
}
