//! C38: the coordinator in Raft mode. A real single-node openraft instance (varpulis' `MemStore`, state machine
//! and `client_write` path) backs a real `Coordinator`; every API operation goes through the warp handlers of
//! `api.rs` (`warp::test`), worker calls go to a loopback mock worker, and the health loop of
//! `varpulis-cli/src/main.rs` is replayed phase by phase over the virtual clock of `clock.rs`.
//! After every call the local view and the replicated state are dumped; `vmodel raftsync` validates the
//! transition against the Lean model and judges the property (component by component).
//! A second part runs a 3-node cluster over loopback HTTP and compares the followers' views with the leader's.
use crate::util::Ctx;
use std::collections::{HashMap, HashSet, VecDeque};
use std::sync::{Arc, Mutex};
use std::time::Duration;
use varpulis_cluster::clock;
use varpulis_cluster::connector_config::{self, ClusterConnector};
use varpulis_cluster::coordinator::{Coordinator, ScalingPolicy};
use varpulis_cluster::pipeline_group::{DeployedPipelineGroup, PipelineDeploymentStatus};
use varpulis_cluster::raft::state_machine::CoordinatorState;
use varpulis_cluster::raft::ClusterCommand;
use varpulis_cluster::{MigrationStatus, RbacConfig, SharedCoordinator, WorkerId, WorkerStatus};
use warp::Filter;

pub const NAMES: &[&str] = &["C38"];

type Script = Arc<Mutex<VecDeque<bool>>>;

fn infra(msg: &str) -> ! {
    eprintln!("infrastructure error: {}", msg);
    std::process::exit(3);
}

/// mock worker: `POST /<w>/api/v1/pipelines` answers 201 or 500 according to the script (default 201);
/// every other request is a 404 (checkpoint / delete calls are best-effort in the coordinator)
async fn start_mock(script: Script) -> std::net::SocketAddr {
    let counter = Arc::new(Mutex::new(0u64));
    let route = warp::path!(String / "api" / "v1" / "pipelines")
        .and(warp::post())
        .and(warp::body::json::<serde_json::Value>())
        .map(move |_w: String, body: serde_json::Value| {
            let ok = script.lock().unwrap().pop_front().unwrap_or(true);
            if ok {
                let mut c = counter.lock().unwrap();
                *c += 1;
                warp::reply::with_status(
                    warp::reply::json(&serde_json::json!({"id": format!("mid-{}", *c), "name": body["name"], "status": "running"})),
                    warp::http::StatusCode::CREATED,
                )
            } else {
                warp::reply::with_status(warp::reply::json(&serde_json::json!({"error": "scripted failure"})), warp::http::StatusCode::INTERNAL_SERVER_ERROR)
            }
        });
    let (addr, fut) = warp::serve(route).bind_ephemeral(([127, 0, 0, 1], 0));
    tokio::spawn(fut);
    addr
}

fn fnv(s: &str) -> String {
    let mut h: u64 = 0xcbf29ce484222325;
    for b in s.as_bytes() { h ^= *b as u64; h = h.wrapping_mul(0x100000001b3); }
    format!("{:08x}", (h ^ (h >> 32)) as u32)
}

/// JSON with sorted object keys
fn canon(v: &serde_json::Value) -> String {
    match v {
        serde_json::Value::Object(m) => {
            let mut keys: Vec<&String> = m.keys().collect();
            keys.sort();
            format!("{{{}}}", keys.iter().map(|k| format!("{:?}:{}", k, canon(&m[*k]))).collect::<Vec<_>>().join(","))
        }
        serde_json::Value::Array(a) => format!("[{}]", a.iter().map(canon).collect::<Vec<_>>().join(",")),
        other => other.to_string(),
    }
}

fn pid_str(p: &str) -> String { if p.is_empty() { "~".into() } else { p.to_string() } }
fn list_str(mut v: Vec<String>) -> String { v.sort(); if v.is_empty() { "-".into() } else { v.join("+") } }
fn sec(v: Vec<String>) -> String { if v.is_empty() { "-".into() } else { v.join(";") } }

fn conn_body(c: &ClusterConnector) -> String {
    let mut ps: Vec<String> = c.params.iter().map(|(k, v)| format!("{}:{}", k, v)).collect();
    ps.sort();
    format!("{}~{}~{}", c.connector_type, c.name, ps.join("~"))
}

fn policy_str(p: &ScalingPolicy) -> String {
    format!("{}:{}:{}:{}:{}", p.min_workers, p.max_workers, p.scale_up_threshold, p.scale_down_threshold, p.cooldown_secs)
}

pub struct Names {
    pub base: String,
    gids: HashMap<String, String>,
}

impl Names {
    pub fn new(base: &str) -> Self { Names { base: base.to_string(), gids: HashMap::new() } }
    pub fn gid(&mut self, g: &str) -> String {
        if let Some(a) = self.gids.get(g) { return a.clone(); }
        let a = format!("g{}", self.gids.len() + 1);
        self.gids.insert(g.to_string(), a.clone());
        a
    }
    pub fn gid_rev(&self, alias: &str) -> String {
        self.gids.iter().find(|(_, v)| v.as_str() == alias).map(|(k, _)| k.clone()).unwrap_or_else(|| format!("00000000-no-such-group-{}", alias))
    }
    fn scrub(&self, s: &str) -> String {
        let mut t = s.replace(&self.base, "M");
        let mut pairs: Vec<(&String, &String)> = self.gids.iter().collect();
        pairs.sort();
        for (k, v) in pairs { t = t.replace(k.as_str(), v); }
        t
    }
    fn group(&mut self, gid: &str, g: &DeployedPipelineGroup, json: &serde_json::Value) -> String {
        let alias = self.gid(gid);
        let pls: Vec<String> = g.placements.iter().map(|(n, d)| {
            let st = match d.status { PipelineDeploymentStatus::Deploying => "deploying", PipelineDeploymentStatus::Running => "running", PipelineDeploymentStatus::Failed => "failed", PipelineDeploymentStatus::Stopped => "stopped" };
            format!("{}@{}:{}:{}:{}", n, d.worker_id.0, st, pid_str(&d.pipeline_id), d.epoch)
        }).collect();
        let h = fnv(&self.scrub(&canon(json)));
        format!("{},{},{},{},{}", alias, g.name, g.status, h, list_str(pls))
    }
    /// canonical dump of the coordinator's local view
    pub fn dump_local(&mut self, c: &Coordinator) -> String {
        let mut ids: Vec<&WorkerId> = c.workers.keys().collect();
        ids.sort_by(|a, b| a.0.cmp(&b.0));
        let ws: Vec<String> = ids.iter().map(|id| {
            let w = &c.workers[*id];
            format!("{},{}|{},{},{},{},{},{},{},{}", id.0, w.address.replace(&self.base, "M"), w.api_key, w.status, w.capacity.cpu_cores,
                w.capacity.pipelines_running, w.capacity.max_pipelines, w.events_processed, clock::verif_ms_of(w.last_heartbeat), list_str(w.assigned_pipelines.clone()))
        }).collect();
        let mut gkeys: Vec<&String> = c.pipeline_groups.keys().collect();
        gkeys.sort_by_key(|g| self.gids.get(*g).cloned().unwrap_or_else(|| format!("zz{}", g)));
        let gkeys: Vec<String> = gkeys.into_iter().cloned().collect();
        let mut gs: Vec<String> = gkeys.iter().map(|g| { let grp = &c.pipeline_groups[g]; let j = serde_json::to_value(grp).unwrap_or_default(); self.group(g, grp, &j) }).collect();
        gs.sort();
        let mut cs: Vec<String> = c.connectors.iter().map(|(n, x)| format!("{}={}", n, conn_body(x))).collect();
        cs.sort();
        format!("W[{}] G[{}] C[{}] P[{}]", sec(ws), sec(gs), sec(cs), c.scaling_policy.as_ref().map(policy_str).unwrap_or("-".into()))
    }
    /// canonical dump of the replicated `CoordinatorState`
    pub fn dump_replicated(&mut self, r: &CoordinatorState) -> String {
        let mut ids: Vec<&String> = r.workers.keys().collect();
        ids.sort();
        let ws: Vec<String> = ids.iter().map(|id| {
            let w = &r.workers[*id];
            format!("{},{}|{},{},{},{},{},{},{}", id, w.address.replace(&self.base, "M"), w.api_key, w.status, w.cpu_cores, w.pipelines_running,
                w.max_pipelines, w.events_processed, list_str(w.assigned_pipelines.clone()))
        }).collect();
        let mut gkeys: Vec<&String> = r.pipeline_groups.keys().collect();
        gkeys.sort_by_key(|g| self.gids.get(*g).cloned().unwrap_or_else(|| format!("zz{}", g)));
        let gkeys: Vec<String> = gkeys.into_iter().cloned().collect();
        let mut gs: Vec<String> = Vec::new();
        for g in &gkeys {
            let j = &r.pipeline_groups[g];
            match serde_json::from_value::<DeployedPipelineGroup>(j.clone()) {
                Ok(grp) => gs.push(self.group(g, &grp, j)),
                Err(_) => { let a = self.gid(g); gs.push(format!("{},undecodable,failed,0,-", a)); }
            }
        }
        gs.sort();
        let mut cs: Vec<String> = r.connectors.iter().map(|(n, x)| format!("{}={}", n, conn_body(x))).collect();
        cs.sort();
        let p = match &r.scaling_policy {
            None => "-".to_string(),
            Some(v) => serde_json::from_value::<ScalingPolicy>(v.clone()).map(|p| policy_str(&p)).unwrap_or("undecodable".into()),
        };
        format!("W[{}] G[{}] C[{}] P[{}]", sec(ws), sec(gs), sec(cs), p)
    }
}

/// the ordered occurrences of the calls that matter in the health loop of main.rs (and the absence of
/// `ScalingPolicySet` proposals): the harness replays that loop by hand, so its shape is pinned here and
/// compared by the driver (a change of the loop breaks the correspondence instead of going unnoticed)
fn loop_shape() -> String {
    let repo = std::env::var("VERIF_REPO").unwrap_or_else(|_| "/repo".into());
    let main = std::fs::read_to_string(format!("{}/crates/varpulis-cli/src/main.rs", repo)).unwrap_or_default();
    let api = std::fs::read_to_string(format!("{}/crates/varpulis-cluster/src/api.rs", repo)).unwrap_or_default();
    let a = main.find("Spawn periodic health sweep").unwrap_or(0);
    let b = main[a..].find("// Health endpoint").map(|x| a + x).unwrap_or(main.len());
    let body = &main[a..b];
    let tokens = ["update_raft_role()", "sync_from_raft()", "is_writer()", "health_sweep()", "WorkerStatusChanged", "client_write(", "raft_replicate(",
        "handle_worker_failure(", "cleanup_completed_migrations(", "pending_rebalance", "reconcile_placements()", "rebalance()", "GroupUpdated", "GroupDeployed",
        "WorkerPipelinesUpdated", "evaluate_scaling()"];
    let mut found: Vec<(usize, &str)> = Vec::new();
    for t in tokens { let mut from = 0; while let Some(i) = body[from..].find(t) { found.push((from + i, t)); from += i + t.len(); } }
    found.sort();
    let seq: Vec<String> = found.iter().map(|(_, t)| t.trim_end_matches(['(', ')']).to_string()).collect();
    let policyset = main.matches("ScalingPolicySet").count() + api.matches("ScalingPolicySet").count();
    let startup = main.matches("coord.scaling_policy = scaling_policy").count();
    format!("{};policyset={};startup_policy_assign={}", seq.join(","), policyset, startup)
}

#[derive(Clone)]
struct PSpec { name: String, aff: Option<String>, replicas: usize }

struct World {
    coord: SharedCoordinator,
    raft: Arc<varpulis_cluster::raft::VarpulisRaft>,
    shared: varpulis_cluster::raft::store::SharedCoordinatorState,
    names: Names,
    now: u64,
    script: Script,
    seen_migs: HashSet<String>,
    /// 3-node part: id of the node this world drives (the leader) and the follower coordinators
    cluster: Option<(u64, Vec<(u64, SharedCoordinator, varpulis_cluster::raft::store::SharedCoordinatorState)>)>,
    aborted: bool,
}

macro_rules! api {
    ($w:expr, $method:expr, $path:expr, $body:expr) => {{
        let routes = varpulis_cluster::cluster_routes($w.coord.clone(), Arc::new(RbacConfig::disabled()), None)
            .recover(varpulis_cluster::api::handle_rejection);
        let req = warp::test::request().method($method).path($path);
        let body: Option<serde_json::Value> = $body;
        let resp = match body { Some(b) => req.json(&b).reply(&routes).await, None => req.reply(&routes).await };
        let status = resp.status().as_u16();
        let v: serde_json::Value = serde_json::from_slice(resp.body()).unwrap_or(serde_json::Value::Null);
        (status, v)
    }};
}

impl World {
    async fn new(ctx: &mut Ctx, base: &str, script: &Script, timeout_ms: u64) -> World {
        let boot = match tokio::time::timeout(Duration::from_secs(60), varpulis_cluster::raft::bootstrap(1, &["http://127.0.0.1:1".to_string()], None)).await {
            Ok(Ok(b)) => b,
            Ok(Err(e)) => infra(&format!("raft bootstrap failed: {e}")),
            Err(_) => infra("raft bootstrap timed out"),
        };
        // single voter: it elects itself; wait for that (bounded)
        let t0 = std::time::Instant::now();
        loop {
            let m = boot.raft.metrics().borrow().clone();
            if m.current_leader == Some(1) { break; }
            if t0.elapsed() > Duration::from_secs(60) { infra("single-node raft did not become leader within 60 s"); }
            tokio::time::sleep(Duration::from_millis(5)).await;
        }
        let mut peers = std::collections::BTreeMap::new();
        peers.insert(1u64, "http://127.0.0.1:1".to_string());
        let mut c = Coordinator::with_raft(boot.raft.clone(), boot.shared_state.clone(), peers, None);
        c.heartbeat_timeout = Duration::from_millis(timeout_ms);
        clock::verif_set_ms(0);
        ctx.directive(&format!("new rs {}", timeout_ms));
        World { coord: Arc::new(tokio::sync::RwLock::new(c)), raft: boot.raft, shared: boot.shared_state, names: Names::new(base), now: 0,
            script: script.clone(), seen_migs: HashSet::new(), cluster: None, aborted: false }
    }
    fn still_leader(&self) -> bool {
        match &self.cluster {
            None => true,
            Some((me, _)) => { let m = self.raft.metrics().borrow().clone(); m.current_leader == Some(*me) && m.state == openraft::ServerState::Leader }
        }
    }
    async fn shutdown(self) { let _ = tokio::time::timeout(Duration::from_secs(20), self.raft.shutdown()).await; }

    fn set_time(&mut self, t: u64) { if t > self.now { self.now = t; } clock::verif_set_ms(self.now); }

    async fn emit(&mut self, ctx: &mut Ctx, op: &str, answer: &str) {
        if self.aborted { return; }
        // 3-node part: a leader change (spurious election on a loaded machine) ends the scenario without a verdict
        if !self.still_leader() { self.aborted = true; ctx.count("cluster.leader_changed_scenario_cut"); return; }
        let l = { let c = self.coord.read().await; self.names.dump_local(&c) };
        let r = { let s = self.shared.read().unwrap_or_else(|e| e.into_inner()).clone(); self.names.dump_replicated(&s) };
        ctx.count(&format!("op.{}", op.split(' ').next().unwrap_or("")));
        ctx.case(op, &format!("{} | L {} | R {}", answer, l, r));
        // followers: once they have applied what the leader has applied, their health loop's sync_from_raft
        // must give them the leader's view
        if let Some((_, followers)) = &self.cluster {
            let target = varpulis_cluster::raft::store::verif_applied::get(&self.shared).and_then(|x| x.0);
            let followers: Vec<_> = followers.iter().map(|(i, c, s)| (*i, c.clone(), s.clone())).collect();
            for (fid, fcoord, fshared) in followers {
                let t0 = std::time::Instant::now();
                loop {
                    let a = varpulis_cluster::raft::store::verif_applied::get(&fshared).and_then(|x| x.0);
                    if a == target { break; }
                    if !self.still_leader() { self.aborted = true; ctx.count("cluster.leader_changed_scenario_cut"); return; }
                    if t0.elapsed() > Duration::from_secs(120) { infra(&format!("follower {fid} did not catch up within 120 s")); }
                    tokio::time::sleep(Duration::from_millis(20)).await;
                }
                clock::verif_set_ms(self.now);
                { let mut c = fcoord.write().await; c.update_raft_role(); c.sync_from_raft(); }
                let f = { let c = fcoord.read().await; self.names.dump_local(&c) };
                let fr = { let s = fshared.read().unwrap_or_else(|e| e.into_inner()).clone(); self.names.dump_replicated(&s) };
                let now = self.now;
                ctx.count("op.fview");
                ctx.case(&format!("fview {} {}", fid, now), &format!("ok | L {} | F {} | R {}", l, f, fr));
            }
        }
    }

    async fn register(&mut self, ctx: &mut Ctx, w: &str, cpu: usize, run0: usize, max: usize) {
        clock::verif_set_ms(self.now);
        let addr = format!("{}/{}", self.names.base, w);
        let body = serde_json::json!({"worker_id": w, "address": addr, "api_key": "k", "capacity": {"cpu_cores": cpu, "pipelines_running": run0, "max_pipelines": max}});
        let (st, _) = api!(self, "POST", "/api/v1/cluster/workers/register", Some(body));
        let now = self.now;
        self.emit(ctx, &format!("reg {} M/{}|k {} {} {} {}", w, w, cpu, run0, max, now), if st == 201 { "ok" } else { "err" }).await;
    }
    /// 3-node part: the worker registers at a *follower*; `handle_register_worker` there forwards the request to the
    /// leader's API over HTTP (the leader proposes and registers) and registers the worker locally as well
    async fn register_via_follower(&mut self, ctx: &mut Ctx, w: &str, cpu: usize, run0: usize, max: usize) {
        let Some((_, followers)) = &self.cluster else { return };
        let Some((_, fcoord, _)) = followers.first().map(|x| (x.0, x.1.clone(), x.2.clone())) else { return };
        clock::verif_set_ms(self.now);
        let addr = format!("{}/{}", self.names.base, w);
        let body = serde_json::json!({"worker_id": w, "address": addr, "api_key": "k", "capacity": {"cpu_cores": cpu, "pipelines_running": run0, "max_pipelines": max}});
        let routes = varpulis_cluster::cluster_routes(fcoord.clone(), Arc::new(RbacConfig::disabled()), None).recover(varpulis_cluster::api::handle_rejection);
        let resp = warp::test::request().method("POST").path("/api/v1/cluster/workers/register").json(&body).reply(&routes).await;
        let st = resp.status().as_u16();
        if st != 201 { ctx.count("cluster.forwarded_registration_refused"); if !self.still_leader() { self.aborted = true; } else { self.emit(ctx, "noop forwarded-register", &format!("refused:{}", st)).await; } return; }
        ctx.count("cluster.forwarded_registration");
        let now = self.now;
        // on the leader this is an ordinary registration; the follower's view (which already holds the worker) is checked by the fview lines
        self.emit(ctx, &format!("reg {} M/{}|k {} {} {} {}", w, w, cpu, run0, max, now), "ok").await;
    }
    async fn heartbeat(&mut self, ctx: &mut Ctx, w: &str, running: usize, events: u64) {
        clock::verif_set_ms(self.now);
        let body = serde_json::json!({"events_processed": events, "pipelines_running": running});
        let (st, _) = api!(self, "POST", &format!("/api/v1/cluster/workers/{}/heartbeat", w), Some(body));
        let now = self.now;
        self.emit(ctx, &format!("hb {} {} {} {}", w, running, events, now), if st == 200 { "ok" } else { "notfound" }).await;
    }
    async fn deregister(&mut self, ctx: &mut Ctx, w: &str) {
        let (st, _) = api!(self, "DELETE", &format!("/api/v1/cluster/workers/{}", w), None);
        self.emit(ctx, &format!("dereg {}", w), if st == 200 { "ok" } else { "notfound" }).await;
    }
    async fn deploy(&mut self, ctx: &mut Ctx, gname: &str, specs: &[PSpec], outcomes: &[bool]) {
        let body = serde_json::json!({"name": gname, "pipelines": specs.iter().map(|s| serde_json::json!({
            "name": s.name, "source": "stream X = Y", "worker_affinity": s.aff, "replicas": s.replicas})).collect::<Vec<_>>()});
        { let mut s = self.script.lock().unwrap(); s.clear(); s.extend(outcomes.iter().copied()); }
        let keys_before: Vec<String> = { let c = self.coord.read().await; c.pipeline_groups.keys().cloned().collect() };
        let (st, v) = api!(self, "POST", "/api/v1/cluster/pipeline-groups", Some(body));
        self.script.lock().unwrap().clear();
        let unreplicated = if st != 201 {
            // "applied locally but Raft replication failed": the group is in the local view although the call was refused
            let now: Vec<String> = { let c = self.coord.read().await; c.pipeline_groups.keys().cloned().collect() };
            match now.into_iter().find(|g| !keys_before.contains(g)) {
                Some(g) => { ctx.count("deploy.applied_locally_not_replicated"); Some(g) }
                None => {
                    ctx.count("deploy.refused");
                    self.emit(ctx, "noop deploy", &format!("refused:{}", st)).await;
                    return;
                }
            }
        } else { None };
        let gid = unreplicated.clone().unwrap_or_else(|| v["id"].as_str().unwrap_or("").to_string());
        let alias = self.names.gid(&gid);
        let mut res: Vec<String> = {
            let c = self.coord.read().await;
            match c.pipeline_groups.get(&gid) {
                Some(g) => g.placements.iter().map(|(n, d)| format!("{}@{}:{}:{}", n, d.worker_id.0, if d.status == PipelineDeploymentStatus::Running { 1 } else { 0 }, pid_str(&d.pipeline_id))).collect(),
                None => vec![],
            }
        };
        res.sort();
        if res.iter().any(|r| r.contains(":0:")) { ctx.count("deploy.with_failed_replica"); }
        let line = format!("deploy {} {} {}", alias, gname, if res.is_empty() { "-".to_string() } else { res.join(",") });
        if unreplicated.is_some() { self.emit(ctx, &format!("unreplicated {}", line), &format!("refused:{}", st)).await; } else { self.emit(ctx, &line, "ok").await; }
    }
    async fn teardown(&mut self, ctx: &mut Ctx, alias: &str) {
        let gid = self.names.gid_rev(alias);
        let mut tasks: Vec<String> = {
            let c = self.coord.read().await;
            c.pipeline_groups.get(&gid).map(|g| g.placements.iter().filter(|(_, d)| !d.pipeline_id.is_empty()).map(|(n, d)| format!("{}@{}", n, d.worker_id.0)).collect()).unwrap_or_default()
        };
        tasks.sort();
        let existed = self.coord.read().await.pipeline_groups.contains_key(&gid);
        let (st, _) = api!(self, "DELETE", &format!("/api/v1/cluster/pipeline-groups/{}", gid), None);
        let line = format!("teardown {} {}", alias, if tasks.is_empty() { "-".to_string() } else { tasks.join(",") });
        let gone = !self.coord.read().await.pipeline_groups.contains_key(&gid);
        if st >= 500 && existed && gone {
            ctx.count("teardown.applied_locally_not_replicated");
            self.emit(ctx, &format!("unreplicated {}", line), &format!("refused:{}", st)).await;
        } else if st >= 500 { self.emit(ctx, "noop teardown", &format!("refused:{}", st)).await; }
        else { self.emit(ctx, &line, if st == 200 { "ok" } else { "notfound" }).await; }
    }
    async fn manual_migrate(&mut self, ctx: &mut Ctx, alias: &str, name: &str, target: &str, ok: bool) {
        let gid = self.names.gid_rev(alias);
        let before = { let c = self.coord.read().await; c.pipeline_groups.get(&gid).and_then(|g| g.placements.get(name)).map(|d| (d.worker_id.0.clone(), d.epoch)) };
        { let mut s = self.script.lock().unwrap(); s.clear(); s.push_back(ok); }
        let (st, _) = api!(self, "POST", &format!("/api/v1/cluster/pipelines/{}/{}/migrate", gid, name.replace('#', "%23")), Some(serde_json::json!({"target_worker_id": target})));
        self.script.lock().unwrap().clear();
        self.note_migs().await;
        match before {
            None => { self.emit(ctx, "noop migrate", &format!("refused:{}", st)).await; }
            Some((src, epoch)) => {
                let success = st == 202;
                let pid = { let c = self.coord.read().await; c.pipeline_groups.get(&gid).and_then(|g| g.placements.get(name)).map(|d| d.pipeline_id.clone()).unwrap_or_default() };
                ctx.count(if success { "migrate.ok" } else { "migrate.refused_or_failed" });
                self.emit(ctx, &format!("migrate {} {} {} {} {} {} {}", alias, name, src, target, epoch, if success { pid_str(&pid) } else { "~".into() }, if success { 1 } else { 0 }),
                    if success { "ok" } else { "err" }).await;
            }
        }
    }
    /// migrations recorded since the last call, in start order: `gid/name>target:ok:pid`
    async fn note_migs(&mut self) -> Vec<String> {
        let c = self.coord.read().await;
        let mut new: Vec<(std::time::Instant, String, String, String, String, bool)> = Vec::new();
        for m in c.active_migrations.values() {
            if self.seen_migs.insert(m.id.clone()) {
                new.push((m.started_at, m.id.clone(), m.group_id.clone(), m.pipeline_name.clone(), m.target_worker.0.clone(), m.status == MigrationStatus::Completed));
            }
        }
        new.sort_by(|a, b| a.0.cmp(&b.0).then(a.1.cmp(&b.1)));
        let mut out = Vec::new();
        for (_, _, g, n, t, ok) in new {
            let pid = if ok { c.pipeline_groups.get(&g).and_then(|grp| grp.placements.get(&n)).map(|d| d.pipeline_id.clone()).unwrap_or_default() } else { String::new() };
            let alias = self.names.gid(&g);
            out.push(format!("{}/{}>{}:{}:{}", alias, n, t, if ok { 1 } else { 0 }, pid_str(&pid)));
        }
        out
    }
    fn migs_text(m: &[String]) -> String { if m.is_empty() { "-".into() } else { m.join(",") } }

    async fn rebalance_api(&mut self, ctx: &mut Ctx, outcomes: &[bool]) {
        self.note_migs().await;
        { let mut s = self.script.lock().unwrap(); s.clear(); s.extend(outcomes.iter().copied()); }
        let (_, v) = api!(self, "POST", "/api/v1/cluster/rebalance", None);
        self.script.lock().unwrap().clear();
        let migs = self.note_migs().await;
        if migs.iter().any(|m| m.contains(":1:")) { ctx.count("rebalance_api.moved_something"); }
        self.emit(ctx, &format!("rebalance {}", Self::migs_text(&migs)), &format!("m:{}", v["migrations_started"].as_u64().unwrap_or(0))).await;
    }
    async fn drain(&mut self, ctx: &mut Ctx, w: &str, outcomes: &[bool]) {
        self.note_migs().await;
        let existed = { let c = self.coord.read().await; c.workers.get(&WorkerId(w.to_string())).map(|n| n.status.clone()) };
        { let mut s = self.script.lock().unwrap(); s.clear(); s.extend(outcomes.iter().copied()); }
        let _ = api!(self, "POST", &format!("/api/v1/cluster/workers/{}/drain", w), Some(serde_json::json!({"timeout_secs": null})));
        self.script.lock().unwrap().clear();
        let migs = self.note_migs().await;
        let a = match existed { None => "notfound", Some(WorkerStatus::Draining) => "already", Some(_) => "ok" };
        if !migs.is_empty() { ctx.count("drain.with_migrations"); }
        self.emit(ctx, &format!("drain {} {}", w, Self::migs_text(&migs)), a).await;
    }
    async fn connector(&mut self, ctx: &mut Ctx, verb: &str, name: &str, c: Option<ClusterConnector>) {
        match (verb, c) {
            ("create", Some(c)) => {
                let valid = connector_config::validate_connector(&c).is_ok();
                let (st, _) = api!(self, "POST", "/api/v1/cluster/connectors", serde_json::to_value(&c).ok());
                ctx.count(if st == 201 { "conn.create_ok" } else { "conn.create_rejected" });
                self.emit(ctx, &format!("conncreate {} {} {}", name, conn_body(&c), if valid { 1 } else { 0 }), if st == 201 { "ok" } else { "rejected" }).await;
            }
            ("update", Some(c)) => {
                let valid = connector_config::validate_connector(&c).is_ok();
                let (st, _) = api!(self, "PUT", &format!("/api/v1/cluster/connectors/{}", name), serde_json::to_value(&c).ok());
                ctx.count(if st == 200 { "conn.update_ok" } else { "conn.update_rejected" });
                // `name` = path parameter (the key), `c.name` = the name inside the body: the API does not require them to agree
                if c.name != name { ctx.count(if st == 200 { "conn.update_ok_body_name_differs" } else { "conn.update_rejected_body_name_differs" }); }
                self.emit(ctx, &format!("connupdate {} {} {} {}", name, c.name, conn_body(&c), if valid { 1 } else { 0 }), if st == 200 { "ok" } else { "rejected" }).await;
            }
            _ => {
                let (st, _) = api!(self, "DELETE", &format!("/api/v1/cluster/connectors/{}", name), None);
                self.emit(ctx, &format!("conndelete {}", name), if st == 200 { "ok" } else { "notfound" }).await;
            }
        }
    }
    fn models_dump(m: &HashMap<String, varpulis_cluster::model_registry::ModelRegistryEntry>) -> String {
        let mut v: Vec<String> = m.iter().map(|(k, e)| format!("{}={}", k, e.s3_key.replace('/', "_"))).collect();
        v.sort();
        if v.is_empty() { "-".into() } else { v.join(";") }
    }
    /// `ML` = the coordinator's model registry, `MR` = the replicated one (and on followers after their sync)
    async fn emit_models(&mut self, ctx: &mut Ctx, op: &str, answer: &str) {
        if self.aborted || !self.still_leader() { return; }
        let ml = { let c = self.coord.read().await; Self::models_dump(&c.model_registry) };
        let mr = { let s = self.shared.read().unwrap_or_else(|e| e.into_inner()); Self::models_dump(&s.models) };
        ctx.count(&format!("op.{}", op.split(' ').next().unwrap_or("")));
        ctx.case(op, &format!("{} | ML {} | MR {}", answer, ml, mr));
        if let Some((_, followers)) = &self.cluster {
            // the followers were synchronised by the `emit` that precedes every model line
            let followers: Vec<_> = followers.iter().map(|(i, c, s)| (*i, c.clone(), s.clone())).collect();
            for (fid, fcoord, _fshared) in followers {
                let mf = { let c = fcoord.read().await; Self::models_dump(&c.model_registry) };
                ctx.count("op.fmodels");
                ctx.case(&format!("fmodels {}", fid), &format!("ok | ML {} | MF {}", ml, mf));
            }
        }
    }
    async fn model_upload(&mut self, ctx: &mut Ctx, name: &str) {
        let body = serde_json::json!({"name": name, "inputs": ["x"], "outputs": ["y"], "description": "d"});
        let (st, _) = api!(self, "POST", "/api/v1/cluster/models", Some(body));
        self.emit(ctx, "noop model-upload", "ok").await; // the view itself is untouched; followers sync here
        self.emit_models(ctx, &format!("modelup {} models_{}.onnx", name, name), if st == 201 { "ok" } else { "err" }).await;
    }
    async fn model_delete(&mut self, ctx: &mut Ctx, name: &str) {
        let (st, _) = api!(self, "DELETE", &format!("/api/v1/cluster/models/{}", name), None);
        self.emit(ctx, "noop model-delete", "ok").await;
        self.emit_models(ctx, &format!("modeldel {}", name), if st == 200 { "ok" } else { "notfound" }).await;
    }
    async fn models_after_sync(&mut self, ctx: &mut Ctx) {
        self.sync_only(ctx).await;
        self.emit_models(ctx, "msync", "ok").await;
    }
    async fn startup_policy(&mut self, ctx: &mut Ctx, p: Option<ScalingPolicy>) {
        // main.rs: `coord.scaling_policy = scaling_policy;` before the health loop starts
        let txt = p.as_ref().map(policy_str).unwrap_or("-".into());
        { let mut c = self.coord.write().await; c.scaling_policy = p; }
        self.emit(ctx, &format!("policy {}", txt), "ok").await;
    }
    async fn sync_only(&mut self, ctx: &mut Ctx) {
        clock::verif_set_ms(self.now);
        { let mut c = self.coord.write().await; c.update_raft_role(); c.sync_from_raft(); }
        let now = self.now;
        self.emit(ctx, &format!("sync {}", now), "ok").await;
    }
    /// one iteration of the health loop of varpulis-cli/src/main.rs, phase by phase (shape pinned by `loop_shape`)
    async fn tick(&mut self, ctx: &mut Ctx, outcomes: &[bool]) { self.tick_opt(ctx, outcomes, true).await }
    /// `with_sync = false`: the phases after `sync_from_raft` in isolation. In the shipped loop the sync always
    /// comes first and re-stamps every Ready worker, so the sweep marks nobody and the failover phase is never
    /// reached (finding C38-sync-refreshes-heartbeat-stamps); the isolated phases tie the model of those phases.
    async fn tick_opt(&mut self, ctx: &mut Ctx, outcomes: &[bool], with_sync: bool) {
        clock::verif_set_ms(self.now);
        let now = self.now;
        if with_sync {
            { let mut c = self.coord.write().await; c.update_raft_role(); c.sync_from_raft(); }
            self.emit(ctx, &format!("sync {}", now), "ok").await;
        } else {
            ctx.count("tick.phases_in_isolation");
            { let mut c = self.coord.write().await; c.update_raft_role(); }
        }
        if !self.coord.read().await.ha_role.is_writer() { ctx.count("tick.not_writer"); return; }
        // health_sweep + propagation of the unhealthy status
        let failed: Vec<WorkerId> = {
            let mut c = self.coord.write().await;
            let result = c.health_sweep();
            let failed = result.workers_marked_unhealthy.clone();
            if let Some(ref handle) = c.raft_handle {
                for wid in &failed {
                    let cmd = ClusterCommand::WorkerStatusChanged { id: wid.0.clone(), status: "unhealthy".to_string() };
                    if tokio::time::timeout(Duration::from_secs(60), handle.raft.client_write(cmd)).await.is_err() { infra("client_write timed out"); }
                }
            }
            failed
        };
        let mut m: Vec<String> = failed.iter().map(|w| w.0.clone()).collect();
        m.sort();
        if !m.is_empty() { ctx.count("tick.sweep_marked"); }
        self.emit(ctx, &format!("sweep {}", now), &format!("m:{}", if m.is_empty() { "-".to_string() } else { m.join(",") })).await;
        { let mut s = self.script.lock().unwrap(); s.clear(); s.extend(outcomes.iter().copied()); }
        for wid in failed {
            self.note_migs().await;
            { let mut c = self.coord.write().await; c.handle_worker_failure(&wid).await; }
            let migs = self.note_migs().await;
            if migs.iter().any(|x| x.contains(":1:")) { ctx.count("tick.failover_moved"); }
            self.emit(ctx, &format!("failover {} {}", wid.0, Self::migs_text(&migs)), &format!("n:{}", migs.len())).await;
        }
        { let mut c = self.coord.write().await; let _ = c.check_connector_health(); c.cleanup_completed_migrations(Duration::from_secs(3600)); }
        let pending = self.coord.read().await.pending_rebalance;
        if pending {
            ctx.count("tick.pending_rebalance");
            let before: HashMap<String, usize> = { let c = self.coord.read().await; c.workers.iter().map(|(k, w)| (k.0.clone(), w.assigned_pipelines.len())).collect() };
            let n = { let mut c = self.coord.write().await; c.reconcile_placements().await };
            let mut rd: Vec<String> = Vec::new();
            { let c = self.coord.read().await;
              let mut ids: Vec<&WorkerId> = c.workers.keys().collect(); ids.sort_by(|a, b| a.0.cmp(&b.0));
              for id in ids { let w = &c.workers[id]; let b = before.get(&id.0).copied().unwrap_or(0); for p in w.assigned_pipelines.iter().skip(b) { rd.push(format!("{}/{}", id.0, p)); } } }
            if n > 0 { ctx.count("tick.reconciled"); }
            self.emit(ctx, &format!("reconcile {}", if rd.is_empty() { "-".to_string() } else { rd.join(",") }), &format!("n:{}", n)).await;
            self.note_migs().await;
            { let mut c = self.coord.write().await; let _ = c.rebalance().await; }
            let migs = self.note_migs().await;
            if migs.iter().any(|x| x.contains(":1:")) { ctx.count("tick.auto_rebalance_moved"); }
            self.emit(ctx, &format!("autorebalance {}", Self::migs_text(&migs)), &format!("n:{}", migs.len())).await;
        }
        self.script.lock().unwrap().clear();
        { let mut c = self.coord.write().await; let _ = c.evaluate_scaling(); }
    }

    /// (cpu, max) a worker is registered with, and the ids of the Unhealthy workers
    async fn capacity_of(&self, w: &str) -> Option<(usize, usize)> { self.coord.read().await.workers.get(&WorkerId(w.to_string())).map(|n| (n.capacity.cpu_cores, n.capacity.max_pipelines)) }
    async fn unhealthy_ids(&self) -> Vec<String> { let c = self.coord.read().await; let mut v: Vec<String> = c.workers.iter().filter(|(_, n)| n.status == WorkerStatus::Unhealthy).map(|(k, _)| k.0.clone()).collect(); v.sort(); v }
    async fn connector_names(&self) -> Vec<String> { let c = self.coord.read().await; let mut v: Vec<String> = c.connectors.keys().cloned().collect(); v.sort(); v }
    async fn worker_ids(&self) -> Vec<String> { let c = self.coord.read().await; let mut v: Vec<String> = c.workers.keys().map(|k| k.0.clone()).collect(); v.sort(); v }
    async fn groups(&mut self) -> Vec<String> {
        let keys: Vec<String> = { let c = self.coord.read().await; c.pipeline_groups.keys().cloned().collect() };
        let mut v: Vec<String> = keys.iter().map(|g| self.names.gid(g)).collect(); v.sort(); v
    }
    async fn placements(&mut self) -> Vec<(String, String, String)> {
        let c = self.coord.read().await;
        let mut v = Vec::new();
        for (g, grp) in &c.pipeline_groups { for (n, d) in &grp.placements { v.push((g.clone(), n.clone(), d.worker_id.0.clone())); } }
        drop(c);
        let mut v: Vec<(String, String, String)> = v.into_iter().map(|(g, n, w)| (self.names.gid(&g), n, w)).collect();
        v.sort();
        v
    }
    async fn assigned_len(&self, w: &str) -> usize { self.coord.read().await.workers.get(&WorkerId(w.to_string())).map(|n| n.assigned_pipelines.len()).unwrap_or(0) }
}

fn gen_connector(ctx: &mut Ctx, name: &str) -> ClusterConnector {
    let (t, key) = *ctx.rng.pick(&[("mqtt", "host"), ("kafka", "brokers"), ("http", "url"), ("console", "x"), ("bogus", "host")]);
    let mut params = HashMap::new();
    if !ctx.rng.chance(1, 6) { params.insert(key.to_string(), format!("v{}", ctx.rng.below(3))); }
    if ctx.rng.chance(1, 3) { params.insert("port".into(), format!("{}", 1000 + ctx.rng.below(3))); }
    ClusterConnector { name: name.to_string(), connector_type: t.to_string(), params, description: None }
}

async fn scenario(ctx: &mut Ctx, base: &str, script: &Script, idx: u64) {
    let timeout = *ctx.rng.pick(&[15000u64, 15000, 1000]);
    let mut w = World::new(ctx, base, script, timeout).await;
    if idx == 0 { ctx.case("loopshape", &loop_shape()); }
    if ctx.rng.chance(1, 6) {
        ctx.count("scenario.with_startup_policy");
        let mx = 4 + ctx.rng.below(3) as usize;
        w.startup_policy(ctx, Some(ScalingPolicy { min_workers: 1, max_workers: mx, scale_up_threshold: 5.0, scale_down_threshold: 1.0, cooldown_secs: 60, webhook_url: None })).await;
    }
    let nw = 2 + ctx.rng.below(2);
    let wn = |i: u64| format!("w{}", i);
    for i in 1..=nw {
        let max = *ctx.rng.pick(&[2usize, 4, 100]);
        let cpu = *ctx.rng.pick(&[1usize, 4]);
        w.set_time(w.now + ctx.rng.below(30));
        w.register(ctx, &wn(i), cpu, 0, max).await;
    }
    let steps = 12 + ctx.rng.below(if ctx.thorough { 30 } else { 16 });
    for _ in 0..steps {
        let anyw = wn(1 + ctx.rng.below(nw + 1));
        match ctx.rng.below(40) {
            0..=5 => { // heartbeat (truthful or not), sometimes late
                w.set_time(w.now + ctx.rng.below(timeout / 3 + 2));
                let n = if ctx.rng.chance(2, 3) { w.assigned_len(&anyw).await } else { ctx.rng.below(4) as usize };
                let ev = ctx.rng.below(1000);
                w.heartbeat(ctx, &anyw, n, ev).await;
            }
            6..=11 => { // deploy
                if w.groups().await.len() < 3 {
                    let n = 1 + ctx.rng.below(2) as usize;
                    let mut specs = Vec::new();
                    for name in ["p", "q"].iter().take(n) {
                        let aff = if ctx.rng.chance(1, 3) { Some(wn(1 + ctx.rng.below(nw + 1))) } else { None };
                        let replicas = match ctx.rng.below(5) { 0 => 0, 1..=3 => 1, _ => 2 };
                        specs.push(PSpec { name: name.to_string(), aff, replicas });
                    }
                    let o: Vec<bool> = (0..6).map(|_| !ctx.rng.chance(1, 6)).collect();
                    let gname = format!("grp{}", ctx.rng.below(3));
                    w.deploy(ctx, &gname, &specs, &o).await;
                }
            }
            12..=14 => { // teardown (sometimes of a group that does not exist)
                let gs = w.groups().await;
                if ctx.rng.chance(1, 8) { w.teardown(ctx, "g99").await; } else if !gs.is_empty() { let g = ctx.rng.pick(&gs).clone(); w.teardown(ctx, &g).await; }
            }
            15..=18 => { // manual migration
                let ps = w.placements().await;
                if !ps.is_empty() {
                    let (g, n, _) = ctx.rng.pick(&ps).clone();
                    let ok = !ctx.rng.chance(1, 5);
                    let n = if ctx.rng.chance(1, 12) { "nosuch".to_string() } else { n };
                    w.manual_migrate(ctx, &g, &n, &anyw, ok).await;
                }
            }
            19 | 20 => { let o: Vec<bool> = (0..6).map(|_| !ctx.rng.chance(1, 6)).collect(); w.rebalance_api(ctx, &o).await; }
            21 | 22 => { let o: Vec<bool> = (0..6).map(|_| !ctx.rng.chance(1, 6)).collect(); w.drain(ctx, &anyw, &o).await; }
            23..=27 => { // connectors
                let name = ctx.rng.pick(&["c1", "c2", "9bad"]).to_string();
                match ctx.rng.below(5) {
                    0 | 1 => { let c = gen_connector(ctx, &name); w.connector(ctx, "create", &name, Some(c)).await; }
                    2 | 3 => {
                        // path: mostly an existing connector, else any name; body name: the path name, another existing
                        // connector's name, or a fresh one
                        let mut existing = w.connector_names().await;
                        if existing.is_empty() && ctx.rng.chance(3, 4) {
                            // nothing to update yet: create something valid first
                            let c0 = ClusterConnector { name: "c1".into(), connector_type: "console".into(), params: HashMap::new(), description: None };
                            w.connector(ctx, "create", "c1", Some(c0)).await;
                            existing = w.connector_names().await;
                        }
                        let path = if !existing.is_empty() && ctx.rng.chance(3, 4) { ctx.rng.pick(&existing).clone() } else { name.clone() };
                        let others: Vec<String> = ["c1", "c2", "c3", "tmpl"].iter().map(|x| x.to_string()).filter(|x| *x != path).collect();
                        let body_name = if ctx.rng.chance(1, 2) { path.clone() } else { ctx.rng.pick(&others).clone() };
                        let mut c = gen_connector(ctx, &body_name);
                        if ctx.rng.chance(1, 2) { c.connector_type = "console".into(); } // always valid
                        w.connector(ctx, "update", &path, Some(c)).await;
                    }
                    _ => w.connector(ctx, "delete", &name, None).await,
                }
            }
            28 => w.deregister(ctx, &anyw).await,
            29 | 30 => { // (re-)registration: also arms `pending_rebalance` when groups exist
                let max = *ctx.rng.pick(&[2usize, 4, 100]);
                w.set_time(w.now + ctx.rng.below(50));
                // a reconnecting worker re-sends the registration it is known by (same id, address, key, capacity)
                match w.capacity_of(&anyw).await {
                    Some((cpu, mx)) if ctx.rng.chance(1, 2) => { ctx.count("reg.identical_reregistration"); w.register(ctx, &anyw, cpu, 0, mx).await; }
                    _ => w.register(ctx, &anyw, 2, 0, max).await,
                }
            }
            31 => { w.set_time(w.now + ctx.rng.below(200)); w.sync_only(ctx).await; }
            32 => { // model registry: upload / delete / what a sync makes of it
                let m = ctx.rng.pick(&["m1", "m2"]).to_string();
                match ctx.rng.below(4) { 0 | 1 => w.model_upload(ctx, &m).await, 2 => w.model_delete(ctx, &m).await, _ => w.models_after_sync(ctx).await }
            }
            _ => { // a tick of the health loop, now or after silence long enough for a time-out
                let dt = if ctx.rng.chance(1, 3) { timeout + 1 + ctx.rng.below(timeout) } else { ctx.rng.below(timeout / 2 + 1) };
                w.set_time(w.now + dt);
                if ctx.rng.chance(1, 2) { // somebody heartbeats just before the tick
                    let ids = w.worker_ids().await;
                    if !ids.is_empty() { let x = ctx.rng.pick(&ids).clone(); let n = w.assigned_len(&x).await; w.heartbeat(ctx, &x, n, 5).await; }
                }
                let o: Vec<bool> = (0..8).map(|_| !ctx.rng.chance(1, 6)).collect();
                let with_sync = !ctx.rng.chance(1, 3);
                w.tick_opt(ctx, &o, with_sync).await;
                // a worker that was marked Unhealthy comes back: it registers again with the data it is known by
                let sick = w.unhealthy_ids().await;
                if !sick.is_empty() && ctx.rng.chance(1, 2) {
                    let x = ctx.rng.pick(&sick).clone();
                    if let Some((cpu, mx)) = w.capacity_of(&x).await { ctx.count("reg.unhealthy_worker_reregisters"); w.set_time(w.now + 5); w.register(ctx, &x, cpu, 0, mx).await; }
                }
            }
        }
    }
    // every scenario ends with a tick so that what was left unreplicated shows as a revert
    w.set_time(w.now + 10);
    w.tick(ctx, &[]).await;
    if idx % 3 == 1 {
        // the error paths of client_write: consensus is gone (the raft task is shut down), the API keeps answering.
        // Handlers that propose first must refuse and change nothing; handlers that commit locally first answer
        // 500 "applied locally but Raft replication failed" - refused, and the next sync_from_raft takes it back.
        ctx.count("scenario.with_dead_raft_tail");
        let _ = tokio::time::timeout(Duration::from_secs(20), w.raft.shutdown()).await;
        let before = w.worker_ids().await.len();
        { let body = serde_json::json!({"worker_id": "w9", "address": format!("{}/w9", w.names.base), "api_key": "k", "capacity": {"cpu_cores": 1, "pipelines_running": 0, "max_pipelines": 5}});
          let (st, _) = api!(w, "POST", "/api/v1/cluster/workers/register", Some(body));
          if w.worker_ids().await.len() != before { ctx.count("deadraft.register_changed_state"); }
          w.emit(ctx, "noop register-without-consensus", &format!("refused:{}", if st >= 400 { "err".to_string() } else { st.to_string() })).await; }
        { let c = ClusterConnector { name: "cdead".into(), connector_type: "console".into(), params: HashMap::new(), description: None };
          let (st, _) = api!(w, "POST", "/api/v1/cluster/connectors", serde_json::to_value(&c).ok());
          w.emit(ctx, "noop connector-without-consensus", &format!("refused:{}", if st >= 400 { "err".to_string() } else { st.to_string() })).await; }
        let specs = vec![PSpec { name: "p".into(), aff: None, replicas: 1 }];
        w.deploy(ctx, "grpdead", &specs, &[true]).await;
        let gs = w.groups().await;
        if !gs.is_empty() { let g = ctx.rng.pick(&gs).clone(); w.teardown(ctx, &g).await; }
        w.set_time(w.now + 10);
        w.sync_only(ctx).await;
    }
    w.shutdown().await;
}

/// 3-node part: the API is driven on the leader's coordinator; after every call each follower coordinator
/// (own raft node, own replicated state) runs its health loop's `sync_from_raft` and is compared with the leader
async fn scenario3(ctx: &mut Ctx, base: &str, script: &Script) {
    let scratch = ctx.scratch("c38");
    let c = crate::p_raftagree::Cluster::start(None, &scratch).await;
    let (lid, _) = c.wait_leader(90, &[1, 2, 3]).await;
    // every coordinator serves its cluster API on a port of its own; `peer_addrs` (leader forwarding) points there
    let mut peers: std::collections::BTreeMap<u64, String> = std::collections::BTreeMap::new();
    let mut all = Vec::new();
    for n in c.live() {
        let mut co = Coordinator::with_raft(n.raft.clone(), n.shared.clone(), std::collections::BTreeMap::new(), None);
        co.heartbeat_timeout = Duration::from_millis(15000);
        let sc: SharedCoordinator = Arc::new(tokio::sync::RwLock::new(co));
        let routes = varpulis_cluster::cluster_routes(sc.clone(), Arc::new(RbacConfig::disabled()), None).recover(varpulis_cluster::api::handle_rejection);
        let (addr, fut) = warp::serve(routes).bind_ephemeral(([127, 0, 0, 1], 0));
        tokio::spawn(fut);
        peers.insert(n.id, format!("http://{}", addr));
        all.push((n.id, sc, n.raft.clone(), n.shared.clone()));
    }
    let mut leader_coord = None;
    let mut followers = Vec::new();
    for (id, sc, raft, shared) in all {
        { let mut g = sc.write().await; if let Some(h) = g.raft_handle.as_mut() { h.peer_addrs = peers.clone(); } g.update_raft_role(); }
        if id == lid { leader_coord = Some((sc, raft, shared)); } else { followers.push((id, sc, shared)); }
    }
    let (coord, raft, shared) = leader_coord.unwrap_or_else(|| infra("leader node vanished"));
    clock::verif_set_ms(0);
    ctx.directive("new rs 15000");
    let mut w = World { coord, raft, shared, names: Names::new(base), now: 0, script: script.clone(), seen_migs: HashSet::new(),
        cluster: Some((lid, followers)), aborted: false };
    let wn = |i: u64| format!("w{}", i);
    for i in 1..=2u64 { w.set_time(w.now + 10); w.register(ctx, &wn(i), 2, 0, 4).await; }
    w.set_time(w.now + 10);
    w.register_via_follower(ctx, "w3", 2, 0, 4).await;
    w.model_upload(ctx, "m1").await;
    w.model_upload(ctx, "m2").await;
    w.model_delete(ctx, "m2").await;
    let steps = 8 + ctx.rng.below(6);
    for _ in 0..steps {
        if w.aborted { break; }
        let anyw = wn(1 + ctx.rng.below(3));
        match ctx.rng.below(12) {
            0 | 1 => { w.set_time(w.now + ctx.rng.below(3000)); let n = w.assigned_len(&anyw).await; w.heartbeat(ctx, &anyw, n, 9).await; }
            2..=4 => { if w.groups().await.len() < 2 { let specs = vec![PSpec { name: "p".into(), aff: None, replicas: 1 + ctx.rng.below(2) as usize }]; let o3 = !ctx.rng.chance(1, 4); w.deploy(ctx, "grp", &specs, &[true, true, o3]).await; } }
            5 => { let gs = w.groups().await; if !gs.is_empty() { let g = ctx.rng.pick(&gs).clone(); w.teardown(ctx, &g).await; } }
            6 | 7 => { let ps = w.placements().await; if !ps.is_empty() { let (g, n, _) = ctx.rng.pick(&ps).clone(); w.manual_migrate(ctx, &g, &n, &anyw, true).await; } }
            8 | 9 => {
                let name = ctx.rng.pick(&["c1", "c2"]).to_string();
                match ctx.rng.below(4) {
                    0 | 1 => { let cn = gen_connector(ctx, &name); w.connector(ctx, "create", &name, Some(cn)).await; }
                    2 => { let other = ctx.rng.pick(&["c1", "c2", "tmpl"]).to_string(); let cn = gen_connector(ctx, &other); w.connector(ctx, "update", &name, Some(cn)).await; }
                    _ => w.connector(ctx, "delete", &name, None).await,
                }
            }
            10 => { w.set_time(w.now + 16000); let x = wn(1); let n = w.assigned_len(&x).await; w.heartbeat(ctx, &x, n, 1).await; w.tick(ctx, &[true, true, true, true]).await; }
            _ => { w.set_time(w.now + 20); if ctx.rng.chance(1, 2) { w.register_via_follower(ctx, &anyw, 2, 0, 4).await; } else { w.register(ctx, &anyw, 2, 0, 4).await; } }
        }
    }
    if !w.aborted { w.set_time(w.now + 10); w.tick(ctx, &[]).await; }
    c.shutdown().await;
    let _ = std::fs::remove_dir_all(&scratch);
}

pub fn run(ctx: &mut Ctx, _name: &str) {
    let rt = tokio::runtime::Builder::new_multi_thread().worker_threads(2).enable_all().build().expect("runtime");
    let script: Script = Arc::new(Mutex::new(VecDeque::new()));
    let addr = rt.block_on(start_mock(script.clone()));
    let base = format!("http://{}", addr);
    let scenarios = if ctx.thorough { 1500 } else { 150 };
    rt.block_on(async {
        for i in 0..scenarios { scenario(ctx, &base, &script, i).await; }
        if std::env::var("VERIF_C38_NO_CLUSTER").is_err() {
            let clusters = if ctx.thorough { 6 } else { 2 };
            for _ in 0..clusters { scenario3(ctx, &base, &script).await; }
        }
    });
    clock::verif_off();
}
