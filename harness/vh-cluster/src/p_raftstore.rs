//! C36 — crash recovery of `RocksStore`: histories of appends / applies / snapshot builds (capture and
//! persist as separate steps) and installs / purges / conflicting-suffix deletions / votes on a temp RocksDB, a process crash after
//! the n-th RocksDB write (hook `persistent_store::verif`, feature `varpulis_verif`), then
//! `RocksStore::open_with_shared_state` and a canonical dump. Replayed by `vmodel raftstore`.
//!
//! Crash = the hook panics immediately before write n+1 (so exactly n writes are in RocksDB), the
//! store is dropped without any further write and the directory is reopened. RocksDB writes go to
//! the WAL at `write()` time, so dropping the handle exercises the same write boundaries as a
//! killed process (process crash, not power loss).
use crate::p_raftsm::{entries_words, lid, mk_lid, next_vote, rt, AnyStore, Ent, Gen, Scratch, SnapReg};
use crate::util::{catch, Ctx};
use crate::p_raftsm::with_store;
use openraft::storage::RaftStorage;
use openraft::{LogId, RaftLogReader, RaftSnapshotBuilder, Vote};
use std::collections::BTreeMap;
use std::panic::AssertUnwindSafe;
use varpulis_cluster::raft::persistent_store::{verif, RocksSnapshotBuilder};
use varpulis_cluster::raft::NodeId;

pub const NAMES: &[&str] = &["C36"];

#[derive(Clone)]
enum Op {
    Vote(Vote<NodeId>),
    Append(Vec<Ent>),
    Apply(u64),
    /// `get_snapshot_builder`: capture the state machine
    Begin,
    /// `build_snapshot` on the captured builder: serialise and persist (openraft does this in a spawned task)
    Finish,
    /// install the snapshot a coordinator that applied the committed log up to this index would send
    Install(Option<u64>),
    Purge(LogId<NodeId>),
    Trunc(LogId<NodeId>),
}

fn op_line(op: &Op) -> String {
    match op {
        Op::Vote(v) => format!("op vote {} {} {}", v.leader_id.term, v.leader_id.node_id, if v.committed { 1 } else { 0 }),
        Op::Append(es) => format!("op append {}", entries_words(es)),
        Op::Apply(j) => format!("op apply {}", j),
        Op::Begin => "op begin".into(),
        Op::Finish => "op finish".into(),
        Op::Install(o) => format!("op install {}", o.map(|x| x.to_string()).unwrap_or_else(|| "-".into())),
        Op::Purge(id) => format!("op purge {}", lid(id)),
        Op::Trunc(id) => format!("op trunc {}", lid(id)),
    }
}
fn op_kind(op: &Op) -> &'static str {
    match op {
        Op::Vote(_) => "vote", Op::Append(_) => "append", Op::Apply(_) => "apply", Op::Begin => "begin", Op::Finish => "finish",
        Op::Install(_) => "install", Op::Purge(_) => "purge", Op::Trunc(_) => "trunc",
    }
}

/// the snapshot the leader would send: a fresh in-memory store that applied `g` up to index `o`
fn leader_snapshot(rt: &tokio::runtime::Runtime, g: &[Ent], o: Option<u64>) -> SnapReg {
    let mut st = AnyStore::mem();
    let es: Vec<Ent> = g.iter().filter(|e| o.map_or(false, |o| e.log_id.index <= o)).cloned().collect();
    st.apply(rt, &es).expect("leader apply");
    st.build_snapshot(rt)
}

/// generate a well-formed history (openraft's calling discipline) by bookkeeping only
fn gen_history(ctx: &mut Ctx, g: &[Ent], steps: u64, votes_only: bool) -> Vec<Op> {
    let gmap: BTreeMap<u64, Ent> = g.iter().map(|e| (e.log_id.index, e.clone())).collect();
    let first = g.first().map(|e| e.log_id.index).unwrap_or(0);
    let glast = g.last().map(|e| e.log_id.index).unwrap_or(0);
    let mut local: BTreeMap<u64, Ent> = BTreeMap::new();
    let mut applied: Option<u64> = None;
    let mut snap: Option<u64> = None; // position of the snapshot stored by build/install
    let mut has_snap = false;
    let mut purged: Option<u64> = None;
    let mut building: Option<Option<u64>> = None; // a captured builder and the position it captured
    let mut last_vote: Option<(u64, u64, bool)> = None;
    let mut ops = Vec::new();
    let same = |a: &Ent, b: &Ent| entries_words(std::slice::from_ref(a)) == entries_words(std::slice::from_ref(b));
    for _ in 0..steps {
        // next index to append: after the local log, above the applied position and above the purge marker
        let next = local.keys().next_back().map(|k| k + 1).unwrap_or(first)
            .max(applied.map_or(first, |a| a + 1))
            .max(purged.map_or(first, |p| p + 1));
        // vote-centred histories: votes, with an occasional append/apply in between
        let pick = if votes_only { *ctx.rng.pick(&[0u64, 4, 14, 14, 14, 14]) } else { ctx.rng.below(16) };
        match pick {
            0 | 1 | 2 | 3 => {
                // append committed entries, sometimes an uncommitted (conflicting) tail
                if next > glast + 2 { continue; }
                let n = 1 + ctx.rng.below(4);
                let mut es = Vec::new();
                let junk_from = if ctx.rng.chance(1, 4) { ctx.rng.below(n) } else { n };
                for k in 0..n {
                    let idx = next + k;
                    let e = match gmap.get(&idx) {
                        Some(e) if k < junk_from => e.clone(),
                        _ => {
                            let mut j = Gen::log(&mut ctx.rng, idx, 1).remove(0);
                            j.log_id = mk_lid(50 + ctx.rng.below(3), 3, idx);
                            j
                        }
                    };
                    es.push(e);
                }
                for e in &es { local.insert(e.log_id.index, e.clone()); }
                ops.push(Op::Append(es));
            }
            4 | 5 | 6 => {
                // apply: as far as the local log agrees with the committed log
                let from = applied.map_or(first, |a| a + 1);
                let mut hi = None;
                let mut i = from;
                while let (Some(l), Some(c)) = (local.get(&i), gmap.get(&i)) {
                    if !same(l, c) { break; }
                    hi = Some(i);
                    i += 1;
                }
                // no local entry of the range may lie beyond the agreeing prefix below j: j <= hi guarantees it
                if let Some(hi) = hi {
                    let j = from + ctx.rng.below(hi - from + 1);
                    ops.push(Op::Apply(j));
                    applied = Some(j);
                }
            }
            7 | 11 => {
                // snapshot build in two steps; other calls may come in between
                match building.take() {
                    None => {
                        ops.push(Op::Begin);
                        building = Some(applied);
                        if ctx.rng.chance(1, 2) {
                            ops.push(Op::Finish);
                            snap = building.take().unwrap();
                            has_snap = true;
                        }
                    }
                    Some(pos) => {
                        ctx.count("history:build_overlapping_other_calls");
                        ops.push(Op::Finish);
                        // a late build does not replace a newer stored snapshot
                        if has_snap && snap > pos { ctx.count("history:stale_build_skipped"); } else { snap = pos; }
                        has_snap = true;
                    }
                }
            }
            8 => {
                // install a snapshot from the leader, usually ahead of the applied position
                // (openraft installs only snapshots ahead of the committed position, hence not older than
                // a snapshot this node is building at that moment)
                if g.is_empty() { continue; }
                let lo = applied.map_or(first, |a| a);
                let o = if ctx.rng.chance(1, 8) { first + ctx.rng.below(glast - first + 1) } else { lo + ctx.rng.below(glast.saturating_sub(lo) + 1) };
                let mut o = o.min(glast).max(first);
                if let Some(Some(b)) = building { o = o.max(b); ctx.count("history:install_during_build"); }
                ops.push(Op::Install(Some(o)));
                applied = Some(o);
                snap = Some(o);
                has_snap = true;
                // openraft purges the log up to the installed snapshot; it has to when the snapshot reaches
                // beyond the local log (otherwise the next append would leave a hole). Never below the marker.
                let beyond = local.keys().next_back().map_or(true, |l| o > *l);
                if (beyond || ctx.rng.chance(2, 3)) && purged.map_or(true, |p| o >= p) {
                    ops.push(Op::Purge(gmap[&o].log_id));
                    local.retain(|k, _| *k > o);
                    purged = Some(purged.map_or(o, |p| p.max(o)));
                }
            }
            9 | 12 | 13 => {
                // purge up to (at most) the stored snapshot
                if !has_snap { continue; }
                let Some(s) = snap else { continue };
                let upto = if ctx.rng.chance(1, 2) { s } else { first + ctx.rng.below(s - first + 1) };
                // the purge marker only moves forward (a purge below it would open a hole before the first entry)
                let upto = upto.max(purged.unwrap_or(0));
                if upto > s { continue; }
                let id = gmap.get(&upto).map(|e| e.log_id).unwrap_or_else(|| mk_lid(1, 1, upto));
                ops.push(Op::Purge(id));
                local.retain(|k, _| *k > upto);
                purged = Some(purged.map_or(upto, |p| p.max(upto)));
            }
            10 => {
                // delete a conflicting suffix: strictly above the applied position
                let lo = applied.map_or(first, |a| a + 1);
                if next <= lo { continue; }
                let since = lo + ctx.rng.below(next - lo);
                let id = local.get(&since).map(|e| e.log_id).unwrap_or_else(|| mk_lid(1, 1, since));
                ops.push(Op::Trunc(id));
                local.retain(|k, _| *k < since);
            }
            _ => {
                // a short run of related votes (same leader id with the committed flag flipping, re-saves, new terms)
                let k = if votes_only { 1 + ctx.rng.below(2) } else { 1 + ctx.rng.below(3) };
                for _ in 0..k {
                    let (v, kind) = next_vote(&mut ctx.rng, &mut last_vote);
                    ctx.count(&format!("vote:{}", kind));
                    ops.push(Op::Vote(v));
                }
            }
        }
    }
    ops
}

/// run `ops` on the store at `path`; stops at the first panic (the armed crash point). Returns Ok(()) or the panic text.
/// bookkeeping of what the implementation acknowledged: the last vote `save_vote` returned `Ok` for,
/// and (when asked) `read_vote` right after every acknowledged `save_vote`
#[derive(Default)]
struct Acks {
    vote: Option<Vote<NodeId>>,
    reads: Option<Vec<(usize, String)>>,
}
fn vote_str(v: &Option<Vote<NodeId>>) -> String {
    match v { None => "-".into(), Some(v) => format!("{}.{}.{}", v.leader_id.term, v.leader_id.node_id, if v.committed { 1 } else { 0 }) }
}

fn run_ops(rt: &tokio::runtime::Runtime, st: &mut AnyStore, g: &[Ent], ops: &[Op], acks: &mut Acks) -> Result<(), String> {
    // the captured snapshot builder (holds a handle to the same RocksDB); dropped when this returns
    let mut builder: Option<RocksSnapshotBuilder> = None;
    for (i, op) in ops.iter().enumerate() {
        match op {
            Op::Begin => {
                let AnyStore::Rocks(s, _) = &mut *st else { unreachable!() };
                builder = Some(rt.block_on(s.get_snapshot_builder()));
                continue;
            }
            Op::Finish => {
                if let Some(mut b) = builder.take() {
                    let r = catch(AssertUnwindSafe(|| rt.block_on(b.build_snapshot())));
                    match r {
                        Err(p) => return Err(p),
                        Ok(Err(e)) => panic!("storage error in harness history: {}", e),
                        Ok(Ok(_)) => {}
                    }
                }
                continue;
            }
            _ => {}
        }
        let reg: Option<SnapReg> = if let Op::Install(o) = op { Some(leader_snapshot(rt, g, *o)) } else { None };
        let r = catch(AssertUnwindSafe(|| {
            rt.block_on(async {
                with_store!(&mut *st, s => {
                    match op {
                        Op::Vote(v) => s.save_vote(v).await.map_err(|e| e.to_string()),
                        Op::Append(es) => s.append_to_log(es.clone()).await.map_err(|e| e.to_string()),
                        Op::Apply(j) => {
                            let (la, _) = s.last_applied_state().await.map_err(|e| e.to_string())?;
                            let from = la.map_or(0, |l| l.index + 1);
                            let es = s.try_get_log_entries(from..=*j).await.map_err(|e| e.to_string())?;
                            s.apply_to_state_machine(&es).await.map(|_| ()).map_err(|e| e.to_string())
                        }
                        Op::Begin | Op::Finish => unreachable!(),
                        Op::Install(_) => {
                            let reg = reg.as_ref().unwrap();
                            let mut b = s.begin_receiving_snapshot().await.map_err(|e| e.to_string())?;
                            *b = std::io::Cursor::new(reg.data.clone());
                            s.install_snapshot(&reg.meta, b).await.map_err(|e| e.to_string())
                        }
                        Op::Purge(id) => s.purge_logs_upto(*id).await.map_err(|e| e.to_string()),
                        Op::Trunc(id) => s.delete_conflict_logs_since(*id).await.map_err(|e| e.to_string()),
                    }
                })
            })
        }));
        match r {
            Err(p) => return Err(p),
            Ok(Err(e)) => panic!("storage error in harness history: {}", e),
            Ok(Ok(())) => {
                if let Op::Vote(v) = op {
                    acks.vote = Some(*v);
                    if acks.reads.is_some() {
                        let r = st.vote_print(rt);
                        acks.reads.as_mut().unwrap().push((i, r));
                    }
                }
            }
        }
    }
    Ok(())
}

fn dump(rt: &tokio::runtime::Runtime, st: &mut AnyStore) -> String {
    format!("vote={} {} {}", st.vote_print(rt), st.log_line(rt), st.sm_print(rt))
}
fn dump_log_half(rt: &tokio::runtime::Runtime, st: &mut AnyStore) -> String {
    format!("vote={} {}", st.vote_print(rt), st.log_line(rt))
}

fn scenario(ctx: &mut Ctx, scratch: &mut Scratch, len: u64, steps: u64, all_points: bool, votes_only: bool) {
    let first = 1 + ctx.rng.below(2);
    let g = Gen::log(&mut ctx.rng, first, len);
    let ops = gen_history(ctx, &g, steps, votes_only);
    if votes_only { ctx.count("history:vote_centred"); }
    for op in &ops { ctx.count(&format!("op:{}", op_kind(op))); }
    let has_compaction = ops.iter().any(|o| matches!(o, Op::Purge(_)));
    let has_install = ops.iter().any(|o| matches!(o, Op::Install(_)));
    if has_compaction { ctx.count("history:with_purge"); }
    if has_install { ctx.count("history:with_install"); }
    ctx.directive("new hist");
    ctx.directive(&format!("G {}", entries_words(&g)));
    for op in &ops { ctx.directive(&op_line(op)); }
    // run 0: no crash, count the writes
    let rt0 = rt();
    let p0 = scratch.fresh();
    verif::arm(None);
    let mut st = AnyStore::rocks(&p0);
    let mut acks = Acks { vote: None, reads: Some(Vec::new()) };
    run_ops(&rt0, &mut st, &g, &ops, &mut acks).expect("uncrashed run panicked");
    let total = verif::writes();
    let live = dump(&rt0, &mut st);
    drop(st);
    // read_vote right after every save_vote of the uncrashed run
    for (i, r) in acks.reads.take().unwrap() { ctx.case(&format!("rv {}", i), &r); }
    let mut re = AnyStore::rocks(&p0);
    let after = dump(&rt0, &mut re);
    drop(re);
    scratch.remove(&p0);
    ctx.case(&format!("restart {}", total), &format!("{} persist={} acked={}", after, if live == after { "same" } else { "changed" }, vote_str(&acks.vote)));
    ctx.count_n("writes", total);
    // crash points
    let points: Vec<u64> = if all_points { (0..=total).collect() } else {
        let mut v: Vec<u64> = (0..3).map(|_| ctx.rng.below(total + 1)).collect();
        v.sort(); v.dedup(); v
    };
    for n in points {
        let p = scratch.fresh();
        let rt1 = rt();
        verif::arm(Some(n));
        let mut st = AnyStore::rocks(&p);
        let mut acks = Acks::default();
        let r = run_ops(&rt1, &mut st, &g, &ops, &mut acks);
        verif::arm(None);
        let crashed = r.is_err();
        if let Err(msg) = &r {
            if !msg.contains("verif crash point") { panic!("unexpected panic in history: {}", msg); }
        }
        // what the crashed process had made durable, read through the still-open handle
        let rt2 = rt();
        let live_log = dump_log_half(&rt2, &mut st);
        drop(st);
        let mut re = AnyStore::rocks(&p);
        let after = dump(&rt2, &mut re);
        let persist = if after.starts_with(&live_log) { "same" } else { "changed" };
        drop(re);
        scratch.remove(&p);
        ctx.case(&format!("crash {}", n), &format!("{} persist={} acked={}", after, persist, vote_str(&acks.vote)));
        ctx.count(if crashed { "crash:mid_history" } else { "crash:after_last_write" });
        if crashed && has_compaction { ctx.count("crash:in_history_with_purge"); }
    }
}

pub fn run(ctx: &mut Ctx, _name: &str) {
    std::panic::set_hook(Box::new(|_| {}));
    let mut scratch = Scratch::new();
    let n = if ctx.thorough { 160 } else { 40 };
    for i in 0..n {
        let len = 2 + ctx.rng.below(if ctx.thorough { 14 } else { 8 });
        let steps = 6 + ctx.rng.below(if ctx.thorough { 22 } else { 12 });
        let all = ctx.thorough || i % 2 == 0;
        scenario(ctx, &mut scratch, len, steps, all, false);
        // a vote-centred history after every second general one (short, every write boundary)
        if i % 2 == 0 {
            let vsteps = 2 + ctx.rng.below(3);
            scenario(ctx, &mut scratch, 2, vsteps, true, true);
        }
    }
    let _ = std::panic::take_hook();
}
