//! C39: injected connector declarations carry exactly the stored parameters.
//!
//! `inj :<src> C :<name> :<type> <n> :<k> :<v> … C … => valid=<0|1…> out=:<text> parse=<ok|err>
//!       decls=<name~type~k~T.v~k~T.v|…> rest=<same|diff|na|err-src>`
//! The stored connectors (those `validate_connector` accepts) are injected into the source with
//! `inject_connectors`; the real parser reads the result back; the statements other than the injected
//! declarations are compared (spans blanked) with the statements of the original source.
use crate::util::{catch, Ctx};
use std::collections::HashMap;
use varpulis_cluster::connector_config::{inject_connectors, validate_connector, ClusterConnector};
use varpulis_core::ast::{ConfigValue, Stmt};

pub const NAMES: &[&str] = &["C39"];

pub fn enc(s: &str) -> String {
    let mut o = String::with_capacity(s.len() + 8);
    for c in s.chars() {
        match c {
            '\\' => o.push_str("\\\\"),
            '\n' => o.push_str("\\n"),
            '\r' => o.push_str("\\r"),
            '\t' => o.push_str("\\t"),
            '>' => o.push_str("\\g"),
            ' ' => o.push_str("\\s"),
            '~' => o.push_str("\\w"),
            '|' => o.push_str("\\p"),
            c if (c as u32) < 0x20 || (c as u32) > 0x7e => o.push_str(&format!("\\u{:x};", c as u32)),
            c => o.push(c),
        }
    }
    o
}
fn tok(s: &str) -> String { format!(":{}", enc(s)) }

fn ast_nospan<T: std::fmt::Debug>(p: &T) -> String {
    let d = format!("{:?}", p);
    let mut o = String::with_capacity(d.len());
    let mut rest = d.as_str();
    loop {
        let a = rest.find("start: ");
        let b = rest.find("end: ");
        let (pos, klen) = match (a, b) {
            (Some(a), Some(b)) => if a < b { (a, 7) } else { (b, 5) },
            (Some(a), None) => (a, 7),
            (None, Some(b)) => (b, 5),
            (None, None) => { o.push_str(rest); break; }
        };
        o.push_str(&rest[..pos + klen]);
        rest = &rest[pos + klen..];
        let n = rest.bytes().take_while(|c| c.is_ascii_digit()).count();
        if n > 0 { o.push('_'); }
        rest = &rest[n..];
    }
    o
}

fn cv(v: &ConfigValue) -> String {
    match v {
        ConfigValue::Int(i) => format!("I.{}", i),
        ConfigValue::Float(f) => format!("F.{}", f),
        ConfigValue::Str(s) => format!("S.{}", enc(s)),
        ConfigValue::Duration(d) => format!("D.{}", d),
        ConfigValue::Bool(b) => format!("B.{}", b),
        ConfigValue::Ident(s) => format!("N.{}", enc(s)),
        ConfigValue::Array(_) => "A.".to_string(),
        ConfigValue::Map(_) => "M.".to_string(),
    }
}

const NAMES_OK: &[&str] = &["mqtt_in", "k1", "_x", "A", "kafka_signals", "stream", "true", "conn9", "from"];
const NAMES_BAD: &[&str] = &["1bad", "a-b", "", "a b", "caf\u{e9}"];
const TYPES: &[&str] = &["mqtt", "kafka", "nats", "http", "console", "console", "redis", "mqtt5", ""];
const KEYS_OK: &[&str] = &["host", "port", "brokers", "url", "servers", "topic", "client_id", "qos", "user_name", "_k", "K9", "password", "true", "x"];
const KEYS_BAD: &[&str] = &["a-b", "a.b", "", "1x", "a b", "k\u{e9}", "a:b", "a\"b"];
const VALUES: &[&str] = &[
    "localhost", "1883", "0", "7", "007", "00", "1e3", "1E3", "1.5", "1.50", "0.0", "5.", ".5", "-5", "+5", "-0", "1_000", "0x10",
    "9223372036854775807", "9223372036854775808", "99999999999999999999", "18446744073709551616",
    "inf", "-inf", "+inf", "nan", "NaN", "infinity", "Infinity", "true", "false", "null", "5s", "10ms", "3d", "1h30m",
    "a\"b", "\"", "\"\"", "\\", "a\\", "\\\"", "\\\\", "a\\nb", "a\\\"b\\", "C:\\dir\\file", "say \"hi\"",
    "", " ", "  padded  ", "tab\there", "caf\u{e9}", "\u{1F600}", "\u{3000}", "\u{ab}INDENT\u{bb}", "nats://localhost:4222", "http://example.com/a?b=c&d=e#frag",
    "a,b", "a)b", "(", ")", "[1,2]", "{i}", "#hash", "/* c */", "x # y", "k: v", "a=b", "for i in 0..3:", "broker1:9092,broker2:9092",
    "line1\nline2", "cr\rhere", "crlf\r\nx", "\n",
];

const SOURCES: &[&str] = &[
    "stream Data = Tick.from(@N, topic: \"data\")\n",
    "stream A = T .where(x > 1)\nstream Out = A .to(@N)\n",
    "event Tick:\n    price: float\n\nstream D = Tick.from(@N, topic: \"t\")\n    .where(price > 10.0)\n    .emit(p: price)\n",
    "fn f(a: int) -> int:\n    return a + 1\n\nstream D = Tick.from(@N)\n",
    "for i in 0..2:\n    stream D{i} = Tick.from(@N, topic: \"t{i}\")\n",
    "# only a comment .from(@N, x)\nstream S = T\n",
    "connector @N = mqtt(host: \"inline\")\nstream D = Tick.from(@N)\n",
    "    stream D = Tick.from(@N)\n",
    "stream D = Tick.from(@N, topic: \"a\")\nstream E = Tock.from(@M, topic: \"b\")\nstream F = D .to(@N, topic: \"out\")",
    "stream D = Tick.from(@N, topic: \"a\")\r\nstream G = T .where(s == \".from(@M, \")\r\n",
    "stream S = T .where(x > 1)\n",
    "",
];

fn gen_connector(ctx: &mut Ctx, name: &str) -> ClusterConnector {
    let ctype = if ctx.rng.chance(9, 10) { *ctx.rng.pick(&TYPES[..6]) } else { *ctx.rng.pick(TYPES) };
    let mut params = HashMap::new();
    // required parameter (mostly present)
    let req = match ctype { "mqtt" => Some("host"), "kafka" => Some("brokers"), "http" => Some("url"), "nats" => Some("servers"), _ => None };
    if let Some(r) = req { if ctx.rng.chance(19, 20) { params.insert(r.to_string(), ctx.rng.pick(VALUES).to_string()); } }
    let n = ctx.rng.range(0, 4);
    for _ in 0..n {
        let k = if ctx.rng.chance(1, 15) { *ctx.rng.pick(KEYS_BAD) } else { *ctx.rng.pick(KEYS_OK) };
        let v = if ctx.rng.chance(1, 8) { ctx.rng.range(0, 70000).to_string() } else { ctx.rng.pick(VALUES).to_string() };
        params.insert(k.to_string(), v);
    }
    if ctx.rng.chance(1, 12) {
        params.insert("client_id_mode".to_string(), "append_pipeline".to_string());
        if ctx.rng.chance(2, 3) { params.insert("client_id".to_string(), ctx.rng.pick(&["dev-1", "a\"b", "x\\", "caf\u{e9}", ""]).to_string()); }
    }
    ClusterConnector { name: name.to_string(), connector_type: ctype.to_string(), params, description: None }
}

fn one(ctx: &mut Ctx, src: &str, conns: &[ClusterConnector]) {
    let mut op = format!("inj {}", tok(src));
    let mut valid = String::new();
    let mut store: HashMap<String, ClusterConnector> = HashMap::new();
    let mut append_mode = false;
    for c in conns {
        let ok = validate_connector(c).is_ok();
        valid.push(if ok { '1' } else { '0' });
        ctx.count(if ok { "connector.accepted" } else { "connector.rejected" });
        op.push_str(&format!(" C {} {} {}", tok(&c.name), tok(&c.connector_type), c.params.len()));
        // parameters in the map's own iteration order (the order to_vpl_declaration renders them in)
        for (k, v) in c.params.iter() { op.push_str(&format!(" {} {}", tok(k), tok(v))); }
        if ok {
            if c.params.get("client_id_mode").map(|s| s.as_str()) == Some("append_pipeline") { append_mode = true; }
            store.insert(c.name.clone(), c.clone());
        }
    }
    // the store's iteration order matters only for the order of append_pipeline rewrites: report it
    let order: Vec<String> = store.values().map(|c| tok(&c.name)).collect();
    op.push_str(&format!(" O {}", order.join(" ")));
    let s2 = src.to_string();
    let st2 = store.clone();
    let (out, nlines) = match catch(move || inject_connectors(&s2, &st2)) { Ok(r) => r, Err(_) => { ctx.case(&op, "PANIC"); return; } };
    // the preamble holds one declaration per line; `nlines` counts them plus one
    let k = nlines.saturating_sub(1);
    let parsed = varpulis_parser::parse(&out);
    let (parse, decls, rest) = match &parsed {
        Err(_) => ("err".to_string(), String::new(), "na".to_string()),
        Ok(p) => {
            let mut ds: Vec<String> = Vec::new();
            let mut others: Vec<String> = Vec::new();
            for (i, s) in p.statements.iter().enumerate() {
                if i < k {
                    match &s.node {
                        Stmt::ConnectorDecl { name, connector_type, params } => {
                            let mut d = format!("{}~{}", enc(name), enc(connector_type));
                            for p in params { d.push_str(&format!("~{}~{}", enc(&p.name), cv(&p.value))); }
                            ds.push(d);
                        }
                        _ => ds.push("?".to_string()),
                    }
                } else { others.push(ast_nospan(&s.node)); }
            }
            let rest = if append_mode { "na".to_string() } else {
                match varpulis_parser::parse(src) {
                    Ok(p0) => { let o0: Vec<String> = p0.statements.iter().map(|s| ast_nospan(&s.node)).collect(); if o0 == others { "same".to_string() } else { "diff".to_string() } }
                    Err(_) => "err-src".to_string(),
                }
            };
            ("ok".to_string(), ds.join("|"), rest)
        }
    };
    ctx.count(&format!("parse.{}", parse));
    ctx.count(&format!("rest.{}", rest));
    let srcparse = if varpulis_parser::parse(src).is_ok() { "ok" } else { "err" };
    ctx.count(&format!("srcparse.{}", srcparse));
    ctx.case(&op, &format!("valid={} out={} srcparse={} parse={} decls={} rest={}", valid, tok(&out), srcparse, parse, if decls.is_empty() { "-".to_string() } else { decls }, rest));
}

pub fn run(ctx: &mut Ctx, _name: &str) {
    std::panic::set_hook(Box::new(|_| {}));
    // witnesses of DESIGN.md section 7 (C39), one parameter each
    for v in ["007", "1e3", "inf", "a\"b", "1883", "", "\\", "a\\", "1.50", "-5", "99999999999999999999", "line1\nline2"] {
        ctx.directive("new witness");
        let mut params = HashMap::new();
        params.insert("host".to_string(), v.to_string());
        let c = ClusterConnector { name: "mqtt_in".into(), connector_type: "mqtt".into(), params, description: None };
        one(ctx, "stream Data = Tick.from(mqtt_in, topic: \"data\")\n", &[c]);
    }
    // every value of the pool once, as the only extra parameter
    for v in VALUES {
        ctx.directive("new pool");
        let mut params = HashMap::new();
        params.insert("host".to_string(), "h".to_string());
        params.insert("x".to_string(), v.to_string());
        let c = ClusterConnector { name: "k1".into(), connector_type: "mqtt".into(), params, description: None };
        one(ctx, "stream A = T .where(x > 1)\nstream Out = A .to(k1)\n", &[c]);
    }
    let n = if ctx.thorough { 20000 } else { 2500 };
    for it in 0..n {
        ctx.directive(&format!("new r{}", it));
        let n1 = if ctx.rng.chance(1, 15) { *ctx.rng.pick(NAMES_BAD) } else { *ctx.rng.pick(NAMES_OK) };
        let mut n2 = *ctx.rng.pick(NAMES_OK);
        if n2 == n1 { n2 = "other_conn"; }
        let src = ctx.rng.pick(SOURCES).replace("@N", n1).replace("@M", n2);
        let mut conns = vec![gen_connector(ctx, n1)];
        if ctx.rng.chance(1, 2) { conns.push(gen_connector(ctx, n2)); }
        if ctx.rng.chance(1, 6) { conns.push(gen_connector(ctx, "unused_conn")); }
        one(ctx, &src, &conns);
    }
}
