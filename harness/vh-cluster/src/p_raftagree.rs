//! C37: coordinators agree on the replicated state; acknowledged writes survive.
//! Part A — state-machine replay without consensus: the same committed log is applied on independent
//! `MemStore` instances in random batches with snapshots built and installed at random indices and in-memory
//! restarts (`apply_to_state_machine`, `get_snapshot_builder` / `build_snapshot`, `install_snapshot`).
//! Part B — 3-node clusters in one process over loopback HTTP (real openraft, real varpulis storage, state
//! machine, `raft_routes` and HTTP client) under a seeded schedule of message loss, delay, partitions, leader
//! isolation and restarts of the node that runs on the persistent store; per-node applied position and
//! state are read together (hook `verif_applied`), the committed log from the in-memory stores (hook
//! `verif_log`), faults come from the switch consulted by the HTTP raft client (hook `verif_fault`).
//! Every wait has a deadline; a missed deadline is an infrastructure error (exit 3), never a verdict.
use crate::util::Ctx;
use openraft::{CommittedLeaderId, Entry, EntryPayload, LogId, RaftSnapshotBuilder, RaftStorage};
use std::collections::BTreeMap;
use std::sync::Arc;
use std::time::{Duration, Instant};
use varpulis_cluster::connector_config::ClusterConnector;
use varpulis_cluster::model_registry::ModelRegistryEntry;
use varpulis_cluster::raft::network::verif_fault::{self, Fault};
use varpulis_cluster::raft::state_machine::CoordinatorState;
use varpulis_cluster::raft::store::{verif_applied, MemStore, SharedCoordinatorState, VerifLog};
use varpulis_cluster::raft::{ClusterCommand, TypeConfig, VarpulisRaft};
use varpulis_cluster::worker::WorkerCapacity;

pub const NAMES: &[&str] = &["C37"];

fn infra(msg: &str) -> ! {
    eprintln!("infrastructure error: {}", msg);
    std::process::exit(3);
}

// ---------------------------------------------------------------------------------------------
// commands: generator, line encoding, state dump
// ---------------------------------------------------------------------------------------------

fn gen_cmd(ctx: &mut Ctx, uniq: u64) -> (ClusterCommand, String) {
    let w = format!("w{}", ctx.rng.below(3));
    let g = format!("g{}", ctx.rng.below(3));
    let c = format!("c{}", ctx.rng.below(3));
    let m = format!("m{}", ctx.rng.below(3));
    let x = format!("x{}", ctx.rng.below(2));
    match ctx.rng.below(16) {
        0 | 1 => {
            let (cpu, run, mx) = (1 + ctx.rng.below(8) as usize, ctx.rng.below(3) as usize, 1 + ctx.rng.below(9) as usize);
            let addr = format!("a{}", uniq);
            (ClusterCommand::RegisterWorker { id: w.clone(), address: addr.clone(), api_key: "k".into(), capacity: WorkerCapacity { cpu_cores: cpu, pipelines_running: run, max_pipelines: mx } },
             format!("rw:{}:{}|k:{}:{}:{}", w, addr, cpu, run, mx))
        }
        2 => (ClusterCommand::DeregisterWorker { id: w.clone() }, format!("dw:{}", w)),
        3 => { let st = ctx.rng.pick(&["ready", "unhealthy", "draining", "odd"]).to_string(); (ClusterCommand::WorkerStatusChanged { id: w.clone(), status: st.clone() }, format!("ws:{}:{}", w, st)) }
        4 => {
            let n = ctx.rng.below(3);
            let a: Vec<String> = (0..n).map(|i| format!("p{}u{}", i, uniq)).collect();
            (ClusterCommand::WorkerPipelinesUpdated { id: w.clone(), assigned_pipelines: a.clone() }, format!("wp:{}:{}", w, if a.is_empty() { "-".into() } else { a.join("+") }))
        }
        5 => { let n = format!("n{}", uniq); (ClusterCommand::GroupDeployed { name: g.clone(), group: serde_json::json!({"name": n, "status": "running"}) }, format!("gd:{}:{}:running", g, n)) }
        6 => { let n = format!("n{}", uniq); (ClusterCommand::GroupUpdated { name: g.clone(), group: serde_json::json!({"name": n, "status": "failed"}) }, format!("gu:{}:{}:failed", g, n)) }
        7 => (ClusterCommand::GroupRemoved { name: g.clone() }, format!("gr:{}", g)),
        8 => {
            let with_id = !ctx.rng.chance(1, 5);
            let body = format!("b{}", uniq);
            let task = if with_id { serde_json::json!({"id": m, "status": "deploying", "x": body}) } else { serde_json::json!({"status": "deploying", "x": body}) };
            (ClusterCommand::MigrationStarted { task }, format!("ms:{}:deploying:{}", if with_id { m.clone() } else { "-".into() }, body))
        }
        9 => { let st = format!("s{}", uniq); (ClusterCommand::MigrationUpdated { id: m.clone(), status: st.clone() }, format!("mu:{}:{}", m, st)) }
        10 => (ClusterCommand::MigrationRemoved { id: m.clone() }, format!("mr:{}", m)),
        11 => { let t = format!("t{}", uniq); (ClusterCommand::ConnectorCreated { name: c.clone(), connector: conn(&c, &t) }, format!("cc:{}:{}~{}~", c, t, c)) }
        12 => { let t = format!("t{}", uniq); (ClusterCommand::ConnectorUpdated { name: c.clone(), connector: conn(&c, &t) }, format!("cu:{}:{}~{}~", c, t, c)) }
        13 => (ClusterCommand::ConnectorRemoved { name: c.clone() }, format!("cr:{}", c)),
        14 => {
            if ctx.rng.chance(1, 4) { (ClusterCommand::ScalingPolicySet { policy: None }, "sp:-".into()) }
            else { let p = format!("pol{}", uniq); (ClusterCommand::ScalingPolicySet { policy: Some(serde_json::json!(p)) }, format!("sp:{}", p)) }
        }
        _ => {
            if ctx.rng.chance(1, 3) { (ClusterCommand::ModelRemoved { name: x.clone() }, format!("mx:{}", x)) }
            else {
                let k = format!("key{}", uniq);
                (ClusterCommand::ModelRegistered { name: x.clone(), entry: ModelRegistryEntry { name: x.clone(), s3_key: k.clone(), format: "onnx".into(), inputs: vec![], outputs: vec![], size_bytes: 0, uploaded_at: "t".into(), description: String::new() } },
                 format!("mg:{}:{}", x, k))
            }
        }
    }
}

fn conn(name: &str, t: &str) -> ClusterConnector {
    ClusterConnector { name: name.to_string(), connector_type: t.to_string(), params: Default::default(), description: None }
}

/// the line encoding of a command that came back out of a log (inverse of `gen_cmd`'s second component)
fn enc_cmd(c: &ClusterCommand) -> String {
    match c {
        ClusterCommand::RegisterWorker { id, address, api_key, capacity } => format!("rw:{}:{}|{}:{}:{}:{}", id, address, api_key, capacity.cpu_cores, capacity.pipelines_running, capacity.max_pipelines),
        ClusterCommand::DeregisterWorker { id } => format!("dw:{}", id),
        ClusterCommand::WorkerStatusChanged { id, status } => format!("ws:{}:{}", id, status),
        ClusterCommand::WorkerPipelinesUpdated { id, assigned_pipelines } => format!("wp:{}:{}", id, if assigned_pipelines.is_empty() { "-".into() } else { assigned_pipelines.join("+") }),
        ClusterCommand::GroupDeployed { name, group } => format!("gd:{}:{}:{}", name, group["name"].as_str().unwrap_or("?"), group["status"].as_str().unwrap_or("?")),
        ClusterCommand::GroupUpdated { name, group } => format!("gu:{}:{}:{}", name, group["name"].as_str().unwrap_or("?"), group["status"].as_str().unwrap_or("?")),
        ClusterCommand::GroupRemoved { name } => format!("gr:{}", name),
        ClusterCommand::MigrationStarted { task } => format!("ms:{}:{}:{}", task.get("id").and_then(|v| v.as_str()).unwrap_or("-"), task["status"].as_str().unwrap_or("?"), task["x"].as_str().unwrap_or("?")),
        ClusterCommand::MigrationUpdated { id, status } => format!("mu:{}:{}", id, status),
        ClusterCommand::MigrationRemoved { id } => format!("mr:{}", id),
        ClusterCommand::ConnectorCreated { name, connector } => format!("cc:{}:{}~{}~", name, connector.connector_type, connector.name),
        ClusterCommand::ConnectorUpdated { name, connector } => format!("cu:{}:{}~{}~", name, connector.connector_type, connector.name),
        ClusterCommand::ConnectorRemoved { name } => format!("cr:{}", name),
        ClusterCommand::ScalingPolicySet { policy } => format!("sp:{}", policy.as_ref().and_then(|v| v.as_str()).unwrap_or("-")),
        ClusterCommand::ModelRegistered { name, entry } => format!("mg:{}:{}", name, entry.s3_key),
        ClusterCommand::ModelRemoved { name } => format!("mx:{}", name),
    }
}

fn enc_entry(e: &Entry<TypeConfig>) -> String {
    let p = match &e.payload { EntryPayload::Blank => "b".to_string(), EntryPayload::Normal(c) => enc_cmd(c), EntryPayload::Membership(_) => "m".to_string() };
    format!("{}/{}", e.log_id.leader_id.term, p)
}

fn sec(mut v: Vec<String>) -> String { v.sort(); if v.is_empty() { "-".into() } else { v.join(";") } }

/// canonical dump of a whole `CoordinatorState` (same layout as the C38 dumps, plus migrations and models)
fn dump_state(s: &CoordinatorState) -> String {
    let ws: Vec<String> = s.workers.iter().map(|(id, w)| {
        let mut a = w.assigned_pipelines.clone(); a.sort();
        format!("{},{}|{},{},{},{},{},{},{}", id, w.address, w.api_key, w.status, w.cpu_cores, w.pipelines_running, w.max_pipelines, w.events_processed, if a.is_empty() { "-".into() } else { a.join("+") })
    }).collect();
    let gs: Vec<String> = s.pipeline_groups.iter().map(|(k, g)| format!("{},{},{},-", k, g["name"].as_str().unwrap_or("?"), g["status"].as_str().unwrap_or("?"))).collect();
    let cs: Vec<String> = s.connectors.iter().map(|(n, c)| format!("{}={}~{}~", n, c.connector_type, c.name)).collect();
    let p = s.scaling_policy.as_ref().map(|v| v.as_str().unwrap_or("?").to_string()).unwrap_or("-".into());
    let ms: Vec<String> = s.active_migrations.iter().map(|(id, m)| format!("{}={}~{}", id, m["status"].as_str().unwrap_or("?"), m["x"].as_str().unwrap_or("?"))).collect();
    let xs: Vec<String> = s.models.iter().map(|(n, e)| format!("{}={}", n, e.s3_key)).collect();
    format!("W[{}] G[{}] C[{}] P[{}] M[{}] X[{}]", sec(ws), sec(gs), sec(cs), p, sec(ms), sec(xs))
}

// ---------------------------------------------------------------------------------------------
// Part A: state machines without consensus
// ---------------------------------------------------------------------------------------------

async fn part_a(ctx: &mut Ctx) {
    let scenarios = if ctx.thorough { 400 } else { 60 };
    for sc in 0..scenarios {
        ctx.directive("new ra");
        let n = 3 + ctx.rng.below(if ctx.thorough { 40 } else { 18 }) as usize;
        let mut entries: Vec<Entry<TypeConfig>> = Vec::new();
        let mut term = 1u64;
        for i in 0..n {
            if ctx.rng.chance(1, 7) { term += 1; }
            let payload = match ctx.rng.below(12) { 0 => EntryPayload::Blank, _ => EntryPayload::Normal(gen_cmd(ctx, sc * 1000 + i as u64).0) };
            entries.push(Entry { log_id: LogId::new(CommittedLeaderId::new(term, 1), i as u64), payload });
        }
        ctx.directive(&format!("clog {}", entries.iter().map(enc_entry).collect::<Vec<_>>().join(",")));
        let runs = 4 + ctx.rng.below(5);
        for _ in 0..runs {
            // one storage history: batches, snapshots, installs into a fresh store, restarts
            let mut store = MemStore::new();
            let mut applied = 0usize;
            let mut snap: Option<(openraft::SnapshotMeta<u64, varpulis_cluster::raft::RaftNode>, Vec<u8>, usize)> = None;
            let mut script: Vec<String> = Vec::new();
            let steps = 2 + ctx.rng.below(8);
            for _ in 0..steps {
                match ctx.rng.below(10) {
                    0..=5 => {
                        let k = (ctx.rng.below(6) as usize).min(n - applied);
                        if store.apply_to_state_machine(&entries[applied..applied + k]).await.is_err() { infra("apply_to_state_machine failed"); }
                        applied += k;
                        script.push(format!("a{}", k));
                        ctx.count("sm.apply_batch");
                    }
                    6 | 7 => {
                        let mut b = store.get_snapshot_builder().await;
                        match b.build_snapshot().await {
                            Ok(s) => { snap = Some((s.meta.clone(), s.snapshot.into_inner(), applied)); script.push("s".into()); ctx.count("sm.snapshot_built"); }
                            Err(_) => infra("build_snapshot failed"),
                        }
                    }
                    8 => {
                        if let Some((meta, data, at)) = &snap {
                            let mut fresh = MemStore::new();
                            if fresh.install_snapshot(meta, Box::new(std::io::Cursor::new(data.clone()))).await.is_err() { infra("install_snapshot failed"); }
                            store = fresh;
                            applied = *at;
                            script.push("i".into());
                            ctx.count("sm.snapshot_installed");
                        }
                    }
                    _ => { store = MemStore::new(); applied = 0; script.push("r".into()); ctx.count("sm.restart"); }
                }
            }
            // every second history runs to the end of the log: histories over one log then meet at the same position
            if ctx.rng.chance(1, 2) && applied < n {
                let k = n - applied;
                if store.apply_to_state_machine(&entries[applied..]).await.is_err() { infra("apply_to_state_machine failed"); }
                applied += k;
                script.push(format!("a{}", k));
                ctx.count("sm.run_to_end");
            }
            let (la, _) = store.last_applied_state().await.unwrap_or((None, Default::default()));
            // the store's own idea of its position (0 entries applied = None)
            let pos = la.map(|l| l.index as usize + 1).unwrap_or(0);
            let _ = applied;
            ctx.case(&format!("sm {}", script.join(" ")), &format!("{} {}", pos, dump_state(&store.state)));
        }
    }
}

// ---------------------------------------------------------------------------------------------
// Part B: 3-node clusters with faults
// ---------------------------------------------------------------------------------------------

pub struct NodeH {
    pub id: u64,
    pub raft: Arc<VarpulisRaft>,
    pub shared: SharedCoordinatorState,
    pub log: Option<VerifLog>,
    stop: Option<tokio::sync::oneshot::Sender<()>>,
    server: Option<tokio::task::JoinHandle<()>>,
}

pub struct Cluster {
    pub nodes: Vec<Option<NodeH>>, // index = id - 1; None while down
    pub addrs: Vec<String>,
    ports: Vec<u16>,
    persistent: Option<(u64, std::path::PathBuf)>,
}

fn free_port() -> u16 {
    let l = std::net::TcpListener::bind(("127.0.0.1", 0)).unwrap_or_else(|e| infra(&format!("no free port: {e}")));
    l.local_addr().map(|a| a.port()).unwrap_or_else(|e| infra(&format!("no free port: {e}")))
}

async fn start_node(id: u64, addrs: &[String], port: u16, persistent: Option<&std::path::Path>) -> Result<NodeH, String> {
    let boot = async {
        match persistent {
            Some(dir) => varpulis_cluster::raft::bootstrap_persistent(id, addrs, None, &dir.to_string_lossy()).await.map(|b| (b, None)),
            None => varpulis_cluster::raft::verif_bootstrap_mem(id, addrs, None).await.map(|(b, l)| (b, Some(l))),
        }
    };
    let (b, log) = match tokio::time::timeout(Duration::from_secs(90), boot).await {
        Ok(Ok(x)) => x,
        Ok(Err(e)) => return Err(format!("bootstrap of node {id}: {e}")),
        Err(_) => return Err(format!("bootstrap of node {id} timed out")),
    };
    let routes = varpulis_cluster::raft::routes::raft_routes(b.raft.clone(), None);
    let (tx, rx) = tokio::sync::oneshot::channel::<()>();
    match warp::serve(routes).try_bind_with_graceful_shutdown(([127, 0, 0, 1], port), async move { rx.await.ok(); }) {
        Ok((_, fut)) => {
            let server = tokio::spawn(fut);
            Ok(NodeH { id, raft: b.raft, shared: b.shared_state, log, stop: Some(tx), server: Some(server) })
        }
        Err(e) => { let _ = b.raft.shutdown().await; Err(format!("bind 127.0.0.1:{port}: {e}")) }
    }
}

async fn stop_node(mut n: NodeH) {
    if let Some(tx) = n.stop.take() { let _ = tx.send(()); }
    let _ = tokio::time::timeout(Duration::from_secs(30), n.raft.shutdown()).await;
    if let Some(s) = n.server.take() { s.abort(); let _ = s.await; }
    verif_applied::forget(&n.shared);
}

impl Cluster {
    /// ports are picked free and bound a moment later: a lost race is retried with new ports
    pub async fn start(persistent_node: Option<u64>, scratch: &std::path::Path) -> Cluster {
        for attempt in 0..8 {
            let ports: Vec<u16> = (0..3).map(|_| free_port()).collect();
            let addrs: Vec<String> = ports.iter().map(|p| format!("http://127.0.0.1:{}", p)).collect();
            let dir = scratch.join(format!("raft-{}", attempt));
            let _ = std::fs::remove_dir_all(&dir);
            let mut nodes: Vec<Option<NodeH>> = vec![None, None, None];
            let mut ok = true;
            // followers first: node 1 initialises the membership and asks for their votes at once
            for id in [2u64, 3, 1] {
                let p = if persistent_node == Some(id) { Some(dir.as_path()) } else { None };
                match start_node(id, &addrs, ports[(id - 1) as usize], p).await {
                    Ok(n) => nodes[(id - 1) as usize] = Some(n),
                    Err(e) => { eprintln!("cluster start attempt {attempt}: {e}"); ok = false; break; }
                }
            }
            if ok { return Cluster { nodes, addrs, ports, persistent: persistent_node.map(|i| (i, dir)) }; }
            for n in nodes.into_iter().flatten() { stop_node(n).await; }
        }
        infra("could not start a 3-node cluster on loopback (ports)");
    }
    pub fn live(&self) -> impl Iterator<Item = &NodeH> { self.nodes.iter().flatten() }
    /// the live node that is leader with the highest term, if any
    pub fn leader(&self) -> Option<(u64, u64)> {
        self.live().filter_map(|n| { let m = n.raft.metrics().borrow().clone(); if m.state == openraft::ServerState::Leader { Some((m.current_term, n.id)) } else { None } }).max().map(|(t, id)| (id, t))
    }
    pub async fn wait_leader(&self, secs: u64, among: &[u64]) -> (u64, u64) {
        let t0 = Instant::now();
        loop {
            if let Some((id, t)) = self.leader() { if among.contains(&id) { return (id, t); } }
            if t0.elapsed() > Duration::from_secs(secs) { infra(&format!("no leader among {:?} within {} s", among, secs)); }
            tokio::time::sleep(Duration::from_millis(50)).await;
        }
    }
    pub fn node(&self, id: u64) -> Option<&NodeH> { self.nodes[(id - 1) as usize].as_ref() }
    pub async fn shutdown(self) {
        verif_fault::clear();
        for n in self.nodes.into_iter().flatten() { stop_node(n).await; }
        if let Some((_, d)) = self.persistent { let _ = std::fs::remove_dir_all(d); }
    }
}

pub fn applied_of(n: &NodeH) -> (usize, CoordinatorState) {
    match verif_applied::get(&n.shared) {
        Some((idx, st)) => (idx.map(|i| i as usize + 1).unwrap_or(0), st),
        None => (0, CoordinatorState::default()),
    }
}

/// committed log: the entries, up to its applied position, of the in-memory node that has applied most
fn committed_log(c: &Cluster) -> Vec<Entry<TypeConfig>> {
    let mut best: Vec<Entry<TypeConfig>> = Vec::new();
    for n in c.live() {
        if let Some(log) = &n.log {
            let (a, _) = applied_of(n);
            let g = log.read().unwrap_or_else(|e| e.into_inner());
            let v: Vec<Entry<TypeConfig>> = (0..a as u64).filter_map(|i| g.get(&i).cloned()).collect();
            if v.len() == a && v.len() > best.len() { best = v; }
        }
    }
    best
}

/// one checkpoint: committed log, every node's own log, every node's (position, state), the leader
async fn checkpoint(ctx: &mut Ctx, c: &Cluster, tag: &str) {
    ctx.directive("round");
    // positions first, then the committed log: the log can only have grown, never shrunk, in between
    let snaps: Vec<(u64, usize, CoordinatorState)> = c.live().map(|n| { let (a, s) = applied_of(n); (n.id, a, s) }).collect();
    let clog = committed_log(c);
    let max_applied = snaps.iter().map(|x| x.1).max().unwrap_or(0);
    if clog.len() < max_applied {
        // the node that applied most is the persistent one (no log handle): wait for an in-memory node to catch up instead of guessing
        ctx.count("checkpoint.skipped_log_behind");
        return;
    }
    ctx.directive(&format!("clog {}", clog.iter().map(enc_entry).collect::<Vec<_>>().join(",")));
    for n in c.live() {
        if let Some(log) = &n.log {
            let a = snaps.iter().find(|x| x.0 == n.id).map(|x| x.1).unwrap_or(0);
            let g = log.read().unwrap_or_else(|e| e.into_inner());
            let first = g.keys().next().copied().unwrap_or(0);
            let mut es = Vec::new();
            let mut i = first;
            while let Some(e) = g.get(&i) { es.push(enc_entry(e)); i += 1; }
            ctx.case(&format!("nlog {} {} {} {}", n.id, first, a, if es.is_empty() { "-".to_string() } else { es.join(",") }), "ok");
        }
    }
    for (id, a, s) in &snaps {
        ctx.case(&format!("state {} {}", id, a), &dump_state(s));
        ctx.count(&format!("state.{}", tag));
    }
    if let Some((lid, term)) = c.leader() {
        if c.node(lid).map(|n| n.log.is_some()).unwrap_or(false) { ctx.case(&format!("leader {} {}", lid, term), "ok"); ctx.count("leader.checked"); }
    }
}

/// propose through whoever is leader; `Some((index, term))` when acknowledged
async fn write(ctx: &mut Ctx, c: &Cluster, cmd: ClusterCommand, reachable: &[u64]) -> Option<(u64, u64)> { write_t(ctx, c, cmd, reachable, 8).await }

async fn write_t(ctx: &mut Ctx, c: &Cluster, cmd: ClusterCommand, reachable: &[u64], secs: u64) -> Option<(u64, u64)> {
    let mut target = c.leader().map(|x| x.0).filter(|id| reachable.contains(id)).or_else(|| reachable.first().copied())?;
    for _ in 0..4 {
        let n = c.node(target)?;
        match tokio::time::timeout(Duration::from_secs(secs), n.raft.client_write(cmd.clone())).await {
            Ok(Ok(resp)) => { ctx.count("write.acked"); return Some((resp.log_id.index, resp.log_id.leader_id.term)); }
            Ok(Err(e)) => {
                ctx.count("write.refused");
                if let Some(f) = e.forward_to_leader() { if let Some(l) = f.leader_id { if reachable.contains(&l) && l != target { target = l; continue; } } }
                tokio::time::sleep(Duration::from_millis(300)).await;
                if let Some((l, _)) = c.leader() { if reachable.contains(&l) { target = l; } }
            }
            Err(_) => { ctx.count("write.timeout_unknown"); return None; }
        }
    }
    None
}

async fn settle(c: &Cluster, secs: u64) {
    // after a heal: all live nodes reach the leader's last log index
    let t0 = Instant::now();
    loop {
        if let Some((lid, _)) = c.leader() {
            if let Some(l) = c.node(lid) {
                let last = l.raft.metrics().borrow().last_log_index;
                let target = last.map(|i| i as usize + 1).unwrap_or(0);
                if c.live().all(|n| applied_of(n).0 == target) { return; }
            }
        }
        if t0.elapsed() > Duration::from_secs(secs) { infra(&format!("cluster did not converge within {} s after healing", secs)); }
        tokio::time::sleep(Duration::from_millis(100)).await;
    }
}

async fn part_b(ctx: &mut Ctx) {
    let clusters = if ctx.thorough { 8 } else { 2 };
    let scratch = ctx.scratch("c37");
    for ci in 0..clusters {
        ctx.directive("new ra");
        verif_fault::clear();
        verif_fault::seed(ctx.rng.next());
        let persistent = Some(1 + ctx.rng.below(3));
        let mut c = Cluster::start(persistent, &scratch).await;
        c.wait_leader(90, &[1, 2, 3]).await;
        let mut uniq = 100_000 * (ci + 1);
        let phases = if ctx.thorough { 10 } else { 5 };
        for _ in 0..phases {
            // a few writes on the healthy cluster
            for _ in 0..(1 + ctx.rng.below(3)) {
                uniq += 1;
                let (cmd, enc) = gen_cmd(ctx, uniq);
                let all = [1u64, 2, 3];
                let live: Vec<u64> = all.iter().copied().filter(|i| c.node(*i).is_some()).collect();
                if let Some((idx, term)) = write(ctx, &c, cmd, &live).await { ctx.directive(&format!("ack {} {} {}", idx, term, enc)); }
            }
            let all_ids = [1u64, 2, 3];
            match ctx.rng.below(6) {
                0 | 1 => { // isolate a node (often the leader), write on the majority side, look, heal
                    let victim = if ctx.rng.chance(2, 3) { c.leader().map(|x| x.0).unwrap_or(1) } else { 1 + ctx.rng.below(3) };
                    ctx.count(if Some(victim) == c.leader().map(|x| x.0) { "fault.isolate_leader" } else { "fault.isolate_follower" });
                    for o in all_ids { if o != victim { verif_fault::set(victim, o, Some(Fault::Drop)); verif_fault::set(o, victim, Some(Fault::Drop)); } }
                    let rest: Vec<u64> = all_ids.iter().copied().filter(|i| *i != victim && c.node(*i).is_some()).collect();
                    if rest.len() >= 2 {
                        c.wait_leader(120, &rest).await;
                        for _ in 0..(1 + ctx.rng.below(3)) {
                            uniq += 1;
                            let (cmd, enc) = gen_cmd(ctx, uniq);
                            if let Some((idx, term)) = write(ctx, &c, cmd, &rest).await { ctx.directive(&format!("ack {} {} {}", idx, term, enc)); }
                        }
                        // a write offered to the isolated node must not be acknowledged; whatever it answers, nothing may be lost
                        if ctx.rng.chance(1, 3) { uniq += 1; let (cmd, enc) = gen_cmd(ctx, uniq); if let Some((idx, term)) = write_t(ctx, &c, cmd, &[victim], 3).await { ctx.directive(&format!("ack {} {} {}", idx, term, enc)); ctx.count("write.acked_by_isolated_node"); } }
                    }
                    checkpoint(ctx, &c, "during_partition").await;
                    verif_fault::clear();
                }
                2 => { // lossy links
                    ctx.count("fault.lossy");
                    for a in all_ids { for b in all_ids { if a != b && ctx.rng.chance(1, 2) { verif_fault::set(a, b, Some(Fault::DropSome { num: 1 + ctx.rng.below(2), den: 3 })); } } }
                    for _ in 0..(2 + ctx.rng.below(3)) {
                        uniq += 1;
                        let (cmd, enc) = gen_cmd(ctx, uniq);
                        let live: Vec<u64> = all_ids.iter().copied().filter(|i| c.node(*i).is_some()).collect();
                        if let Some((idx, term)) = write(ctx, &c, cmd, &live).await { ctx.directive(&format!("ack {} {} {}", idx, term, enc)); }
                    }
                    checkpoint(ctx, &c, "during_loss").await;
                    verif_fault::clear();
                }
                3 => { // slow links
                    ctx.count("fault.delay");
                    for a in all_ids { for b in all_ids { if a != b && ctx.rng.chance(1, 2) { verif_fault::set(a, b, Some(Fault::DelayMs(50 + ctx.rng.below(400)))); } } }
                    for _ in 0..(1 + ctx.rng.below(3)) {
                        uniq += 1;
                        let (cmd, enc) = gen_cmd(ctx, uniq);
                        let live: Vec<u64> = all_ids.iter().copied().filter(|i| c.node(*i).is_some()).collect();
                        if let Some((idx, term)) = write(ctx, &c, cmd, &live).await { ctx.directive(&format!("ack {} {} {}", idx, term, enc)); }
                    }
                    checkpoint(ctx, &c, "during_delay").await;
                    verif_fault::clear();
                }
                4 => { // restart of the node on the persistent store
                    if let Some((pid, dir)) = c.persistent.clone() {
                        ctx.count(if Some(pid) == c.leader().map(|x| x.0) { "fault.restart_leader" } else { "fault.restart_follower" });
                        if let Some(n) = c.nodes[(pid - 1) as usize].take() { stop_node(n).await; }
                        let rest: Vec<u64> = all_ids.iter().copied().filter(|i| *i != pid).collect();
                        c.wait_leader(120, &rest).await;
                        uniq += 1;
                        let (cmd, enc) = gen_cmd(ctx, uniq);
                        if let Some((idx, term)) = write(ctx, &c, cmd, &rest).await { ctx.directive(&format!("ack {} {} {}", idx, term, enc)); }
                        checkpoint(ctx, &c, "node_down").await;
                        // come back on the same port and directory (the database lock may take a moment to go)
                        let t0 = Instant::now();
                        loop {
                            match start_node(pid, &c.addrs, c.ports[(pid - 1) as usize], Some(dir.as_path())).await {
                                Ok(n) => { c.nodes[(pid - 1) as usize] = Some(n); break; }
                                Err(e) => { if t0.elapsed() > Duration::from_secs(90) { infra(&format!("restart of node {pid}: {e}")); } tokio::time::sleep(Duration::from_millis(500)).await; }
                            }
                        }
                    }
                }
                _ => { ctx.count("fault.none"); }
            }
            // healed: everybody converges, then everybody is compared
            c.wait_leader(120, &[1, 2, 3]).await;
            settle(&c, 180).await;
            checkpoint(ctx, &c, "healed").await;
        }
        c.shutdown().await;
    }
    ctx.count_n("net.messages_passed", verif_fault::PASSED.load(std::sync::atomic::Ordering::Relaxed));
    ctx.count_n("net.messages_lost", verif_fault::LOST.load(std::sync::atomic::Ordering::Relaxed));
    let _ = std::fs::remove_dir_all(&scratch);
}

pub fn run(ctx: &mut Ctx, _name: &str) {
    let rt = tokio::runtime::Builder::new_multi_thread().worker_threads(4).enable_all().build().expect("runtime");
    rt.block_on(async {
        part_a(ctx).await;
        if std::env::var("VERIF_C37_NO_CLUSTER").is_err() { part_b(ctx).await; }
    });
    let _: BTreeMap<u8, u8> = BTreeMap::new();
}
