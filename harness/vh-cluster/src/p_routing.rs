//! C34: event routing to pipelines and replicas (find_target_pipeline, ReplicaGroup::select_replica,
//! Coordinator::resolve_inject_target and the target logic of Coordinator::inject_batch).
//! Groups are deployed through plan_deploy_group / commit_deploy_group with fabricated worker answers;
//! single injections go through `resolve_inject_target` on a request deserialised from the JSON body text,
//! batch injections through `inject_batch` against a loopback mock worker that records which pipeline
//! receives which event.
use crate::util::Ctx;
use std::collections::{BTreeSet, HashMap};
use std::hash::{Hash, Hasher};
use std::sync::{Arc, Mutex};
use varpulis_cluster::coordinator::{DeployResponse, DeployTaskResult, InjectBatchRequest, InjectEventRequest};
use varpulis_cluster::pipeline_group::{InterPipelineRoute, PipelineGroupSpec, PipelinePlacement};
use varpulis_cluster::worker::{WorkerId, WorkerNode};
use varpulis_cluster::{ClusterError, Coordinator};
use warp::Filter;

pub const NAMES: &[&str] = &["C34"];

type Log = Arc<Mutex<Vec<(String, i64)>>>;

/// loopback mock worker: records (pipeline id, seq) of every event of every batch request
async fn start_mock(log: Log) -> std::net::SocketAddr {
    let l = log.clone();
    let route = warp::path!("api" / "v1" / "pipelines" / String / "events-batch")
        .and(warp::post())
        .and(warp::body::json::<serde_json::Value>())
        .map(move |id: String, body: serde_json::Value| {
            let mut n = 0usize;
            if let Some(evs) = body.get("events").and_then(|e| e.as_array()) {
                let mut g = l.lock().unwrap();
                for e in evs {
                    let seq = e.get("fields").and_then(|f| f.get("seq"))
                        .and_then(|s| s.as_i64().or_else(|| s.as_str().and_then(|t| t.parse().ok()))).unwrap_or(-1);
                    g.push((id.clone(), seq));
                    n += 1;
                }
            }
            warp::reply::json(&serde_json::json!({"accepted": n, "output_events": []}))
        });
    let (addr, fut) = warp::serve(route).bind_ephemeral(([127, 0, 0, 1], 0));
    tokio::spawn(fut);
    addr
}

#[derive(Clone, Debug, PartialEq)]
enum Key { Int(i128), F8(i64), Str(String), Missing }

impl Key {
    fn token(&self) -> String {
        match self {
            Key::Int(i) => format!("i:{}", i),
            Key::F8(n) => format!("f:{}", n),
            Key::Str(s) => format!("s:{}", codes(s)),
            Key::Missing => "m".into(),
        }
    }
    /// the literal a client writes into a JSON body
    fn json_lit(&self) -> Option<String> {
        match self {
            Key::Int(i) => Some(i.to_string()),
            Key::F8(n) => Some(format!("{:?}", *n as f64 / 8.0)),
            Key::Str(s) => Some(serde_json::to_string(s).unwrap()),
            Key::Missing => None,
        }
    }
    /// the literal a client writes into an .evt line
    fn evt_lit(&self) -> Option<String> {
        match self {
            Key::Str(s) => {
                let mut o = String::from("\"");
                for c in s.chars() {
                    match c { '\\' => o.push_str("\\\\"), '"' => o.push_str("\\\""), '\n' => o.push_str("\\n"), '\t' => o.push_str("\\t"), c => o.push(c) }
                }
                o.push('"');
                Some(o)
            }
            k => k.json_lit(),
        }
    }
}

fn codes(s: &str) -> String {
    if s.is_empty() { "-".into() } else { s.chars().map(|c| (c as u32).to_string()).collect::<Vec<_>>().join(".") }
}

fn sip(s: &str) -> u64 {
    let mut h = std::collections::hash_map::DefaultHasher::new();
    s.to_string().hash(&mut h);
    h.finish()
}

const TYPES: &[&str] = &["a", "b", "ab", "abc", "ba", "c", "a*", "x"];
const PATS: &[&str] = &["*", "a*", "ab*", "a", "ab", "abc", "b", "b*", "c", "**", "a**", "x"];
const STR_ALPHA: &[char] = &['a', 'b', '5', ' ', '"', '\\', ',', ':', '}', '{', '\'', '\t', '\n', 'é', '*', '#'];

fn gen_key(ctx: &mut Ctx) -> Key {
    match ctx.rng.below(10) {
        0 => Key::Missing,
        1 | 2 => Key::Int(ctx.rng.range(-3, 12) as i128),
        3 => {
            let b: [i128; 9] = [i64::MAX as i128, i64::MAX as i128 + 1, u64::MAX as i128, u64::MAX as i128 + 1, i64::MIN as i128,
                i64::MIN as i128 - 1, (1i128 << 53) + 1, 100_000_000_000_000_000_000i128, 12_000_000_000_000_000_000i128];
            Key::Int(*ctx.rng.pick(&b) + if ctx.rng.chance(1, 4) { ctx.rng.range(-2, 2) as i128 } else { 0 })
        }
        4 | 5 => Key::F8(if ctx.rng.chance(1, 5) { ctx.rng.range(-8_000_000, 8_000_000) } else { ctx.rng.range(-40, 40) }),
        _ => {
            let n = ctx.rng.below(5);
            Key::Str((0..n).map(|_| *ctx.rng.pick(STR_ALPHA)).collect())
        }
    }
}

struct PipeSpec { name: String, n: usize, key: Option<String> }

struct Scn {
    coord: Coordinator,
    gid: String,
    id2name: HashMap<String, String>,
}

fn deploy(ctx: &mut Ctx, addr: &str, pipes: &[PipeSpec], routes: &[(String, Vec<String>)], fail_prob: u64) -> Scn {
    let mut coord = Coordinator::new();
    for w in ["w1", "w2"] {
        coord.register_worker(WorkerNode::new(WorkerId(w.into()), addr.to_string(), "k".into()));
    }
    let spec = PipelineGroupSpec {
        name: "g".into(),
        pipelines: pipes.iter().map(|p| PipelinePlacement {
            name: p.name.clone(), source: String::new(), worker_affinity: None, replicas: p.n, partition_key: p.key.clone(),
        }).collect(),
        routes: routes.iter().map(|(to, pats)| InterPipelineRoute {
            from_pipeline: "_external".into(), to_pipeline: to.clone(), event_types: pats.clone(), nats_subject: None,
        }).collect(),
    };
    ctx.directive("new g");
    for p in pipes { ctx.directive(&format!("pipe {} {} {}", p.name, p.n, p.key.as_deref().unwrap_or("-"))); }
    for (to, pats) in routes { ctx.directive(&format!("route {} {}", to, pats.join(" "))); }
    let plan = coord.plan_deploy_group(&spec).expect("plan");
    let mut id2name = HashMap::new();
    let mut results = Vec::new();
    for t in &plan.tasks {
        let fail = fail_prob > 0 && ctx.rng.chance(1, fail_prob);
        if fail { ctx.directive(&format!("fail {}", t.replica_name)); ctx.count("deploy.failed_replica"); }
        let id = format!("id-{}", t.replica_name.replace('#', "-"));
        id2name.insert(id.clone(), t.replica_name.clone());
        results.push(DeployTaskResult {
            replica_name: t.replica_name.clone(), pipeline_name: t.pipeline_name.clone(), worker_id: t.worker_id.clone(),
            worker_address: t.worker_address.clone(), worker_api_key: t.worker_api_key.clone(), replica_count: t.replica_count,
            outcome: if fail { Err("HTTP 500".into()) } else { Ok(DeployResponse { id, name: t.replica_name.clone(), status: "running".into() }) },
        });
    }
    let gid = coord.commit_deploy_group(plan, results).expect("commit");
    ctx.directive("commit");
    Scn { coord, gid, id2name }
}

fn single(ctx: &mut Ctx, scn: &Scn, ty: &str, key: &Key, seq: i64) {
    let mut fields = format!("\"seq\": {}", seq);
    if let Some(l) = key.json_lit() {
        if ctx.rng.chance(1, 2) { fields = format!("\"k\": {}, {}", l, fields); } else { fields = format!("{}, \"k\": {}", fields, l); }
    }
    let body = format!("{{\"event_type\": {}, \"fields\": {{{}}}}}", serde_json::to_string(ty).unwrap(), fields);
    let req: InjectEventRequest = match serde_json::from_str(&body) {
        Ok(r) => r,
        Err(e) => { eprintln!("generator error: body {body} rejected: {e}"); std::process::exit(3); }
    };
    let res = match scn.coord.resolve_inject_target(&scn.gid, &req) {
        Ok(t) => format!("to:{}", t.target_name),
        Err(ClusterError::GroupNotFound(_)) => "err:nogroup".into(),
        Err(ClusterError::RoutingFailed(m)) => {
            if m.starts_with("No target pipeline") { "err:noroute".into() }
            else if let Some(rest) = m.strip_prefix("Pipeline '") { format!("err:notdeployed:{}", rest.split('\'').next().unwrap_or("")) }
            else { format!("err:routing:{}", m.replace(' ', "_")) }
        }
        Err(e) => format!("err:other:{}", e.to_string().replace(' ', "_")),
    };
    ctx.count(if res.starts_with("to:") { "single.ok" } else { "single.err" });
    ctx.case(&format!("inj {} {}", ty, key.token()), &res);
}

fn batch(ctx: &mut Ctx, rt: &tokio::runtime::Runtime, log: &Log, scn: &Scn, evs: &[(String, Key, i64)]) {
    let mut text = String::new();
    if ctx.rng.chance(1, 4) { text.push_str("# batch\nBATCH 10\n"); }
    for (ty, key, seq) in evs {
        let line = match key.evt_lit() {
            Some(l) => if ctx.rng.chance(1, 2) { format!("{} {{ k: {}, seq: {} }}", ty, l, seq) } else { format!("{} {{ seq: {}, k: {} }}", ty, seq, l) },
            None => format!("{} {{ seq: {} }}", ty, seq),
        };
        text.push_str(&line);
        text.push('\n');
    }
    log.lock().unwrap().clear();
    let resp = rt.block_on(scn.coord.inject_batch(&scn.gid, InjectBatchRequest { events_text: text.clone() }));
    if let Err(e) = &resp { eprintln!("generator error: batch rejected: {e}\n{text}"); std::process::exit(3); }
    let got: HashMap<i64, String> = log.lock().unwrap().iter().map(|(id, s)| (*s, id.clone())).collect();
    for (ty, key, seq) in evs {
        let res = match got.get(seq) {
            Some(id) => scn.id2name.get(id).cloned().unwrap_or_else(|| format!("unknown-id:{}", id)),
            None => "lost".to_string(),
        };
        ctx.count(if res == "lost" { "batch.lost" } else { "batch.delivered" });
        ctx.case(&format!("bat {} {}", ty, key.token()), &res);
    }
}

/// hash oracle: DefaultHasher of the canonical strings of a key on both paths
fn oracle(ctx: &mut Ctx, keys: &[Key]) {
    let mut strs: BTreeSet<String> = BTreeSet::new();
    strs.insert(String::new());
    for k in keys {
        if let Some(l) = k.json_lit() {
            let v: serde_json::Value = serde_json::from_str(&l).expect("json literal");
            strs.insert(v.to_string());
        }
        if let Some(l) = k.evt_lit() {
            use varpulis_runtime::event_file::EventFileParser;
            if let Ok(evs) = EventFileParser::parse(&format!("T {{ k: {} }}", l)) {
                if let Some(v) = evs.first().and_then(|e| e.event.data.get("k")) {
                    if let Ok(j) = serde_json::to_value(v) { strs.insert(j.to_string()); }
                }
            }
        }
    }
    for s in strs { ctx.directive(&format!("H {} {}", codes(&s), sip(&s))); }
}

fn key_kind(k: &Key) -> &'static str {
    match k {
        Key::Int(i) if *i > i64::MAX as i128 && *i <= u64::MAX as i128 => "key.int_u64_only",
        Key::Int(i) if *i > u64::MAX as i128 || *i < i64::MIN as i128 => "key.int_beyond",
        Key::Int(_) => "key.int_i64", Key::F8(_) => "key.float", Key::Str(_) => "key.string", Key::Missing => "key.missing",
    }
}

pub fn run(ctx: &mut Ctx, _name: &str) {
    let rt = tokio::runtime::Builder::new_multi_thread().worker_threads(2).enable_all().build().expect("runtime");
    let log: Log = Arc::new(Mutex::new(Vec::new()));
    let addr = rt.block_on(start_mock(log.clone()));
    let addr = format!("http://{}", addr);

    // ---- part 1: route tables over the small alphabet, exhaustively (≤ 2 routes, one or two patterns), single path
    let small_pats = ["*", "a*", "ab*", "a", "ab", "b"];
    let small_types = ["a", "b", "ab", "abc", "ba", "c"];
    let pipes2 = || vec![PipeSpec { name: "p1".into(), n: 1, key: None }, PipeSpec { name: "p2".into(), n: 1, key: None }, PipeSpec { name: "p3".into(), n: 1, key: None }];
    let mut tables: Vec<Vec<(String, Vec<String>)>> = vec![vec![]];
    for p in small_pats { for to in ["p2", "p3"] { tables.push(vec![(to.to_string(), vec![p.to_string()])]); } }
    for p in small_pats { for q in small_pats {
        tables.push(vec![("p2".into(), vec![p.to_string()]), ("p3".into(), vec![q.to_string()])]);
        tables.push(vec![("p3".into(), vec![p.to_string(), q.to_string()]), ("p2".into(), vec!["*".to_string()])]);
    } }
    let mut seq = 0i64;
    for (i, t) in tables.iter().enumerate() {
        if !ctx.thorough && i % 3 != (ctx.seed % 3) as usize && i > 12 { continue; }
        let scn = deploy(ctx, &addr, &pipes2(), t, 0);
        for ty in small_types { seq += 1; single(ctx, &scn, ty, &Key::Missing, seq); ctx.count("table.exhaustive_case"); }
    }

    // ---- part 3: float literals with up to 17 significant digits through both paths (the two parsers,
    // serde_json and core::str::parse::<f64>, are outside the model): same literal, same replica?
    {
        let pipes = vec![PipeSpec { name: "p1".into(), n: 5, key: Some("k".into()) }];
        let scn = deploy(ctx, &addr, &pipes, &[], 0);
        let n = if ctx.thorough { 6000 } else { 600 };
        for i in 0..n {
            let f = loop {
                let f = match i % 4 {
                    0 => f64::from_bits(ctx.rng.next()),
                    3 => { // at most 15 significant digits, small decimal exponent: both parsers are exact here
                        let d = 1 + ctx.rng.below(15) as u32;
                        let m = ctx.rng.next() % 10u64.pow(d);
                        let e = ctx.rng.below(21) as i32;
                        let s = format!("{}e-{}", m, e);
                        let f: f64 = s.parse().unwrap_or(1.0);
                        if ctx.rng.chance(1, 2) { -f } else { f }
                    }
                    1 => (ctx.rng.next() % 100_000_000_000_000_000u64) as f64 / 10f64.powi(ctx.rng.below(20) as i32),
                    _ => (ctx.rng.next() as f64) * 10f64.powi(ctx.rng.range(-25, 5) as i32),
                };
                if f.is_finite() && f.abs() > 1e-40 && f.abs() < 1e40 { break f; }
            };
            let lit = format!("{:?}", f);
            seq += 1;
            let body = format!("{{\"event_type\": \"a\", \"fields\": {{\"k\": {}, \"seq\": {}}}}}", lit, seq);
            let req: InjectEventRequest = match serde_json::from_str(&body) { Ok(r) => r, Err(e) => { eprintln!("generator error: {body}: {e}"); std::process::exit(3); } };
            let s1 = scn.coord.resolve_inject_target(&scn.gid, &req).map(|t| t.target_name).unwrap_or_else(|e| format!("err:{}", e).replace(' ', "_"));
            log.lock().unwrap().clear();
            let text = format!("a {{ k: {}, seq: {} }}\n", lit, seq);
            let _ = rt.block_on(scn.coord.inject_batch(&scn.gid, InjectBatchRequest { events_text: text }));
            let s2 = log.lock().unwrap().first().and_then(|(id, _)| scn.id2name.get(id).cloned()).unwrap_or_else(|| "lost".into());
            ctx.count(if lit.contains('e') { "fkey.exponent_literal" } else { "fkey.plain_literal" });
            let sig = lit.trim_start_matches('-').split('e').next().unwrap_or("").replace('.', "").trim_start_matches('0').len(); // written digits
            ctx.count(if sig > 15 { "fkey.more_than_15_digits" } else { "fkey.up_to_15_digits" });
            if s1 != s2 { ctx.count("fkey.paths_disagree"); }
            ctx.case(&format!("fkey {}", lit), &format!("{},{}", s1, s2));
        }
    }

    // ---- part 2: random groups with replicas, both injection paths interleaved
    let scenarios = if ctx.thorough { 1500 } else { 150 };
    for _ in 0..scenarios {
        let np = match ctx.rng.below(12) { 0 => 0, 1..=4 => 1, 5..=8 => 2, _ => 3 };
        let mut pipes = Vec::new();
        for i in 0..np {
            let n = match ctx.rng.below(8) { 0 => 0, 1 | 2 => 1, x => (x - 1) as usize }; // 0,1,2..6 → capped below
            let n = n.min(5);
            let key = if ctx.rng.chance(3, 5) { Some("k".to_string()) } else { None };
            pipes.push(PipeSpec { name: format!("p{}", i + 1), n, key });
        }
        let nr = ctx.rng.below(4) as usize;
        let mut routes = Vec::new();
        for _ in 0..nr {
            let to = if np == 0 || ctx.rng.chance(1, 15) { "px".to_string() } else { format!("p{}", 1 + ctx.rng.below(np as u64)) };
            let k = 1 + ctx.rng.below(3) as usize;
            routes.push((to, (0..k).map(|_| ctx.rng.pick(PATS).to_string()).collect::<Vec<_>>()));
        }
        let scn = deploy(ctx, &addr, &pipes, &routes, 12);
        ctx.count(&format!("group.pipelines={}", np));
        for p in &pipes { ctx.count(&format!("replicas={}{}", p.n.max(1), if p.n.max(1) > 1 { if p.key.is_some() { ".hash" } else { ".rr" } } else { "" })); }
        let nk = 2 + ctx.rng.below(5) as usize;
        let keys: Vec<Key> = (0..nk).map(|_| gen_key(ctx)).collect();
        oracle(ctx, &keys);
        let n_ev = 20 + ctx.rng.below(25) as usize;
        let mut done = 0;
        while done < n_ev {
            if ctx.rng.chance(1, 2) {
                let ty = ctx.rng.pick(TYPES).to_string();
                let k = ctx.rng.pick(&keys).clone();
                seq += 1;
                ctx.count(key_kind(&k));
                single(ctx, &scn, &ty, &k, seq);
                done += 1;
            } else {
                let m = 1 + ctx.rng.below(5) as usize;
                let mut evs = Vec::new();
                for _ in 0..m {
                    seq += 1;
                    let k = ctx.rng.pick(&keys).clone();
                    ctx.count(key_kind(&k));
                    evs.push((ctx.rng.pick(TYPES).to_string(), k, seq));
                }
                batch(ctx, &rt, &log, &scn, &evs);
                ctx.count("batch.calls");
                done += m;
            }
        }
    }
}
