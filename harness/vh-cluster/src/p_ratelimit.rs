//! C30: RateLimiter / TokenBucket on a virtual clock.
//! Case lines (times are ticks of 1/512 s, so that the f64 token arithmetic is exact):
//!   new <enabled> <rate> <burst> <cap>
//!   check <client> <tick> => A <remaining> <reset_ns> ev=<client|-> tr=<tracked clients, sorted|->
//!                          | L <retry_ns> ev=… tr=… | panic ev=… tr=…
//!   cleanup <tick> <max_age_ticks> => tr=<tracked>
//!   checkns <client> <nanoseconds> => (same answer as check; off the grid, judged against the bound only)
use crate::util::{catch, Ctx};
use std::net::{IpAddr, Ipv4Addr};
use std::panic::AssertUnwindSafe;
use std::time::{Duration, Instant};
use varpulis_cluster::rate_limit::{verif_clock, RateLimitConfig, RateLimitResult, RateLimiter};

pub const NAMES: &[&str] = &["C30"];

const TICK_NS: u64 = 1_953_125; // 1/512 s

fn ip(i: u64) -> IpAddr { IpAddr::V4(Ipv4Addr::new(10, 0, 0, i as u8)) }
fn client_of(a: &IpAddr) -> u64 { match a { IpAddr::V4(v) => v.octets()[3] as u64, _ => 255 } }

fn fmt_set(v: &[u64]) -> String {
    if v.is_empty() { "-".to_string() } else { v.iter().map(|x| x.to_string()).collect::<Vec<_>>().join(",") }
}

struct Sys {
    rt: tokio::runtime::Runtime,
    base: Instant,
    lim: RateLimiter,
}

impl Sys {
    fn new(enabled: bool, rate: u32, burst: u32, cap: usize) -> Self {
        let rt = tokio::runtime::Builder::new_current_thread().build().unwrap();
        let cfg = RateLimitConfig { enabled, requests_per_second: rate, burst_size: burst, max_tracked_ips: cap };
        Sys { rt, base: Instant::now(), lim: RateLimiter::new(cfg) }
    }
    fn at(&self, tick: u64) { verif_clock::set(Some(self.base + Duration::from_nanos(tick * TICK_NS))); }
    fn tracked(&self) -> Vec<u64> {
        let mut v: Vec<u64> = self.rt.block_on(self.lim.verif_tracked()).iter().map(client_of).collect();
        v.sort();
        v
    }
    fn check(&self, c: u64, tick: u64) -> String {
        self.at(tick);
        let before = self.tracked();
        let r = catch(AssertUnwindSafe(|| self.rt.block_on(self.lim.check(ip(c)))));
        let after = self.tracked();
        let ev: Vec<String> = before.iter().filter(|x| !after.contains(x)).map(|x| x.to_string()).collect();
        let ev = if ev.is_empty() { "-".to_string() } else { ev.join(",") };
        let head = match r {
            Ok(RateLimitResult::Allowed { remaining, reset_after }) => format!("A {} {}", remaining, reset_after.as_nanos()),
            Ok(RateLimitResult::Limited { retry_after }) => format!("L {}", retry_after.as_nanos()),
            Err(_) => "panic".to_string(),
        };
        format!("{} ev={} tr={}", head, ev, fmt_set(&after))
    }
    /// off the 1/512 s grid: clock in nanoseconds (f64 rounding may differ from exact arithmetic,
    /// so only the property itself is judged on these answers, with a tolerance)
    fn check_ns(&self, c: u64, ns: u64) -> String {
        verif_clock::set(Some(self.base + Duration::from_nanos(ns)));
        let before = self.tracked();
        let r = catch(AssertUnwindSafe(|| self.rt.block_on(self.lim.check(ip(c)))));
        let after = self.tracked();
        let head = match r {
            Ok(RateLimitResult::Allowed { remaining, reset_after }) => format!("A {} {}", remaining, reset_after.as_nanos()),
            Ok(RateLimitResult::Limited { retry_after }) => format!("L {}", retry_after.as_nanos()),
            Err(_) => "panic".to_string(),
        };
        let ev: Vec<String> = before.iter().filter(|x| !after.contains(x)).map(|x| x.to_string()).collect();
        format!("{} ev={} tr={}", head, if ev.is_empty() { "-".to_string() } else { ev.join(",") }, fmt_set(&after))
    }
    fn cleanup(&self, tick: u64, age: u64) -> String {
        self.at(tick);
        self.rt.block_on(self.lim.cleanup(Duration::from_nanos(age * TICK_NS)));
        format!("tr={}", fmt_set(&self.tracked()))
    }
}

impl Drop for Sys { fn drop(&mut self) { verif_clock::set(None); } }

fn start(ctx: &mut Ctx, enabled: bool, rate: u32, burst: u32, cap: usize) -> Sys {
    ctx.directive(&format!("new {} {} {} {}", enabled as u8, rate, burst, cap));
    ctx.count(&format!("rate:{}", match rate { 0 => "0", 1 => "1", 2..=9 => "2-9", _ => "10-50" }));
    ctx.count(&format!("burst:{}", match burst { 0 => "0", 1 => "1", 2..=5 => "2-5", _ => "6-20" }));
    ctx.count(&format!("cap:{}", cap));
    Sys::new(enabled, rate, burst, cap)
}

fn do_check(ctx: &mut Ctx, sys: &Sys, c: u64, tick: u64) {
    let r = sys.check(c, tick);
    let k = r.split(' ').next().unwrap_or("").to_string();
    ctx.count(&format!("result:{}", k));
    if !r.contains("ev=-") { ctx.count("eviction"); }
    ctx.case(&format!("check {} {}", c, tick), &r);
}

fn random_scenario(ctx: &mut Ctx, long: bool) {
    let rate = match ctx.rng.below(10) { 0 => 0, 1 => 1, 2 => *ctx.rng.pick(&[2u32, 3, 4, 5, 7]), 3 => 50, _ => ctx.rng.range(0, 50) as u32 };
    let burst = match ctx.rng.below(8) { 0 => 0, 1 => 1, 2 => 20, _ => ctx.rng.range(0, 20) as u32 };
    let cap = match ctx.rng.below(12) { 0 => 0usize, 1 => 10_000, _ => ctx.rng.range(1, 4) as usize };
    let enabled = !ctx.rng.chance(1, 25);
    let sys = start(ctx, enabled, rate, burst, cap);
    let nclients = (cap.min(4) as u64) + 1 + ctx.rng.below(2);
    let focus = ctx.rng.below(nclients);
    let mut tick = ctx.rng.below(5000);
    let nops = if long { 40 + ctx.rng.below(80) } else { 15 + ctx.rng.below(40) };
    let per_token = if rate == 0 { 512 } else { (512 + rate as u64 - 1) / rate as u64 };
    for _ in 0..nops {
        let dt = match ctx.rng.below(12) {
            0..=3 => 0,
            4 => 1,
            5 => ctx.rng.below(8),
            6 => per_token,
            7 => per_token.saturating_sub(1),
            8 => per_token / 2,
            9 => ctx.rng.below(600),
            10 => 512 * (burst as u64 + 1) / (rate.max(1) as u64) + ctx.rng.below(3),
            _ => ctx.rng.below(3) * 512,
        };
        tick += dt;
        ctx.count(if dt == 0 { "dt:0" } else if dt < per_token { "dt:<1/rate" } else { "dt:>=1/rate" });
        if ctx.rng.chance(1, 60) {
            let age = ctx.rng.below(2000);
            let r = sys.cleanup(tick, age);
            ctx.count("cleanup");
            ctx.case(&format!("cleanup {} {}", tick, age), &r);
            continue;
        }
        let c = if ctx.rng.chance(3, 5) { focus } else { ctx.rng.below(nclients) };
        do_check(ctx, &sys, c, tick);
    }
}

/// arbitrary nanosecond clock readings: judged against the bound only (no model comparison)
fn offgrid_scenario(ctx: &mut Ctx) {
    let rate = match ctx.rng.below(6) { 0 => 0, 1 => 1, 2 => 3, 3 => 7, _ => ctx.rng.range(0, 50) as u32 };
    let burst = ctx.rng.range(0, 20) as u32;
    let cap = ctx.rng.range(1, 4) as usize;
    ctx.directive(&format!("new {} {} {} {}", 1, rate, burst, cap));
    ctx.count("offgrid-scenario");
    let sys = Sys::new(true, rate, burst, cap);
    let nclients = cap as u64 + ctx.rng.below(2);
    let focus = ctx.rng.below(nclients.max(1));
    let mut ns = ctx.rng.below(1_000_000_000);
    let per_token = if rate == 0 { 1_000_000_000 } else { 1_000_000_000 / rate as u64 };
    for _ in 0..(20 + ctx.rng.below(60)) {
        ns += match ctx.rng.below(8) {
            0 | 1 => 0,
            2 => per_token,
            3 => per_token - 1,
            4 => per_token + 1,
            5 => ctx.rng.below(per_token.max(1)),
            6 => ctx.rng.below(3_000_000_000),
            _ => per_token / 3,
        };
        let c = if ctx.rng.chance(3, 4) { focus } else { ctx.rng.below(nclients.max(1)) };
        let r = sys.check_ns(c, ns);
        ctx.count(&format!("offgrid:{}", r.split(' ').next().unwrap_or("")));
        ctx.case(&format!("checkns {} {}", c, ns), &r);
    }
}

/// every sequence of `len` requests over `nclients` clients and the time steps `dts`
fn exhaustive(ctx: &mut Ctx, rate: u32, burst: u32, cap: usize, nclients: u64, dts: &[u64], len: u32) {
    let alphabet = nclients * dts.len() as u64;
    let total = alphabet.pow(len);
    for code in 0..total {
        let sys = start(ctx, true, rate, burst, cap);
        let mut tick = 7;
        let mut k = code;
        for _ in 0..len {
            let sym = k % alphabet;
            k /= alphabet;
            tick += dts[(sym / nclients) as usize];
            do_check(ctx, &sys, sym % nclients, tick);
        }
    }
}

pub fn run(ctx: &mut Ctx, _name: &str) {
    // the recorded witness of the repaired defect: burst used up at rate 0
    {
        let sys = start(ctx, true, 0, 1, 2);
        do_check(ctx, &sys, 1, 0);
        do_check(ctx, &sys, 1, 512);
    }
    {
        let sys = start(ctx, true, 0, 0, 1);
        do_check(ctx, &sys, 1, 3);
    }
    let n = if ctx.thorough { 4000 } else { 350 };
    for i in 0..n { random_scenario(ctx, i % 5 == 0); }
    let n = if ctx.thorough { 4000 } else { 300 };
    for _ in 0..n { offgrid_scenario(ctx); }
    // small scopes, exhaustively
    let (len, rates, bursts): (u32, &[u32], &[u32]) = if ctx.thorough { (4, &[0, 1, 2, 3], &[0, 1, 2]) } else { (3, &[0, 1, 3], &[0, 1, 2]) };
    for &rate in rates {
        for &burst in bursts {
            for cap in 1..=2usize {
                exhaustive(ctx, rate, burst, cap, 3, &[0, 256, 512], len);
            }
        }
    }
    if ctx.thorough {
        // one level deeper for the configurations where refill and burst interact
        for &rate in &[0u32, 1, 2] {
            for &burst in &[1u32, 2] {
                for cap in 1..=2usize { exhaustive(ctx, rate, burst, cap, 3, &[0, 256, 512], 5); }
            }
        }
    }
    ctx.notes.push("times are multiples of 1/512 s: f64 token arithmetic is exact on this grid; retry-after compared within 2 ns".to_string());
}
