//! C32 / C33: the coordinator's public calls driven as histories over a virtual clock.
//! Every line carries the implementation's answer and a canonical dump of its state after the call
//! (`vmodel coord` validates each transition against the Lean model and judges the properties).
//! Worker calls never leave the process except for the monolithic migrate / failover / drain paths, which
//! talk to a loopback mock worker whose deploy outcomes are scripted by the generator.
use crate::util::Ctx;
use std::collections::{HashMap, HashSet, VecDeque};
use std::sync::{Arc, Mutex};
use varpulis_cluster::clock;
use varpulis_cluster::coordinator::{
    DeployGroupPlan, DeployResponse, DeployTaskResult, MigratePipelinePlan, TeardownPlan,
};
use varpulis_cluster::pipeline_group::{PipelineDeploymentStatus, PipelineGroupSpec, PipelinePlacement};
use varpulis_cluster::{
    ClusterError, Coordinator, HeartbeatRequest, MigrationReason, MigrationStatus, WorkerCapacity, WorkerId, WorkerNode,
    WorkerStatus,
};
use warp::Filter;

pub const NAMES: &[&str] = &["C32", "C33"];

type Script = Arc<Mutex<VecDeque<bool>>>;

/// mock worker: `POST /<w>/api/v1/pipelines` answers 201 or 500 according to the script (default 201)
async fn start_mock(script: Script) -> std::net::SocketAddr {
    let counter = Arc::new(Mutex::new(0u64));
    let route = warp::path!(String / "api" / "v1" / "pipelines")
        .and(warp::post())
        .and(warp::body::json::<serde_json::Value>())
        .map(move |_w: String, body: serde_json::Value| {
            let ok = script.lock().unwrap().pop_front().unwrap_or(true);
            if ok {
                let mut c = counter.lock().unwrap();
                *c += 1;
                warp::reply::with_status(
                    warp::reply::json(&serde_json::json!({"id": format!("mid-{}", *c), "name": body["name"], "status": "running"})),
                    warp::http::StatusCode::CREATED,
                )
            } else {
                warp::reply::with_status(warp::reply::json(&serde_json::json!({"error": "scripted failure"})), warp::http::StatusCode::INTERNAL_SERVER_ERROR)
            }
        });
    let (addr, fut) = warp::serve(route).bind_ephemeral(([127, 0, 0, 1], 0));
    tokio::spawn(fut);
    addr
}

fn wid(n: u64) -> WorkerId { WorkerId(format!("w{}", n)) }
fn wnum(id: &WorkerId) -> u64 { id.0.trim_start_matches('w').parse().unwrap_or(0) }

#[derive(Clone)]
struct Spec { name: String, aff: Option<u64>, replicas: usize }

fn specs_text(specs: &[Spec]) -> String {
    if specs.is_empty() { return "-".into(); }
    specs.iter().map(|s| format!("{}:{}:{}", s.name, s.aff.map(|a| a.to_string()).unwrap_or("-".into()), s.replicas)).collect::<Vec<_>>().join(",")
}

struct World {
    coord: Coordinator,
    base: String,
    now: u64,
    gids: HashMap<String, u64>,
    next_gid: u64,
    seen_migs: HashSet<String>,
    script: Script,
}

impl World {
    fn gid_of(&mut self, g: &str) -> u64 {
        if let Some(i) = self.gids.get(g) { return *i; }
        self.next_gid += 1;
        self.gids.insert(g.to_string(), self.next_gid);
        self.next_gid
    }
    fn gid_str(&self, i: u64) -> String {
        self.gids.iter().find(|(_, v)| **v == i).map(|(k, _)| k.clone()).unwrap_or_else(|| format!("no-such-group-{}", i))
    }
    fn dump(&mut self) -> String {
        let mut ws: Vec<String> = Vec::new();
        let mut ids: Vec<&WorkerId> = self.coord.workers.keys().collect();
        ids.sort_by_key(|i| wnum(i));
        for id in ids {
            let w = &self.coord.workers[id];
            let mut a = w.assigned_pipelines.clone();
            a.sort();
            ws.push(format!("{},{},{},{},{},{},{}", wnum(id), w.status, w.capacity.pipelines_running, w.capacity.max_pipelines,
                w.capacity.cpu_cores, clock::verif_ms_of(w.last_heartbeat), if a.is_empty() { "-".to_string() } else { a.join("+") }));
        }
        let mut gkeys: Vec<String> = self.coord.pipeline_groups.keys().cloned().collect();
        gkeys.sort_by_key(|k| self.gids.get(k).copied().unwrap_or(u64::MAX));
        let mut ps: Vec<(u64, String, String)> = Vec::new();
        let mut gs: Vec<u64> = Vec::new();
        for g in gkeys {
            let gi = self.gid_of(&g);
            gs.push(gi);
            for (n, d) in &self.coord.pipeline_groups[&g].placements {
                let st = match d.status { PipelineDeploymentStatus::Running => "running", PipelineDeploymentStatus::Failed => "failed", _ => "other" };
                ps.push((gi, n.clone(), format!("{},{},{},{},{},{}", gi, n, wnum(&d.worker_id), st, if d.pipeline_id.is_empty() { 0 } else { 1 }, d.epoch)));
            }
        }
        ps.sort();
        gs.sort();
        let mut nr: Vec<u64> = self.coord.pipeline_groups.iter()
            .filter(|(_, g)| g.status != varpulis_cluster::pipeline_group::GroupStatus::Running)
            .map(|(k, _)| self.gids.get(k).copied().unwrap_or(0)).collect();
        nr.sort();
        format!("W[{}] P[{}] G[{}] S[{}]", ws.join(";"), ps.iter().map(|p| p.2.clone()).collect::<Vec<_>>().join(";"),
            gs.iter().map(|g| g.to_string()).collect::<Vec<_>>().join(","), nr.iter().map(|g| g.to_string()).collect::<Vec<_>>().join(","))
    }
    fn emit(&mut self, ctx: &mut Ctx, op: &str, answer: &str) {
        let d = self.dump();
        ctx.count(&format!("op.{}", op.split(' ').next().unwrap_or("")));
        ctx.case(op, &format!("{} | {}", answer, d));
    }
    fn set_time(&mut self, t: u64) { if t > self.now { self.now = t; } clock::verif_set_ms(self.now); }

    fn register(&mut self, ctx: &mut Ctx, w: u64, max: usize, cores: usize, r0: usize) {
        clock::verif_set_ms(self.now);
        let mut node = WorkerNode::new(wid(w), format!("{}/w{}", self.base, w), "k".into());
        node.capacity = WorkerCapacity { cpu_cores: cores, pipelines_running: r0, max_pipelines: max };
        self.coord.register_worker(node);
        let now = self.now;
        self.emit(ctx, &format!("reg {} {} {} {} {}", w, max, cores, r0, now), "ok");
    }
    fn heartbeat(&mut self, ctx: &mut Ctx, w: u64, n: usize) {
        clock::verif_set_ms(self.now);
        let r = self.coord.heartbeat(&wid(w), &HeartbeatRequest { events_processed: 0, pipelines_running: n, pipeline_metrics: vec![] });
        let now = self.now;
        self.emit(ctx, &format!("hb {} {} {}", w, n, now), if r.is_ok() { "ok" } else { "notfound" });
    }
    fn deregister(&mut self, ctx: &mut Ctx, w: u64) {
        let r = self.coord.deregister_worker(&wid(w));
        self.emit(ctx, &format!("dereg {}", w), if r.is_ok() { "ok" } else { "notfound" });
    }
    fn sweep(&mut self, ctx: &mut Ctx) -> Vec<u64> {
        clock::verif_set_ms(self.now);
        let r = self.coord.health_sweep();
        let mut m: Vec<u64> = r.workers_marked_unhealthy.iter().map(wnum).collect();
        m.sort();
        let now = self.now;
        let a = if m.is_empty() { "m:-".to_string() } else { format!("m:{}", m.iter().map(|x| x.to_string()).collect::<Vec<_>>().join(",")) };
        self.emit(ctx, &format!("sweep {}", now), &a);
        m
    }
    fn drainmark(&mut self, ctx: &mut Ctx, w: u64) {
        if let Some(n) = self.coord.workers.get_mut(&wid(w)) { n.status = WorkerStatus::Draining; }
        self.emit(ctx, &format!("drainmark {}", w), "ok");
    }
    fn setstatus(&mut self, ctx: &mut Ctx, w: u64, st: WorkerStatus) {
        let name = st.to_string();
        if let Some(n) = self.coord.workers.get_mut(&wid(w)) { n.status = st; }
        self.emit(ctx, &format!("setstatus {} {}", w, name), "ok");
    }
    fn mk_spec(specs: &[Spec]) -> PipelineGroupSpec {
        PipelineGroupSpec {
            name: "g".into(),
            pipelines: specs.iter().map(|s| PipelinePlacement {
                name: s.name.clone(), source: "stream X = Y".into(), worker_affinity: s.aff.map(|a| format!("w{}", a)),
                replicas: s.replicas, partition_key: None,
            }).collect(),
            routes: vec![],
        }
    }
    /// monolithic `deploy_group` against the mock worker with scripted deploy outcomes
    fn dgroup(&mut self, ctx: &mut Ctx, rt: &tokio::runtime::Runtime, specs: &[Spec], outcomes: &[bool]) {
        let before: HashSet<String> = self.coord.pipeline_groups.keys().cloned().collect();
        { let mut s = self.script.lock().unwrap(); s.clear(); s.extend(outcomes.iter().copied()); }
        let r = rt.block_on(self.coord.deploy_group(Self::mk_spec(specs)));
        self.script.lock().unwrap().clear();
        let newg: Option<String> = self.coord.pipeline_groups.keys().find(|k| !before.contains(*k)).cloned();
        match newg {
            None => {
                let a = match r { Err(ClusterError::NoWorkersAvailable) => "noworkers".to_string(), Err(e) => format!("err:{}", e.to_string().replace(' ', "_")), Ok(_) => "ok-without-group".into() };
                self.emit(ctx, &format!("dgroup 0 {} -", specs_text(specs)), &a);
            }
            Some(g) => {
                let gi = self.gid_of(&g);
                let mut res: Vec<String> = Vec::new();
                'outer: for sp in specs {
                    let c = sp.replicas.max(1);
                    for i in 0..c {
                        let name = if c > 1 { format!("{}#{}", sp.name, i) } else { sp.name.clone() };
                        match self.coord.pipeline_groups[&g].placements.get(&name) {
                            Some(d) => res.push(format!("{}@{}:{}", name, wnum(&d.worker_id), if d.status == PipelineDeploymentStatus::Running { 1 } else { 0 })),
                            None => break 'outer,
                        }
                    }
                }
                let a = match r { Ok(_) => "ok".to_string(), Err(ClusterError::NoWorkersAvailable) => "noworkers".to_string(), Err(e) => format!("err:{}", e.to_string().replace(' ', "_")) };
                self.emit(ctx, &format!("dgroup {} {} {}", gi, specs_text(specs), if res.is_empty() { "-".to_string() } else { res.join(",") }), &a);
            }
        }
    }
    /// `reconcile_placements` with every re-deploy succeeding or every one failing
    fn reconcile(&mut self, ctx: &mut Ctx, rt: &tokio::runtime::Runtime, ok: bool) {
        { let mut s = self.script.lock().unwrap(); s.clear(); if !ok { s.extend(std::iter::repeat(false).take(64)); } }
        let n = rt.block_on(self.coord.reconcile_placements());
        self.script.lock().unwrap().clear();
        if n > 0 { ctx.count("reconcile.redeployed_something"); }
        self.emit(ctx, &format!("reconcile {}", if ok { "ok" } else { "fail" }), &format!("n:{}", n));
    }
    fn plan(&mut self, ctx: &mut Ctx, specs: &[Spec]) -> Option<DeployGroupPlan> {
        let spec = Self::mk_spec(specs);
        match self.coord.plan_deploy_group(&spec) {
            Ok(p) => {
                let t = p.tasks.iter().map(|t| format!("{}@{}", t.replica_name, wnum(&t.worker_id))).collect::<Vec<_>>().join(",");
                self.emit(ctx, &format!("plan {}", specs_text(specs)), &format!("t:{}", if t.is_empty() { "-".into() } else { t }));
                Some(p)
            }
            Err(ClusterError::NoWorkersAvailable) => { self.emit(ctx, &format!("plan {}", specs_text(specs)), "noworkers"); None }
            Err(e) => { self.emit(ctx, &format!("plan {}", specs_text(specs)), &format!("err:{}", e.to_string().replace(' ', "_"))); None }
        }
    }
    fn commit(&mut self, ctx: &mut Ctx, plan: DeployGroupPlan, specs: &[Spec], outcomes: &[bool]) -> u64 {
        let mut res = Vec::new();
        let mut txt = Vec::new();
        for (i, t) in plan.tasks.iter().enumerate() {
            let ok = outcomes.get(i).copied().unwrap_or(true);
            txt.push(format!("{}@{}:{}", t.replica_name, wnum(&t.worker_id), if ok { 1 } else { 0 }));
            res.push(DeployTaskResult {
                replica_name: t.replica_name.clone(), pipeline_name: t.pipeline_name.clone(), worker_id: t.worker_id.clone(),
                worker_address: t.worker_address.clone(), worker_api_key: t.worker_api_key.clone(), replica_count: t.replica_count,
                outcome: if ok { Ok(DeployResponse { id: format!("id-{}", t.replica_name.replace('#', "-")), name: t.replica_name.clone(), status: "running".into() }) } else { Err("HTTP 500".into()) },
            });
        }
        let gid = self.coord.commit_deploy_group(plan, res).expect("commit");
        let gi = self.gid_of(&gid);
        self.emit(ctx, &format!("commit {} {} {}", gi, specs_text(specs), if txt.is_empty() { "-".to_string() } else { txt.join(",") }), "ok");
        gi
    }
    fn tdplan(&mut self, ctx: &mut Ctx, gi: u64) -> Option<TeardownPlan> {
        let g = self.gid_str(gi);
        match self.coord.plan_teardown_group(&g) {
            Ok(p) => {
                let mut t: Vec<String> = p.tasks.iter().map(|(n, d)| format!("{}@{}", n, wnum(&d.worker_id))).collect();
                t.sort();
                self.emit(ctx, &format!("tdplan {}", gi), &format!("t:{}", if t.is_empty() { "-".to_string() } else { t.join(",") }));
                Some(p)
            }
            Err(_) => { self.emit(ctx, &format!("tdplan {}", gi), "nogroup"); None }
        }
    }
    fn tdcommit(&mut self, ctx: &mut Ctx, gi: u64, p: &TeardownPlan) {
        let t: Vec<String> = p.tasks.iter().map(|(n, d)| format!("{}@{}", n, wnum(&d.worker_id))).collect();
        self.coord.commit_teardown_group(p);
        self.emit(ctx, &format!("tdcommit {} {}", gi, if t.is_empty() { "-".to_string() } else { t.join(",") }), "ok");
    }
    fn mig_err(e: &ClusterError) -> String {
        match e {
            ClusterError::GroupNotFound(_) => "err:groupnotfound".into(),
            ClusterError::WorkerNotFound(_) => "err:workernotfound".into(),
            ClusterError::WorkerDraining(_) => "err:unavailable".into(),
            ClusterError::MigrationFailed(m) if m.contains("not found in group") => "err:pipelinenotfound".into(),
            ClusterError::MigrationFailed(m) if m.starts_with("Target worker") => "err:unavailable".into(),
            ClusterError::MigrationFailed(m) if m.starts_with("Deploy") || m.contains("error sending") || m.contains("deploy") => "err:deploy".into(),
            e => format!("err:other:{}", e.to_string().replace(' ', "_")),
        }
    }
    fn mplan(&mut self, ctx: &mut Ctx, gi: u64, name: &str, target: u64) -> Option<MigratePipelinePlan> {
        let g = self.gid_str(gi);
        match self.coord.plan_migrate_pipeline(name, &g, &wid(target), MigrationReason::Manual) {
            Ok(p) => {
                self.emit(ctx, &format!("mplan {} {} {}", gi, name, target), &format!("ok:{}:{}", wnum(&p.source_worker_id), p.deployment.epoch));
                Some(p)
            }
            Err(e) => { let a = Self::mig_err(&e); self.emit(ctx, &format!("mplan {} {} {}", gi, name, target), &a); None }
        }
    }
    fn mcommit(&mut self, ctx: &mut Ctx, p: &MigratePipelinePlan, ok: bool) {
        let gi = self.gid_of(&p.group_id.clone());
        self.coord.commit_migrate_pipeline(p, if ok { "new-id" } else { "" }, ok, if ok { None } else { Some("scripted".into()) });
        self.note_migs();
        self.emit(ctx, &format!("mcommit {} {} {} {} {} {}", gi, p.pipeline_name, wnum(&p.source_worker_id), wnum(&p.target_worker_id), p.deployment.epoch, if ok { 1 } else { 0 }), "ok");
    }
    fn migrate(&mut self, ctx: &mut Ctx, rt: &tokio::runtime::Runtime, gi: u64, name: &str, target: u64, ok: bool) {
        let g = self.gid_str(gi);
        { let mut s = self.script.lock().unwrap(); s.clear(); s.push_back(ok); }
        let r = rt.block_on(self.coord.migrate_pipeline(name, &g, &wid(target), MigrationReason::Manual));
        self.script.lock().unwrap().clear();
        self.note_migs();
        let a = match r { Ok(_) => "ok".to_string(), Err(e) => Self::mig_err(&e) };
        self.emit(ctx, &format!("migrate {} {} {} {}", gi, name, target, if ok { 1 } else { 0 }), &a);
    }
    fn note_migs(&mut self) -> Vec<String> {
        let mut new: Vec<(std::time::Instant, String)> = Vec::new();
        let entries: Vec<(String, std::time::Instant, String, String, u64, bool)> = self.coord.active_migrations.values()
            .map(|m| (m.id.clone(), m.started_at, m.group_id.clone(), m.pipeline_name.clone(), wnum(&m.target_worker), m.status == MigrationStatus::Completed)).collect();
        for (id, at, g, n, t, ok) in entries {
            if self.seen_migs.insert(id) {
                let gi = self.gid_of(&g);
                new.push((at, format!("{}/{}>{}:{}", gi, n, t, if ok { 1 } else { 0 })));
            }
        }
        new.sort();
        new.into_iter().map(|x| x.1).collect()
    }
    fn failover(&mut self, ctx: &mut Ctx, rt: &tokio::runtime::Runtime, w: u64, outcomes: &[bool]) {
        self.note_migs();
        { let mut s = self.script.lock().unwrap(); s.clear(); s.extend(outcomes.iter().copied()); }
        let res = rt.block_on(self.coord.handle_worker_failure(&wid(w)));
        self.script.lock().unwrap().clear();
        let mut migs = self.note_migs();
        for r in &res { if let Err(ClusterError::NoWorkersAvailable) = r { migs.push("0/x>none:0".into()); } }
        self.emit(ctx, &format!("failover {}", w), &format!("m:{}", if migs.is_empty() { "-".to_string() } else { migs.join(",") }));
    }
    fn drain(&mut self, ctx: &mut Ctx, rt: &tokio::runtime::Runtime, w: u64, outcomes: &[bool]) {
        self.note_migs();
        let existed = self.coord.workers.get(&wid(w)).map(|n| n.status.clone());
        let placed: usize = self.coord.pipeline_groups.values().map(|g| g.placements.values().filter(|d| d.worker_id == wid(w)).count()).sum();
        { let mut s = self.script.lock().unwrap(); s.clear(); s.extend(outcomes.iter().copied()); }
        let res = rt.block_on(self.coord.drain_worker(&wid(w), None));
        self.script.lock().unwrap().clear();
        let mut migs = self.note_migs();
        let a = match (existed, res) {
            (None, _) => "notfound".to_string(),
            (Some(WorkerStatus::Draining), _) => "already".to_string(),
            (Some(_), _) => {
                for _ in migs.len()..placed { migs.push("0/x>none:0".into()); }
                format!("m:{}", if migs.is_empty() { "-".to_string() } else { migs.join(",") })
            }
        };
        self.emit(ctx, &format!("drain {}", w), &a);
    }
    fn rebalance(&mut self, ctx: &mut Ctx, rt: &tokio::runtime::Runtime, outcomes: &[bool]) {
        self.note_migs();
        { let mut s = self.script.lock().unwrap(); s.clear(); s.extend(outcomes.iter().copied()); }
        let _ = rt.block_on(self.coord.rebalance());
        self.script.lock().unwrap().clear();
        let migs = self.note_migs();
        if !migs.is_empty() { ctx.count("rebalance.moved_something"); }
        self.emit(ctx, "rebalance", &format!("m:{}", if migs.is_empty() { "-".to_string() } else { migs.join(",") }));
    }
    /// (group index, placement name, worker) of all placements
    fn placements(&mut self) -> Vec<(u64, String, u64)> {
        let gkeys: Vec<String> = self.coord.pipeline_groups.keys().cloned().collect();
        let mut v = Vec::new();
        for g in gkeys {
            let gi = self.gid_of(&g);
            for (n, d) in &self.coord.pipeline_groups[&g].placements { v.push((gi, n.clone(), wnum(&d.worker_id))); }
        }
        v.sort();
        v
    }
    fn groups(&mut self) -> Vec<u64> {
        let gkeys: Vec<String> = self.coord.pipeline_groups.keys().cloned().collect();
        let mut v: Vec<u64> = gkeys.iter().map(|g| self.gid_of(g)).collect();
        v.sort();
        v
    }
    fn worker_ids(&self) -> Vec<u64> { let mut v: Vec<u64> = self.coord.workers.keys().map(wnum).collect(); v.sort(); v }
    fn assigned_len(&self, w: u64) -> usize { self.coord.workers.get(&wid(w)).map(|n| n.assigned_pipelines.len()).unwrap_or(0) }
}

fn new_world(ctx: &mut Ctx, base: &str, script: &Script, timeout_ms: u64, book: bool) -> World {
    let mut coord = Coordinator::new();
    coord.heartbeat_timeout = std::time::Duration::from_millis(timeout_ms);
    clock::verif_set_ms(0);
    ctx.directive(&format!("new c {}{}", timeout_ms, if book { "" } else { " nobook" }));
    World { coord, base: base.to_string(), now: 0, gids: HashMap::new(), next_gid: 0, seen_migs: HashSet::new(), script: script.clone() }
}

/// skewed start: everything is deployed while only worker 1 exists, then the other workers join, so that
/// `rebalance` has real work
fn skew_prologue(ctx: &mut Ctx, rt: &tokio::runtime::Runtime, w: &mut World, nw: u64) {
    w.register(ctx, 1, 100, 2, 0);
    let groups = 2 + ctx.rng.below(3);
    for gi in 0..groups {
        let specs = vec![Spec { name: format!("s{}", gi), aff: None, replicas: 2 + ctx.rng.below(3) as usize }];
        if ctx.rng.chance(1, 2) { w.dgroup(ctx, rt, &specs, &[]); }
        else if let Some(p) = w.plan(ctx, &specs) { let o: Vec<bool> = p.tasks.iter().map(|_| true).collect(); w.commit(ctx, p, &specs, &o); }
    }
    for i in 2..=nw { let c = *ctx.rng.pick(&[1usize, 2, 4]); w.register(ctx, i, 100, c, 0); }
    ctx.count("skewed_start");
    let o: Vec<bool> = (0..12).map(|_| !ctx.rng.chance(1, 8)).collect();
    w.rebalance(ctx, rt, &o);
}

fn gen_specs(ctx: &mut Ctx, names: &[&str], max_worker: u64) -> Vec<Spec> {
    let n = 1 + ctx.rng.below(2) as usize;
    let mut used: Vec<&str> = Vec::new();
    let mut v = Vec::new();
    for _ in 0..n {
        let name = *ctx.rng.pick(names);
        if used.contains(&name) { continue; }
        used.push(name);
        let aff = if ctx.rng.chance(2, 5) { Some(1 + ctx.rng.below(max_worker + 1)) } else { None };
        let replicas = match ctx.rng.below(6) { 0 => 0, 1..=3 => 1, 4 => 2, _ => 3 };
        v.push(Spec { name: name.to_string(), aff, replicas });
    }
    v
}

/// C33: heartbeats, sweeps around the timeout boundary, status changes and placement requests
fn run_c33(ctx: &mut Ctx, rt: &tokio::runtime::Runtime, base: &str, script: &Script) {
    // exhaustive small scope: two workers, every status x {free, full}, every affinity (none, w1, w2, unknown w3),
    // one or two replicas: 4*2 * 4*2 * 4 * 2 = 512 placement requests
    let statuses = [WorkerStatus::Registering, WorkerStatus::Ready, WorkerStatus::Unhealthy, WorkerStatus::Draining];
    for (i1, s1) in statuses.iter().enumerate() { for full1 in [false, true] { for (i2, s2) in statuses.iter().enumerate() { for full2 in [false, true] {
        let mut w = new_world(ctx, base, script, 15000, false);
        w.register(ctx, 1, 1, 2, 0);
        w.register(ctx, 2, 1, 2, 0);
        for (id, st, full, idx) in [(1u64, s1, full1, i1), (2u64, s2, full2, i2)] {
            if full { w.heartbeat(ctx, id, 1); }
            if idx != 1 { w.setstatus(ctx, id, st.clone()); }
        }
        for aff in [None, Some(1u64), Some(2), Some(3)] { for replicas in [1usize, 2] {
            let specs = vec![Spec { name: "p".into(), aff, replicas }];
            w.plan(ctx, &specs);
            ctx.count("c33.exhaustive_plan");
        } }
    } } } }
    let scenarios = if ctx.thorough { 2500 } else { 250 };
    for _ in 0..scenarios {
        let timeout = *ctx.rng.pick(&[1000u64, 15000, 50]);
        let mut w = new_world(ctx, base, script, timeout, false);
        let nw = 1 + ctx.rng.below(4);
        ctx.count(&format!("c33.workers={}", nw));
        if nw >= 3 && ctx.rng.chance(1, 3) { skew_prologue(ctx, rt, &mut w, nw); } else {
        for i in 1..=nw {
            let max = *ctx.rng.pick(&[1usize, 2, 3, 100]);
            let cores = *ctx.rng.pick(&[1usize, 2, 4, 8]);
            w.set_time(w.now + ctx.rng.below(40));
            w.register(ctx, i, max, cores, 0);
        } }
        let steps = 12 + ctx.rng.below(20);
        for _ in 0..steps {
            let ids = w.worker_ids();
            let anyw = 1 + ctx.rng.below(nw + 1);
            match ctx.rng.below(20) {
                0..=3 => { // heartbeat
                    w.set_time(w.now + ctx.rng.below(timeout / 2 + 2));
                    let n = if ctx.rng.chance(1, 2) { w.assigned_len(anyw) } else { ctx.rng.below(4) as usize };
                    w.heartbeat(ctx, anyw, n);
                }
                4..=8 => { // sweep at a boundary of some worker, or after a random delay
                    let mut t = w.now + ctx.rng.below(timeout + 10);
                    if !ids.is_empty() && ctx.rng.chance(3, 4) {
                        let x = *ctx.rng.pick(&ids);
                        let hb = w.coord.workers.get(&wid(x)).map(|n| clock::verif_ms_of(n.last_heartbeat)).unwrap_or(0);
                        let cand = hb + timeout + ctx.rng.below(3) - 1 + if ctx.rng.chance(1, 6) { ctx.rng.below(timeout) } else { 0 };
                        if cand >= w.now { t = cand; ctx.count("c33.sweep_at_boundary"); }
                    }
                    w.set_time(t);
                    let marked = w.sweep(ctx);
                    ctx.count(if marked.is_empty() { "c33.sweep_marks_none" } else { "c33.sweep_marks_some" });
                    for m in marked { if ctx.rng.chance(2, 3) { let k = ctx.rng.below(4); let o: Vec<bool> = (0..4).map(|i| i != k).collect(); w.failover(ctx, rt, m, &o); } }
                }
                9 => w.drainmark(ctx, anyw),
                10 => { if ctx.rng.chance(1, 2) { w.deregister(ctx, anyw); } else { let max = *ctx.rng.pick(&[1usize, 2, 100]); w.register(ctx, anyw, max, 2, 0); } }
                11 => { // monolithic deploy_group, or reconcile
                    if ctx.rng.chance(2, 3) {
                        let specs = gen_specs(ctx, &["p", "q", "r"], nw);
                        let o: Vec<bool> = (0..6).map(|_| !ctx.rng.chance(1, 6)).collect();
                        w.dgroup(ctx, rt, &specs, &o);
                    } else { let ok = !ctx.rng.chance(1, 4); w.reconcile(ctx, rt, ok); }
                }
                12..=15 => { // placement request, usually committed right away
                    let specs = gen_specs(ctx, &["p", "q", "r"], nw);
                    let pinned = specs.iter().any(|s| s.aff.is_some());
                    if let Some(p) = w.plan(ctx, &specs) {
                        ctx.count(if pinned { "c33.plan_pinned" } else { "c33.plan_unpinned" });
                        if ctx.rng.chance(4, 5) {
                            let o: Vec<bool> = (0..p.tasks.len()).map(|_| !ctx.rng.chance(1, 8)).collect();
                            w.commit(ctx, p, &specs, &o);
                        }
                    } else { ctx.count("c33.plan_refused"); }
                }
                16 | 17 => { // manual migration through plan / commit
                    let ps = w.placements();
                    if !ps.is_empty() {
                        let (g, n, _) = ctx.rng.pick(&ps).clone();
                        if let Some(p) = w.mplan(ctx, g, &n, anyw) { ctx.count("c33.mplan_ok"); if ctx.rng.chance(3, 4) { w.mcommit(ctx, &p, true); } } else { ctx.count("c33.mplan_refused"); }
                    }
                }
                18 => { // monolithic migration
                    let ps = w.placements();
                    if !ps.is_empty() { let (g, n, _) = ctx.rng.pick(&ps).clone(); let ok = !ctx.rng.chance(1, 4); w.migrate(ctx, rt, g, &n, anyw, ok); }
                }
                _ => { // drain or rebalance
                    let o: Vec<bool> = (0..4).map(|_| !ctx.rng.chance(1, 5)).collect();
                    if ctx.rng.chance(1, 2) { w.drain(ctx, rt, anyw, &o); } else { w.rebalance(ctx, rt, &o); }
                }
            }
        }
    }
}

enum Pending { Deploy(DeployGroupPlan, Vec<Spec>), Teardown(u64, TeardownPlan), Migrate(MigratePipelinePlan) }

/// C32: interleavings of plan / commit phases with worker events. `guarded` scenarios stay inside the
/// guards of the partial theorem (commit adjacent to plan, truthful heartbeats, only idle workers leave).
fn run_c32(ctx: &mut Ctx, rt: &tokio::runtime::Runtime, base: &str, script: &Script) {
    let scenarios = if ctx.thorough { 3000 } else { 300 };
    for sc in 0..scenarios {
        let guarded = sc % 2 == 0;
        ctx.count(if guarded { "c32.scenario_guarded" } else { "c32.scenario_free" });
        let mut w = new_world(ctx, base, script, 15000, true);
        let nw = 2 + ctx.rng.below(3);
        if nw >= 3 && ctx.rng.chance(1, 3) { skew_prologue(ctx, rt, &mut w, nw); } else {
        for i in 1..=nw { let m = *ctx.rng.pick(&[2usize, 4, 100]); let c = *ctx.rng.pick(&[1usize, 4]); w.register(ctx, i, m, c, 0); } }
        let mut pending: Vec<Pending> = Vec::new();
        let steps = 14 + ctx.rng.below(22);
        for _ in 0..steps {
            let anyw = 1 + ctx.rng.below(nw);
            let r = ctx.rng.below(27);
            // commit something pending?
            if !pending.is_empty() && (guarded || ctx.rng.chance(2, 5)) {
                let i = ctx.rng.below(pending.len() as u64) as usize;
                match pending.remove(i) {
                    Pending::Deploy(p, specs) => { let o: Vec<bool> = (0..p.tasks.len()).map(|_| !ctx.rng.chance(1, 5)).collect(); w.commit(ctx, p, &specs, &o); }
                    Pending::Teardown(g, p) => w.tdcommit(ctx, g, &p),
                    Pending::Migrate(p) => { let ok = !ctx.rng.chance(1, 4); w.mcommit(ctx, &p, ok); }
                }
                if !guarded { ctx.count("c32.interleaved_commit"); }
                continue;
            }
            match r {
                0..=6 => { // deploy
                    if w.groups().len() < 2 || ctx.rng.chance(1, 4) {
                        let specs = gen_specs(ctx, &["p", "q"], nw);
                        if let Some(p) = w.plan(ctx, &specs) { pending.push(Pending::Deploy(p, specs)); }
                    }
                }
                7..=9 => { let gs = w.groups(); if !gs.is_empty() { let g = *ctx.rng.pick(&gs); if let Some(p) = w.tdplan(ctx, g) { pending.push(Pending::Teardown(g, p)); } } }
                10..=12 => { // manual migrate (plan now, commit later)
                    let ps = w.placements();
                    if !ps.is_empty() { let (g, n, _) = ctx.rng.pick(&ps).clone(); if let Some(p) = w.mplan(ctx, g, &n, anyw) { pending.push(Pending::Migrate(p)); } }
                }
                13 | 14 => { // heartbeat
                    w.set_time(w.now + ctx.rng.below(4000));
                    let n = if guarded || ctx.rng.chance(1, 2) { w.assigned_len(anyw) } else { w.assigned_len(anyw) + 1 };
                    w.heartbeat(ctx, anyw, n);
                }
                15 | 16 => { // sweep (+ failover of what it marks)
                    w.set_time(w.now + ctx.rng.below(12000));
                    let marked = w.sweep(ctx);
                    for m in marked { let o: Vec<bool> = (0..4).map(|_| !ctx.rng.chance(1, 5)).collect(); w.failover(ctx, rt, m, &o); }
                }
                17 => { // deregistration
                    if !guarded || w.assigned_len(anyw) == 0 && !w.placements().iter().any(|p| p.2 == anyw) { w.deregister(ctx, anyw); }
                }
                18 => { // (re-)registration, in free histories usually followed by the reconcile of the sweep loop
                    let busy = w.placements().iter().any(|p| p.2 == anyw);
                    if !guarded || !busy { w.register(ctx, anyw, 4, 2, 0); }
                    if ctx.rng.chance(1, 2) { let ok = !ctx.rng.chance(1, 4); w.reconcile(ctx, rt, ok); }
                }
                24 => { // monolithic deploy_group
                    if w.groups().len() < 3 {
                        let specs = gen_specs(ctx, &["p", "q"], nw);
                        let o: Vec<bool> = (0..6).map(|_| !ctx.rng.chance(1, 5)).collect();
                        w.dgroup(ctx, rt, &specs, &o);
                    }
                }
                19 | 20 => { // drain
                    let all_ok = guarded;
                    let o: Vec<bool> = (0..6).map(|_| all_ok || !ctx.rng.chance(1, 4)).collect();
                    let others_free = w.worker_ids().iter().any(|x| *x != anyw && w.coord.workers[&wid(*x)].is_available());
                    let busy = w.placements().iter().any(|p| p.2 == anyw);
                    if !guarded || others_free || !busy { w.drain(ctx, rt, anyw, &o); }
                }
                21 | 22 => { // monolithic migration
                    let ps = w.placements();
                    if !ps.is_empty() { let (g, n, _) = ctx.rng.pick(&ps).clone(); let ok = !ctx.rng.chance(1, 4); w.migrate(ctx, rt, g, &n, anyw, ok); }
                }
                _ => { // failover of an arbitrary worker, or a rebalance
                    let o: Vec<bool> = (0..4).map(|_| !ctx.rng.chance(1, 5)).collect();
                    if ctx.rng.chance(1, 2) { w.failover(ctx, rt, anyw, &o); } else { w.rebalance(ctx, rt, &o); }
                }
            }
        }
        // flush what is still pending
        for p in pending.drain(..) {
            match p {
                Pending::Deploy(p, specs) => { let o: Vec<bool> = (0..p.tasks.len()).map(|_| true).collect(); w.commit(ctx, p, &specs, &o); }
                Pending::Teardown(g, p) => w.tdcommit(ctx, g, &p),
                Pending::Migrate(p) => w.mcommit(ctx, &p, true),
            }
        }
    }
}

pub fn run(ctx: &mut Ctx, name: &str) {
    let rt = tokio::runtime::Builder::new_multi_thread().worker_threads(2).enable_all().build().expect("runtime");
    let script: Script = Arc::new(Mutex::new(VecDeque::new()));
    let addr = rt.block_on(start_mock(script.clone()));
    let base = format!("http://{}", addr);
    if name == "C33" { run_c33(ctx, &rt, &base, &script); } else { run_c32(ctx, &rt, &base, &script); }
    clock::verif_off();
}
