//! placeholder case-set so that the crate builds before any property module exists
use crate::util::Ctx;
pub const NAMES: &[&str] = &["smoke"];
pub fn run(ctx: &mut Ctx, _name: &str) { ctx.case("smoke", "ok"); }
