//! C35 — replicated coordinator state: command application in any batching, snapshot
//! build/install at every index, and the log-store contract, on `MemStore` and `RocksStore`.
//! Lines are replayed by `vmodel raftsm` (lean/Varpulis/Driver/RaftSM.lean).
//! The helpers (`Gen`, renderers, `AnyStore`) are shared with p_raftstore.rs (C36).
use crate::util::{catch, Ctx, Rng};
use openraft::storage::RaftStorage;
use openraft::{
    CommittedLeaderId, Entry, EntryPayload, LogId, Membership, RaftLogReader, RaftSnapshotBuilder,
    SnapshotMeta, StoredMembership, Vote,
};
use serde_json::{json, Value};
use std::collections::{BTreeMap, BTreeSet};
use std::io::Cursor;
use std::panic::AssertUnwindSafe;
use varpulis_cluster::connector_config::ClusterConnector;
use varpulis_cluster::model_registry::ModelRegistryEntry;
use varpulis_cluster::raft::persistent_store::RocksStore;
use varpulis_cluster::raft::state_machine::CoordinatorState;
use varpulis_cluster::raft::store::{MemStore, SharedCoordinatorState};
use varpulis_cluster::raft::{ClusterCommand, NodeId, RaftNode, TypeConfig};
use varpulis_cluster::worker::WorkerCapacity;

/// `C35` = the check; `C35-suite` = only the conformance suite (support), for a quick look
pub const NAMES: &[&str] = &["C35", "C35-suite"];

pub type Ent = Entry<TypeConfig>;

// ---------------------------------------------------------------------------------------------
// canonical rendering (must match lean/Varpulis/Driver/RaftSM.lean)
// ---------------------------------------------------------------------------------------------

/// compact JSON with object keys sorted (independent of serde_json's `preserve_order`)
pub fn canon(v: &Value) -> String {
    match v {
        Value::Object(m) => {
            let mut ks: Vec<&String> = m.keys().collect();
            ks.sort();
            let parts: Vec<String> = ks
                .iter()
                .map(|k| format!("{}:{}", Value::String((*k).clone()), canon(&m[*k])))
                .collect();
            format!("{{{}}}", parts.join(","))
        }
        Value::Array(a) => format!("[{}]", a.iter().map(canon).collect::<Vec<_>>().join(",")),
        other => other.to_string(),
    }
}

pub fn lid(l: &LogId<NodeId>) -> String {
    format!("{}.{}.{}", l.leader_id.term, l.leader_id.node_id, l.index)
}
pub fn olid(l: &Option<LogId<NodeId>>) -> String {
    l.as_ref().map(lid).unwrap_or_else(|| "-".into())
}
pub fn mk_lid(t: u64, n: u64, i: u64) -> LogId<NodeId> {
    LogId::new(CommittedLeaderId::new(t, n), i)
}
fn list(xs: &[String]) -> String {
    if xs.is_empty() { "-".into() } else { xs.join(",") }
}

/// a migration task as the model sees it: `N` | `O<k>=S<string>;<k>=R<raw json>` | `X<json>`
pub fn task_token(v: &Value) -> String {
    match v {
        Value::Null => "N".into(),
        Value::Object(m) => {
            let mut ks: Vec<&String> = m.keys().collect();
            ks.sort();
            let parts: Vec<String> = ks
                .iter()
                .map(|k| match &m[*k] {
                    Value::String(s) => format!("{}=S{}", k, s),
                    o => format!("{}=R{}", k, canon(o)),
                })
                .collect();
            format!("O{}", parts.join(";"))
        }
        o => format!("X{}", canon(o)),
    }
}

pub fn cmd_words(c: &ClusterCommand) -> String {
    use ClusterCommand::*;
    let j = |v: &Value| canon(v);
    match c {
        RegisterWorker { id, address, api_key, capacity } => format!(
            "RW {} {} {} {} {} {}",
            id, address, api_key, capacity.cpu_cores, capacity.pipelines_running, capacity.max_pipelines
        ),
        DeregisterWorker { id } => format!("DW {}", id),
        WorkerStatusChanged { id, status } => format!("WS {} {}", id, status),
        WorkerPipelinesUpdated { id, assigned_pipelines } => format!("WP {} {}", id, list(assigned_pipelines)),
        GroupDeployed { name, group } => format!("GD {} {}", name, j(group)),
        GroupUpdated { name, group } => format!("GU {} {}", name, j(group)),
        GroupRemoved { name } => format!("GR {}", name),
        MigrationStarted { task } => format!("MS {}", task_token(task)),
        MigrationUpdated { id, status } => format!("MU {} {}", id, status),
        MigrationRemoved { id } => format!("MR {}", id),
        ConnectorCreated { name, connector } => format!("CC {} {}", name, j(&serde_json::to_value(connector).unwrap())),
        ConnectorUpdated { name, connector } => format!("CU {} {}", name, j(&serde_json::to_value(connector).unwrap())),
        ConnectorRemoved { name } => format!("CR {}", name),
        ScalingPolicySet { policy } => format!("SP {}", policy.as_ref().map(j).unwrap_or_else(|| "-".into())),
        ModelRegistered { name, entry } => format!("MG {} {}", name, j(&serde_json::to_value(entry).unwrap())),
        ModelRemoved { name } => format!("MX {}", name),
    }
}

pub fn cmd_kind(c: &ClusterCommand) -> &'static str {
    use ClusterCommand::*;
    match c {
        RegisterWorker { .. } => "RegisterWorker", DeregisterWorker { .. } => "DeregisterWorker",
        WorkerStatusChanged { .. } => "WorkerStatusChanged", WorkerPipelinesUpdated { .. } => "WorkerPipelinesUpdated",
        GroupDeployed { .. } => "GroupDeployed", GroupUpdated { .. } => "GroupUpdated", GroupRemoved { .. } => "GroupRemoved",
        MigrationStarted { .. } => "MigrationStarted", MigrationUpdated { .. } => "MigrationUpdated",
        MigrationRemoved { .. } => "MigrationRemoved", ConnectorCreated { .. } => "ConnectorCreated",
        ConnectorUpdated { .. } => "ConnectorUpdated", ConnectorRemoved { .. } => "ConnectorRemoved",
        ScalingPolicySet { .. } => "ScalingPolicySet", ModelRegistered { .. } => "ModelRegistered",
        ModelRemoved { .. } => "ModelRemoved",
    }
}

/// membership configuration token: voter ids joined by '.', `-` for the default (empty) membership
pub fn mem_token(m: &Membership<NodeId, RaftNode>) -> String {
    let ids: BTreeSet<u64> = m.voter_ids().collect();
    if ids.is_empty() { "-".into() } else { ids.iter().map(|i| i.to_string()).collect::<Vec<_>>().join(".") }
}
pub fn mk_membership(tok: &str) -> Membership<NodeId, RaftNode> {
    let mut nodes: BTreeMap<u64, RaftNode> = BTreeMap::new();
    let mut set = BTreeSet::new();
    for p in tok.split('.') {
        let i: u64 = p.parse().unwrap();
        set.insert(i);
        nodes.insert(i, RaftNode { addr: format!("http://n{}", i) });
    }
    Membership::new(vec![set], nodes)
}
pub fn smem(m: &StoredMembership<NodeId, RaftNode>) -> String {
    format!("{}/{}", olid(m.log_id()), mem_token(m.membership()))
}

pub fn entry_words(e: &Ent) -> String {
    match &e.payload {
        EntryPayload::Blank => format!("{} B", lid(&e.log_id)),
        EntryPayload::Membership(m) => format!("{} M {}", lid(&e.log_id), mem_token(m)),
        EntryPayload::Normal(c) => format!("{} N {}", lid(&e.log_id), cmd_words(c)),
    }
}
pub fn entries_words(es: &[Ent]) -> String {
    if es.is_empty() { "-".into() } else { es.iter().map(entry_words).collect::<Vec<_>>().join(" | ") }
}

pub fn state_print(s: &CoordinatorState) -> String {
    // sort by key, then render
    fn by_key<V>(m: &std::collections::HashMap<String, V>, f: impl Fn(&V) -> String) -> Vec<String> {
        let mut ks: Vec<&String> = m.keys().collect();
        ks.sort();
        ks.iter().map(|k| format!("{}={}", k, f(&m[*k]))).collect()
    }
    let w = by_key(&s.workers, |e| {
        format!(
            "{}/{}/{}/{}/{}/{}/{}/{}/{}",
            e.id, e.address, e.api_key, e.status, e.cpu_cores, e.pipelines_running, e.max_pipelines,
            list(&e.assigned_pipelines), e.events_processed
        )
    });
    let g = by_key(&s.pipeline_groups, canon);
    let c = by_key(&s.connectors, |v| canon(&serde_json::to_value(v).unwrap()));
    let m = by_key(&s.active_migrations, task_token);
    let r = by_key(&s.models, |v| canon(&serde_json::to_value(v).unwrap()));
    let p = s.scaling_policy.as_ref().map(canon).unwrap_or_else(|| "-".into());
    format!("W:{} G:{} C:{} M:{} P:{} R:{}", sec(&w), sec(&g), sec(&c), sec(&m), p, sec(&r))
}
fn sec(xs: &[String]) -> String {
    if xs.is_empty() { "-".into() } else { xs.join(" ") }
}

// ---------------------------------------------------------------------------------------------
// stores
// ---------------------------------------------------------------------------------------------

pub fn rt() -> tokio::runtime::Runtime {
    tokio::runtime::Builder::new_current_thread().enable_all().build().unwrap()
}

pub enum AnyStore {
    Mem(MemStore),
    Rocks(RocksStore, SharedCoordinatorState),
}

/// run `$body` with `$s` bound to `&mut` the concrete store
macro_rules! with_store {
    ($st:expr, $s:ident => $body:expr) => {
        match $st {
            $crate::p_raftsm::AnyStore::Mem($s) => $body,
            $crate::p_raftsm::AnyStore::Rocks($s, _) => $body,
        }
    };
}
pub(crate) use with_store;

pub struct SnapReg {
    pub meta: SnapshotMeta<NodeId, RaftNode>,
    pub data: Vec<u8>,
}

pub struct LogPrint {
    pub purged: String,
    pub last: String,
    pub ids: Vec<String>,
}

impl AnyStore {
    pub fn mem() -> Self { AnyStore::Mem(MemStore::new()) }
    pub fn rocks(path: &str) -> Self {
        let (s, sh) = RocksStore::open_with_shared_state(path).expect("open rocks");
        AnyStore::Rocks(s, sh)
    }
    pub fn kind(&self) -> &'static str { match self { AnyStore::Mem(_) => "mem", AnyStore::Rocks(..) => "rocks" } }
    pub fn state(&self) -> CoordinatorState {
        match self {
            AnyStore::Mem(s) => s.state.clone(),
            AnyStore::Rocks(_, sh) => sh.read().unwrap().clone(),
        }
    }
    /// `la=<id> mem=<id>/<cfg> <state>`
    pub fn sm_print(&mut self, rt: &tokio::runtime::Runtime) -> String {
        let (la, mem) = rt.block_on(async { with_store!(self, s => s.last_applied_state().await) }).expect("last_applied_state");
        format!("la={} mem={} {}", olid(&la), smem(&mem), state_print(&self.state()))
    }
    pub fn apply(&mut self, rt: &tokio::runtime::Runtime, es: &[Ent]) -> Result<usize, String> {
        let r = catch(AssertUnwindSafe(|| rt.block_on(async { with_store!(self, s => s.apply_to_state_machine(es).await) })));
        match r {
            Err(_) => Err("panic".into()),
            Ok(Err(e)) => Err(format!("err:{}", e).replace(' ', "_")),
            Ok(Ok(rs)) => Ok(rs.iter().filter(|r| matches!(r, varpulis_cluster::raft::ClusterResponse::Ok)).count()),
        }
    }
    pub fn build_snapshot(&mut self, rt: &tokio::runtime::Runtime) -> SnapReg {
        let snap = rt
            .block_on(async { with_store!(self, s => { let mut b = s.get_snapshot_builder().await; b.build_snapshot().await }) })
            .expect("build_snapshot");
        SnapReg { meta: snap.meta, data: snap.snapshot.into_inner() }
    }
    pub fn install(&mut self, rt: &tokio::runtime::Runtime, r: &SnapReg) -> Result<(), String> {
        let data = r.data.clone();
        rt.block_on(async {
            with_store!(self, s => {
                let mut b = s.begin_receiving_snapshot().await.map_err(|e| e.to_string())?;
                *b = Cursor::new(data);
                s.install_snapshot(&r.meta, b).await.map_err(|e| e.to_string())
            })
        })
    }
    /// `get_current_snapshot()`: `none` or the meta of the stored snapshot
    pub fn current_print(&mut self, rt: &tokio::runtime::Runtime) -> String {
        let cur = rt.block_on(async { with_store!(self, s => s.get_current_snapshot().await) }).expect("get_current_snapshot");
        match cur {
            None => "none".into(),
            Some(s) => format!("id={} la={} mem={}", s.meta.snapshot_id, olid(&s.meta.last_log_id), smem(&s.meta.last_membership)),
        }
    }
    pub fn log_print(&mut self, rt: &tokio::runtime::Runtime) -> LogPrint {
        rt.block_on(async {
            with_store!(self, s => {
                let st = s.get_log_state().await.expect("get_log_state");
                let es = s.try_get_log_entries(..).await.expect("entries");
                LogPrint { purged: olid(&st.last_purged_log_id), last: olid(&st.last_log_id), ids: es.iter().map(|e| lid(&e.log_id)).collect() }
            })
        })
    }
    pub fn log_line(&mut self, rt: &tokio::runtime::Runtime) -> String {
        let p = self.log_print(rt);
        format!("purged={} last={} ids={}", p.purged, p.last, list(&p.ids))
    }
    pub fn vote_print(&mut self, rt: &tokio::runtime::Runtime) -> String {
        let v = rt.block_on(async { with_store!(self, s => s.read_vote().await) }).expect("read_vote");
        match v { None => "-".into(), Some(v) => format!("{}.{}.{}", v.leader_id.term, v.leader_id.node_id, if v.committed { 1 } else { 0 }) }
    }
}

/// next vote of a sequence: mostly related to the previous one the way elections produce them —
/// the same leader id with the committed flag flipped (either way), the very same vote again
/// (heartbeats), a higher term, a lower term, another node in the same term
pub fn next_vote(rng: &mut Rng, last: &mut Option<(u64, u64, bool)>) -> (Vote<NodeId>, &'static str) {
    let (t, n, c, kind) = match (*last, rng.below(10)) {
        (Some((t, n, c)), 0 | 1 | 2 | 3) => (t, n, !c, if c { "same_leader_uncommit" } else { "same_leader_commit" }),
        (Some((t, n, c)), 4) => (t, n, c, "identical"),
        (Some((t, _, _)), 5 | 6) => (t + 1 + rng.below(2), 1 + rng.below(3), rng.chance(1, 3), "higher_term"),
        (Some((t, n, _)), 7) => (t, 1 + (n % 3), rng.chance(1, 2), "same_term_other_node"),
        (Some((t, _, _)), 8) if t > 0 => (rng.below(t), 1 + rng.below(3), rng.chance(1, 2), "lower_term"),
        _ => (rng.below(5), 1 + rng.below(3), rng.chance(1, 2), "random"),
    };
    *last = Some((t, n, c));
    (mk_vote(t, n, c), kind)
}

pub fn mk_vote(t: u64, n: u64, c: bool) -> Vote<NodeId> {
    if c { Vote::new_committed(t, n) } else { Vote::new(t, n) }
}

/// scratch directory for RocksDB stores of one run (removed when dropped)
pub struct Scratch { dir: tempfile::TempDir, n: u64 }
impl Scratch {
    pub fn new() -> Self {
        Scratch { dir: tempfile::Builder::new().prefix("a13-raft-").tempdir_in("/var/tmp").expect("tempdir"), n: 0 }
    }
    pub fn fresh(&mut self) -> String {
        self.n += 1;
        self.dir.path().join(format!("db{}", self.n)).to_string_lossy().into_owned()
    }
    pub fn remove(&self, p: &str) { let _ = std::fs::remove_dir_all(p); }
}

// ---------------------------------------------------------------------------------------------
// generators
// ---------------------------------------------------------------------------------------------

pub struct Gen;
impl Gen {
    fn id(rng: &mut Rng, p: &str, n: u64) -> String { format!("{}{}", p, rng.below(n)) }
    fn word(rng: &mut Rng) -> String { (*rng.pick(&["a", "b", "ready", "unhealthy", "draining", "x1", "done", "failed"])).to_string() }
    fn small_json(rng: &mut Rng) -> Value {
        match rng.below(6) {
            0 => json!(rng.below(100)),
            1 => json!({"replicas": rng.below(4), "name": Self::word(rng)}),
            2 => json!([rng.below(5), rng.below(5)]),
            3 => json!({"z": {"b": rng.below(3), "a": Self::word(rng)}, "k": null}),
            4 => Value::Bool(rng.chance(1, 2)),
            _ => json!(Self::word(rng)),
        }
    }
    pub fn task(rng: &mut Rng) -> Value {
        match rng.below(10) {
            0 => Value::Null,
            1 => json!(rng.below(9)),
            2 => json!([1, 2]),
            3 => json!("m1"),
            4 => json!({"id": rng.below(3), "status": "s"}),      // id not a string
            5 => json!({"status": Self::word(rng)}),              // no id
            6 => json!({"id": Self::id(rng, "m", 3)}),            // no status yet
            _ => json!({"id": Self::id(rng, "m", 3), "status": Self::word(rng), "n": rng.below(5), "src": Self::word(rng)}),
        }
    }
    pub fn command(rng: &mut Rng) -> ClusterCommand {
        use ClusterCommand::*;
        match rng.below(16) {
            0 => RegisterWorker {
                id: Self::id(rng, "w", 3), address: format!("http://h{}:9000", rng.below(3)), api_key: Self::word(rng),
                capacity: WorkerCapacity { cpu_cores: rng.below(9) as usize, pipelines_running: rng.below(4) as usize, max_pipelines: rng.below(50) as usize },
            },
            1 => DeregisterWorker { id: Self::id(rng, "w", 3) },
            2 => WorkerStatusChanged { id: Self::id(rng, "w", 3), status: Self::word(rng) },
            3 => WorkerPipelinesUpdated { id: Self::id(rng, "w", 3), assigned_pipelines: (0..rng.below(3)).map(|_| Self::id(rng, "p", 4)).collect() },
            4 => GroupDeployed { name: Self::id(rng, "g", 3), group: Self::small_json(rng) },
            5 => GroupUpdated { name: Self::id(rng, "g", 3), group: Self::small_json(rng) },
            6 => GroupRemoved { name: Self::id(rng, "g", 3) },
            7 => MigrationStarted { task: Self::task(rng) },
            8 => MigrationUpdated { id: Self::id(rng, "m", 3), status: Self::word(rng) },
            9 => MigrationRemoved { id: Self::id(rng, "m", 3) },
            10 | 11 => {
                let name = Self::id(rng, "c", 3);
                let mut params = std::collections::HashMap::new();
                for _ in 0..rng.below(3) { params.insert(Self::id(rng, "k", 4), Self::word(rng)); }
                let connector = ClusterConnector {
                    name: name.clone(), connector_type: (*rng.pick(&["mqtt", "kafka"])).to_string(), params,
                    description: if rng.chance(1, 2) { Some(Self::word(rng)) } else { None },
                };
                if rng.chance(1, 2) { ConnectorCreated { name, connector } } else { ConnectorUpdated { name, connector } }
            }
            12 => ConnectorRemoved { name: Self::id(rng, "c", 3) },
            13 => ScalingPolicySet { policy: if rng.chance(1, 3) { None } else { Some(Self::small_json(rng)) } },
            14 => {
                let name = Self::id(rng, "r", 3);
                ModelRegistered {
                    name: name.clone(),
                    entry: ModelRegistryEntry {
                        name, s3_key: format!("models/{}", rng.below(9)), format: "onnx".into(),
                        inputs: (0..rng.below(3)).map(|i| format!("i{}", i)).collect(), outputs: vec!["o".into()],
                        size_bytes: rng.below(1000), uploaded_at: "2026-01-01T00:00:00Z".into(), description: Self::word(rng),
                    },
                }
            }
            _ => ModelRemoved { name: Self::id(rng, "r", 3) },
        }
    }
    /// a committed log: entries with indices `first..first+len`, non-decreasing terms, all payload kinds
    pub fn log(rng: &mut Rng, first: u64, len: u64) -> Vec<Ent> {
        let mut term = 1 + rng.below(2);
        let mut out = Vec::new();
        for i in 0..len {
            if rng.chance(1, 6) { term += 1; }
            let id = mk_lid(term, 1 + term % 3, first + i);
            let payload = match rng.below(12) {
                0 => EntryPayload::Blank,
                1 => EntryPayload::Membership(mk_membership(*rng.pick(&["1", "1.2", "1.2.3", "2.3"]))),
                _ => EntryPayload::Normal(Self::command(rng)),
            };
            out.push(Entry { log_id: id, payload });
        }
        out
    }
    /// cut `es` into random consecutive batches (possibly empty ones)
    pub fn batches(rng: &mut Rng, es: &[Ent]) -> Vec<Vec<Ent>> {
        let mut out = Vec::new();
        let mut i = 0;
        while i < es.len() {
            let k = match rng.below(5) { 0 => 0, 1 => 1, 2 => 2, _ => 1 + rng.below(5) } as usize;
            let j = (i + k).min(es.len());
            out.push(es[i..j].to_vec());
            i = j;
        }
        out
    }
}

// ---------------------------------------------------------------------------------------------
// C35 scenarios
// ---------------------------------------------------------------------------------------------

struct Run<'a> {
    ctx: &'a mut Ctx,
    rt: tokio::runtime::Runtime,
    scratch: Scratch,
    stores: BTreeMap<String, (AnyStore, Option<String>)>,
    snaps: Vec<SnapReg>,
}

impl<'a> Run<'a> {
    fn open(&mut self, reg: &str, rocks: bool) {
        self.close(reg);
        let (st, path) = if rocks {
            let p = self.scratch.fresh();
            (AnyStore::rocks(&p), Some(p))
        } else {
            (AnyStore::mem(), None)
        };
        self.ctx.directive(&format!("store {} {}", reg, st.kind()));
        self.ctx.count(&format!("store:{}", st.kind()));
        self.stores.insert(reg.to_string(), (st, path));
        if self.ctx.rng.chance(1, 3) { self.cur(reg); }
    }
    fn close(&mut self, reg: &str) {
        if let Some((st, path)) = self.stores.remove(reg) {
            drop(st);
            if let Some(p) = path { self.scratch.remove(&p); }
        }
    }
    fn close_all(&mut self) {
        let regs: Vec<String> = self.stores.keys().cloned().collect();
        for r in regs { self.close(&r); }
        self.snaps.clear();
    }
    fn st(&mut self, reg: &str) -> &mut AnyStore { &mut self.stores.get_mut(reg).unwrap().0 }

    fn apply(&mut self, reg: &str, es: &[Ent]) {
        for e in es {
            match &e.payload {
                EntryPayload::Normal(c) => self.ctx.count(&format!("cmd:{}", cmd_kind(c))),
                EntryPayload::Blank => self.ctx.count("entry:blank"),
                EntryPayload::Membership(_) => self.ctx.count("entry:membership"),
            }
        }
        self.ctx.count(&format!("batch_len:{}", es.len().min(6)));
        let rt = &self.rt;
        let st = &mut self.stores.get_mut(reg).unwrap().0;
        let res = match st.apply(rt, es) {
            Ok(n) => format!("r={} {}", n, st.sm_print(rt)),
            Err(e) => { self.ctx.count("apply:panic_or_err"); e }
        };
        self.ctx.case(&format!("apply {} {}", reg, entries_words(es)), &res);
    }
    fn snap(&mut self, reg: &str) -> usize {
        let rt = &self.rt;
        let st = &mut self.stores.get_mut(reg).unwrap().0;
        let s = st.build_snapshot(rt);
        let k = self.snaps.len();
        self.ctx.case(
            &format!("snap {} {}", reg, k),
            &format!("id={} la={} mem={}", s.meta.snapshot_id, olid(&s.meta.last_log_id), smem(&s.meta.last_membership)),
        );
        self.ctx.count("snapshot:build");
        self.snaps.push(s);
        if self.ctx.rng.chance(1, 2) { self.cur(reg); }
        k
    }
    fn install(&mut self, reg: &str, k: usize) {
        let rt = &self.rt;
        let st = &mut self.stores.get_mut(reg).unwrap().0;
        let res = match st.install(rt, &self.snaps[k]) {
            Ok(()) => st.sm_print(rt),
            Err(e) => format!("err:{}", e).replace(' ', "_"),
        };
        self.ctx.case(&format!("install {} {}", reg, k), &res);
        self.ctx.count("snapshot:install");
        if self.ctx.rng.chance(1, 2) { self.cur(reg); }
    }
    fn cur(&mut self, reg: &str) {
        let rt = &self.rt;
        let r = self.stores.get_mut(reg).unwrap().0.current_print(rt);
        self.ctx.case(&format!("cur {}", reg), &r);
        self.ctx.count("snapshot:get_current");
    }
    fn same(&mut self, a: &str, b: &str) {
        let rt = &self.rt;
        let pa = self.stores.get_mut(a).unwrap().0.sm_print(rt);
        let pb = self.stores.get_mut(b).unwrap().0.sm_print(rt);
        self.ctx.case(&format!("same {} {}", a, b), if pa == pb { "eq" } else { "ne" });
    }
    /// make the data of snapshot `k` carry a migration task that is not an object (reachable only through
    /// a foreign snapshot): `MigrationUpdated` on it panics for non-null values
    fn taint(&mut self, k: usize, id: &str, v: Value) {
        let mut d: Value = serde_json::from_slice(&self.snaps[k].data).unwrap();
        d["state"]["active_migrations"][id] = v.clone();
        self.snaps[k].data = serde_json::to_vec(&d).unwrap();
        self.ctx.directive(&format!("taint {} {} {}", k, id, task_token(&v)));
        self.ctx.count("snapshot:taint");
    }
}

fn scenario_sm(run: &mut Run, len: u64, all_snaps: bool) {
    run.close_all();
    run.ctx.directive("new sm");
    let first = run.ctx.rng.below(2);
    let log = Gen::log(&mut run.ctx.rng, first, len);
    let ra = run.ctx.rng.chance(1, 2);
    let rb = run.ctx.rng.chance(1, 2);
    run.open("a", ra);
    run.open("b", rb);
    // store a: random batching, snapshots at chosen positions (a position = number of entries applied)
    let mut snap_at: Vec<(usize, usize)> = Vec::new(); // (position, snapshot register)
    let mut pos = 0usize;
    let k0 = run.snap("a");
    snap_at.push((0, k0));
    let batches = Gen::batches(&mut run.ctx.rng, &log);
    for b in &batches {
        run.apply("a", b);
        pos += b.len();
        if all_snaps || run.ctx.rng.chance(1, 3) {
            let k = run.snap("a");
            snap_at.push((pos, k));
        }
    }
    if all_snaps {
        // every index: re-run entry by entry on a third store, snapshot after each entry
        run.open("d", !ra);
        for (i, e) in log.iter().enumerate() {
            run.apply("d", std::slice::from_ref(e));
            if !snap_at.iter().any(|(p, _)| *p == i + 1) {
                let k = run.snap("d");
                snap_at.push((i + 1, k));
            }
        }
        run.same("a", "d");
        run.close("d");
    }
    // store b: a different batching of the same log
    let batches_b = Gen::batches(&mut run.ctx.rng, &log);
    for b in &batches_b { run.apply("b", b); }
    run.same("a", "b");
    // every chosen snapshot: install into a fresh (sometimes pre-used) store, apply the rest, compare
    for (p, k) in snap_at.clone() {
        let rc = run.ctx.rng.chance(1, 2);
        run.open("c", rc);
        if run.ctx.rng.chance(1, 3) {
            let nj = 1 + run.ctx.rng.below(4);
            let junk = Gen::log(&mut run.ctx.rng, 0, nj);
            run.apply("c", &junk);
            run.ctx.count("install:onto_used_store");
        }
        run.install("c", k);
        let rest = log[p..].to_vec();
        for b in Gen::batches(&mut run.ctx.rng, &rest) { run.apply("c", &b); }
        run.same("a", "c");
        run.close("c");
    }
    // a foreign snapshot whose migration task is not an object
    if run.ctx.rng.chance(1, 4) {
        let k = run.snap("a");
        let v = match run.ctx.rng.below(3) { 0 => Value::Null, 1 => json!(7), _ => json!(["x"]) };
        run.taint(k, "mz", v);
        let rc = run.ctx.rng.chance(1, 2);
        run.open("c", rc);
        run.install("c", k);
        let id = mk_lid(99, 1, first + len);
        let e = Entry { log_id: id, payload: EntryPayload::Normal(ClusterCommand::MigrationUpdated { id: "mz".into(), status: "done".into() }) };
        run.apply("c", &[e]);
        run.close("c");
    }
}

fn scenario_log(run: &mut Run, steps: u64, disciplined: bool) {
    run.close_all();
    // `d`: the calls follow openraft's full log discipline (consecutive appends right after the last log id,
    // monotone purges) — the judge then also requires a log without holes; `u`: overwrites, gaps, purges anywhere
    run.ctx.directive(if disciplined { "new log d" } else { "new log u" });
    let rocks = run.ctx.rng.chance(1, 2);
    run.open("a", rocks);
    // harness-side bookkeeping only to generate mostly well-formed calls
    let mut next: u64 = run.ctx.rng.below(2);
    let mut purged: Option<u64> = None;
    let mut term: u64 = 1;
    let mut present: BTreeMap<u64, LogId<NodeId>> = BTreeMap::new();
    let mut last_vote: Option<(u64, u64, bool)> = None;
    let rt = rt();
    for _ in 0..steps {
        let op = run.ctx.rng.below(12);
        match op {
            0 | 1 | 2 | 3 => {
                let n = 1 + run.ctx.rng.below(4);
                // never at or below the purge marker (openraft's discipline, premise of the contract theorem);
                // undisciplined runs may overwrite existing entries or leave a gap
                let lo = purged.map(|p| p + 1).unwrap_or(0);
                let start = if disciplined || run.ctx.rng.chance(3, 4) { next } else { lo + run.ctx.rng.below(next.saturating_sub(lo) + 3) };
                if run.ctx.rng.chance(1, 5) { term += 1; }
                let mut es = Gen::log(&mut run.ctx.rng, start, n);
                for e in es.iter_mut() { e.log_id = mk_lid(term, 1, e.log_id.index); }
                for e in &es { present.insert(e.log_id.index, e.log_id); }
                next = present.keys().next_back().map(|k| k + 1).unwrap_or(next).max(next);
                let st = run.st("a");
                let esc = es.clone();
                rt.block_on(async { with_store!(st, s => s.append_to_log(esc).await) }).expect("append");
                let line = st.log_line(&rt);
                run.ctx.case(&format!("append a {}", entries_words(&es)), &line);
                run.ctx.count("log:append");
            }
            4 | 5 => {
                // purge: usually the id of a present entry, sometimes beyond the end, sometimes everything
                let upto = match run.ctx.rng.below(4) {
                    0 => next.saturating_sub(1),
                    1 if !disciplined => next + run.ctx.rng.below(3),
                    _ => purged.map(|p| p + 1).unwrap_or(0) + run.ctx.rng.below(3),
                };
                if disciplined && (purged.map_or(false, |p| upto < p)) { continue; }
                let id = present.get(&upto).copied().unwrap_or_else(|| mk_lid(term, 1, upto));
                let st = run.st("a");
                rt.block_on(async { with_store!(st, s => s.purge_logs_upto(id).await) }).expect("purge");
                let line = st.log_line(&rt);
                present.retain(|k, _| *k > upto);
                purged = Some(upto);
                if next <= upto { next = upto + 1; }
                if present.is_empty() { run.ctx.count("log:purged_everything"); }
                run.ctx.case(&format!("purge a {}", lid(&id)), &line);
                run.ctx.count("log:purge");
            }
            6 => {
                let lo = purged.map(|p| p + 1).unwrap_or(0);
                let since = if disciplined { lo + run.ctx.rng.below(next.saturating_sub(lo) + 1) } else { run.ctx.rng.below(next + 2) };
                let id = present.get(&since).copied().unwrap_or_else(|| mk_lid(term, 1, since));
                let st = run.st("a");
                rt.block_on(async { with_store!(st, s => s.delete_conflict_logs_since(id).await) }).expect("delete_conflict");
                let line = st.log_line(&rt);
                present.retain(|k, _| *k < since);
                next = present.keys().next_back().map(|k| k + 1).unwrap_or_else(|| purged.map(|p| p + 1).unwrap_or(since.min(next)));
                run.ctx.case(&format!("trunc a {}", lid(&id)), &line);
                run.ctx.count("log:delete_conflict");
            }
            7 | 10 | 11 => {
                // a short run of related votes, each followed by read_vote
                for _ in 0..1 + run.ctx.rng.below(3) {
                    let (v, kind) = next_vote(&mut run.ctx.rng, &mut last_vote);
                    let st = run.st("a");
                    rt.block_on(async { with_store!(st, s => s.save_vote(&v).await) }).expect("save_vote");
                    let r = st.vote_print(&rt);
                    run.ctx.case(&format!("vote a {} {} {}", v.leader_id.term, v.leader_id.node_id, if v.committed { 1 } else { 0 }), &r);
                    run.ctx.count("log:save_vote");
                    run.ctx.count(&format!("vote:{}", kind));
                }
            }
            8 => {
                let r = run.st("a").vote_print(&rt);
                run.ctx.case("rvote a", &r);
            }
            _ => {
                let lo = run.ctx.rng.below(next + 1);
                let hi = lo + run.ctx.rng.below(5);
                let via_reader = run.ctx.rng.chance(1, 2);
                let st = run.st("a");
                let es: Vec<Ent> = rt.block_on(async {
                    with_store!(st, s => {
                        if via_reader { let mut r = s.get_log_reader().await; r.try_get_log_entries(lo..hi).await } else { s.try_get_log_entries(lo..hi).await }
                    })
                }).expect("get");
                run.ctx.case(&format!("get a {} {}", lo, hi), &entries_words(&es));
                run.ctx.count(if via_reader { "log:get_via_reader" } else { "log:get" });
            }
        }
    }
}

/// SUPPORT (not a proof): openraft's storage conformance suite against one store kind
fn suite(run: &mut Run, rocks: bool) {
    use openraft::testing::Suite;
    run.ctx.directive("new suite");
    let base = run.scratch.fresh();
    std::fs::create_dir_all(&base).unwrap();
    let r = if rocks {
        let ctr = std::sync::Arc::new(std::sync::atomic::AtomicU64::new(0));
        let base2 = base.clone();
        catch(AssertUnwindSafe(move || {
            Suite::test_all(move || {
                let p = format!("{}/s{}", base2, ctr.fetch_add(1, std::sync::atomic::Ordering::SeqCst));
                async move { RocksStore::open(&p).expect("open") }
            })
        }))
    } else {
        catch(AssertUnwindSafe(|| Suite::test_all(|| async { MemStore::new() })))
    };
    let res = match r {
        Ok(Ok(())) => "pass".to_string(),
        Ok(Err(e)) => format!("fail:{}", e).replace(' ', "_"),
        Err(p) => format!("fail:{}", p.lines().next().unwrap_or("panic")).replace(' ', "_"),
    };
    run.scratch.remove(&base);
    run.ctx.case(&format!("suite {}", if rocks { "rocks" } else { "mem" }), &res);
    run.ctx.count("suite");
}

pub fn run(ctx: &mut Ctx, name: &str) {
    // keep the panic messages of expected panics (tainted snapshots, suite assertions) out of stderr
    std::panic::set_hook(Box::new(|_| {}));
    let thorough = ctx.thorough;
    let mut run = Run { ctx, rt: rt(), scratch: Scratch::new(), stores: BTreeMap::new(), snaps: Vec::new() };
    if name == "C35-suite" {
        suite(&mut run, false);
        suite(&mut run, true);
        let _ = std::panic::take_hook();
        return;
    }
    let (n_sm, n_log) = if thorough { (120, 300) } else { (14, 60) };
    for i in 0..n_sm {
        let len = if thorough { 4 + run.ctx.rng.below(40) } else { 3 + run.ctx.rng.below(14) };
        let all = thorough && i % 3 == 0 || (!thorough && i % 7 == 0);
        scenario_sm(&mut run, len, all);
    }
    for i in 0..n_log {
        let steps = if thorough { 10 + run.ctx.rng.below(40) } else { 6 + run.ctx.rng.below(14) };
        scenario_log(&mut run, steps, i % 3 != 0);
    }
    run.close_all();
    if thorough {
        suite(&mut run, false);
        suite(&mut run, true);
    }
    run.close_all();
    let _ = std::panic::take_hook();
}
