//! C21: FileStore + CheckpointManager under process crashes at every file-system operation,
//! plus corruption/truncation of the newest checkpoint file.
use crate::util::{catch, Ctx};
use std::collections::HashMap;
use std::sync::Arc;
use varpulis_runtime::persistence::{verif_crash, Checkpoint, CheckpointConfig, CheckpointManager, FileStore, StateStore};

pub const NAMES: &[&str] = &["C21"];

fn ckpt(data: u64) -> Checkpoint {
    Checkpoint {
        id: 0, timestamp_ms: 0, events_processed: data,
        window_states: HashMap::new(), pattern_states: HashMap::new(),
        metadata: HashMap::new(), context_states: HashMap::new(),
    }
}

fn cfg(keep: usize) -> CheckpointConfig {
    CheckpointConfig { max_checkpoints: keep, ..CheckpointConfig::default() }
}

/// observable state: listed ids, tmp files (complete or torn), result of recover()
fn observe(dir: &std::path::Path, store: &Arc<FileStore>, mgr: &Option<CheckpointManager>) -> String {
    let ids = store.list_checkpoints().map(|v| v.iter().map(|x| x.to_string()).collect::<Vec<_>>().join(",")).unwrap_or_else(|_| "err".into());
    let mut tmps: Vec<(u64, bool)> = Vec::new();
    if let Ok(rd) = std::fs::read_dir(dir.join("checkpoint")) {
        for e in rd.flatten() {
            let name = e.file_name().to_string_lossy().to_string();
            if let Some(stem) = name.strip_suffix(".tmp") {
                if let Ok(id) = stem.parse::<u64>() {
                    let good = std::fs::read(e.path()).ok().and_then(|b| varpulis_runtime::codec::deserialize::<Checkpoint>(&b).ok()).is_some();
                    tmps.push((id, good));
                }
            }
        }
    }
    tmps.sort();
    let tmp = tmps.iter().map(|(i, g)| format!("{}:{}", i, if *g { "good" } else { "bad" })).collect::<Vec<_>>().join(",");
    let rec = match mgr {
        None => "nomgr".to_string(),
        Some(m) => match m.recover() {
            Ok(None) => "none".into(),
            Ok(Some(c)) => format!("{}:{}", c.id, c.events_processed),
            Err(_) => "err".into(),
        },
    };
    // the store-level API must agree with the manager's
    let rec2 = match store.load_latest_checkpoint() {
        Ok(None) => "none".into(),
        Ok(Some(c)) => format!("{}:{}", c.id, c.events_processed),
        Err(_) => "err".to_string(),
    };
    format!("ids={} tmp={} rec={} load={}", ids, tmp, rec, rec2)
}

fn scenario(ctx: &mut Ctx, keep: usize, ops: &[(u8, u64, u64)]) {
    let dir = ctx.scratch("c21");
    let store = Arc::new(FileStore::open(&dir).expect("open store"));
    ctx.directive(&format!("new {}", keep));
    let mk = |store: &Arc<FileStore>| CheckpointManager::new(store.clone() as Arc<dyn StateStore>, cfg(keep)).ok();
    let mut mgr = mk(&store);
    for (kind, data, k) in ops {
        let op = match kind {
            0 => {
                let r = match mgr.as_mut() { Some(m) => m.checkpoint(ckpt(*data)).is_ok(), None => false };
                ctx.count(if r { "save:ok" } else { "save:failed" });
                format!("save {}", data)
            }
            1 => {
                if let Some(m) = mgr.as_mut() {
                    verif_crash::arm(Some(*k));
                    let r = catch(std::panic::AssertUnwindSafe(|| m.checkpoint(ckpt(*data))));
                    let passed = verif_crash::passed();
                    verif_crash::arm(None);
                    ctx.count(&format!("crash:{}", if r.is_err() { format!("at-point-{}", k.min(&9)) } else { "completed".into() }));
                    let _ = passed;
                }
                mgr = mk(&store); // the process restarts
                format!("crash {} {}", data, k)
            }
            2 => { mgr = mk(&store); ctx.count("restart"); "restart".to_string() }
            _ => {
                // external fault: the newest stored checkpoint becomes unreadable (truncated or garbage)
                if let Ok(ids) = store.list_checkpoints() {
                    if let Some(last) = ids.last() {
                        let p = dir.join("checkpoint").join(last.to_string());
                        if *k % 2 == 0 {
                            if let Ok(b) = std::fs::read(&p) { let _ = std::fs::write(&p, &b[..b.len() / 2]); }
                        } else {
                            let _ = std::fs::write(&p, b"\x00garbage");
                        }
                    }
                }
                mgr = mk(&store);
                ctx.count("corrupt-newest+restart");
                "corrupt".to_string()
            }
        };
        let mut obs = observe(&dir, &store, &mgr);
        if mgr.is_none() { obs.push_str(" mgr=err"); ctx.count("manager-creation-failed"); }
        ctx.case(&op, &obs);
    }
    let _ = std::fs::remove_dir_all(&dir);
}

pub fn run(ctx: &mut Ctx, _name: &str) {
    // silence the panic messages of the armed crash points
    let prev = std::panic::take_hook();
    std::panic::set_hook(Box::new(|_| {}));
    // corpus: unreadable newest with an older readable one (the repaired defect)
    scenario(ctx, 3, &[(0, 7, 0), (0, 8, 0), (3, 0, 0), (0, 9, 0)]);
    scenario(ctx, 3, &[(0, 7, 0), (0, 8, 0), (3, 0, 1), (2, 0, 0), (0, 9, 0)]);
    // exhaustive: every crash point of the 1st..4th save for keep 1..3
    for keep in 1..=3usize {
        for nsaves in 0..=4u64 {
            for k in 0..=(5 + nsaves) {
                let mut ops: Vec<(u8, u64, u64)> = (0..nsaves).map(|i| (0u8, 10 + i, 0u64)).collect();
                ops.push((1, 50, k));
                ops.push((0, 60, 0));
                ops.push((0, 61, 0));
                scenario(ctx, keep, &ops);
            }
        }
    }
    // random histories up to 8 operations
    let n = if ctx.thorough { 4000 } else { 300 };
    for _ in 0..n {
        let keep = 1 + ctx.rng.below(3) as usize;
        let len = 1 + ctx.rng.below(8);
        let mut ops = Vec::new();
        for _ in 0..len {
            let r = ctx.rng.below(100);
            let data = ctx.rng.below(1000);
            if r < 45 { ops.push((0u8, data, 0u64)); }
            else if r < 80 { ops.push((1, data, ctx.rng.below(8))); }
            else if r < 90 { ops.push((2, 0, 0)); }
            else { ops.push((3, 0, ctx.rng.below(2))); }
        }
        scenario(ctx, keep, &ops);
    }
    std::panic::set_hook(prev);
}
