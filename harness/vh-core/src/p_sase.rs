//! probe (temporary)
use crate::util::Ctx;
use varpulis_core::Value;
use varpulis_runtime::event::Event;
use varpulis_runtime::sase::{CompareOp, Predicate, SaseEngine, SasePattern};
use varpulis_runtime::Engine;

pub const NAMES: &[&str] = &["SASEPROBE"];

fn ev(t: &str, i: i64, x: i64) -> Event {
    Event::new(t).with_field("i", Value::Int(i)).with_field("x", Value::Int(x))
}

fn show(ms: &[varpulis_runtime::sase::MatchResult]) -> String {
    ms.iter().map(|m| {
        let st: Vec<String> = m.stack.iter().map(|e| format!("{}{}", e.event.get("i").unwrap(), e.alias.clone().unwrap_or("_".into()))).collect();
        let mut cp: Vec<String> = m.captured.iter().map(|(k, v)| format!("{}={}", k, v.get("i").unwrap())).collect();
        cp.sort();
        format!("[{}|{}]", st.join(","), cp.join(","))
    }).collect::<Vec<_>>().join(" ")
}

fn vpl(src: &str, evs: &[Event]) {
    let rt = tokio::runtime::Builder::new_current_thread().enable_all().build().unwrap();
    rt.block_on(async {
        let program = varpulis_parser::parse(src).expect("parse");
        let (tx, mut rx) = tokio::sync::mpsc::channel(10000);
        let mut engine = Engine::new(tx);
        engine.load(&program).expect("load");
        println!("VPL {}", src.trim());
        for e in evs {
            engine.process(e.clone()).await.unwrap();
            let mut outs = Vec::new();
            while let Ok(o) = rx.try_recv() {
                let mut kv: Vec<String> = o.data.iter().map(|(k, v)| format!("{}={}", k, v)).collect();
                kv.sort();
                outs.push(format!("{}{{{}}}", o.event_type, kv.join(",")));
            }
            println!("  {} i={} x={} -> {}", e.event_type, e.get("i").unwrap(), e.get("x").unwrap(), outs.join(" "));
        }
    });
}

fn api(name: &str, mut eng: SaseEngine, evs: &[Event]) {
    println!("API {}", name);
    for e in evs {
        let ms = eng.process(e);
        println!("  {} i={} x={} -> {}   runs={}", e.event_type, e.get("i").unwrap(), e.get("x").unwrap(), show(&ms), eng.stats().active_runs);
    }
}

fn se(t: &str, a: Option<&str>, p: Option<Predicate>) -> SasePattern {
    SasePattern::Event { event_type: t.into(), predicate: p, alias: a.map(|s| s.to_string()) }
}

pub fn run(_ctx: &mut Ctx, _name: &str) {
    // one-step
    let evs = vec![ev("A", 0, 1), ev("A", 1, 2), ev("B", 2, 0), ev("A", 3, 3)];
    api("one-step A", SaseEngine::new(se("A", Some("a"), None)), &evs);
    vpl("stream S = sequence(a: A)\n", &evs);
    vpl("stream S = sequence(a: A where x > 1)\n    .emit(ai: a.i)\n", &evs);
    // trailing all with self ref
    let selfref = Predicate::CompareRef { field: "x".into(), op: CompareOp::Gt, ref_alias: "b".into(), ref_field: "x".into() };
    let evs2 = vec![ev("A", 0, 0), ev("B", 1, 5), ev("B", 2, 3), ev("B", 3, 9), ev("A", 4, 0), ev("C", 5, 0), ev("B", 6, 1)];
    api("A -> all B where x > b.x as b", SaseEngine::new(SasePattern::Seq(vec![se("A", Some("a"), None), SasePattern::KleenePlus(Box::new(se("B", Some("b"), Some(selfref.clone()))))])), &evs2);
    vpl("stream S = A as a -> all B where x > b.x as b\n", &evs2);
    // trailing all consistent filter
    let gt4 = Predicate::Compare { field: "x".into(), op: CompareOp::Gt, value: Value::Int(4) };
    api("A -> all B where x > 4 as b", SaseEngine::new(SasePattern::Seq(vec![se("A", Some("a"), None), SasePattern::KleenePlus(Box::new(se("B", Some("b"), Some(gt4.clone()))))])), &evs2);
    vpl("stream S = A as a -> all B where x > 4 as b\n    .emit(ai: a.i, bi: b.i)\n", &evs2);
    // negation that coincides with completing step
    let evs3 = vec![ev("A", 0, 0), ev("B", 1, 5), ev("A", 2, 0), ev("C", 3, 1), ev("B", 4, 0), ev("B", 5, 7)];
    api("A -> B .not(B where x > 4)", SaseEngine::new(SasePattern::Seq(vec![se("A", Some("a"), None), se("B", Some("b"), None)])).with_negation("B".into(), Some(gt4.clone())), &evs3);
    vpl("stream S = A as a -> B as b\n    .not(B where x > 4)\n", &evs3);
    vpl("stream S = A as a -> B as b -> C as c\n    .partition_by(x)\n    .not(D where x == a.x)\n", &evs3);
    // all in the middle, all first
    let evs4 = vec![ev("A", 0, 0), ev("A", 1, 5), ev("B", 2, 0), ev("B", 3, 1), ev("C", 4, 0), ev("C", 5, 7), ev("B", 6, 7), ev("C", 7, 7)];
    vpl("stream S = all A as a -> all B as b -> C as c\n", &evs4);
    vpl("stream S = A as a -> all B as b -> all C as c\n", &evs4);
    vpl("stream S = all A as a\n", &evs4);
    vpl("stream F = A .where(x > 1)\nstream S = F as a -> B as b\n", &evs4);
}
