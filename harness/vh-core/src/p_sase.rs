//! C01 / C02: SASE+ sequence matcher vs the Lean model (Model/Sase.lean) and its judges.
//!
//! A structured pattern description is rendered twice (DESIGN §2):
//!  (a) VPL text -> `varpulis_parser::parse` -> `Engine::load` -> `Engine::process`, observing the
//!      `<alias>_i` columns of the emitted events (`i` = arrival index stored in every event);
//!  (b) `SasePattern` / `SaseEngine` built directly, observing `MatchResult.stack` / `.captured`.
//! The model receives the *intended* pattern, so `compile_to_sase_pattern_with_resolver` and
//! `expr_to_sase_predicate` are inside the tie. One line per input event; matches of one event sorted.
use crate::util::{catch, Ctx, Rng};
use varpulis_core::Value;
use varpulis_runtime::event::Event;
use varpulis_runtime::sase::{CompareOp, MatchResult, Predicate, SaseEngine, SasePattern, StateType};
use varpulis_runtime::Engine;

pub const NAMES: &[&str] = &["C01", "C02"];

const TYPES: [&str; 4] = ["A", "B", "C", "D"];

#[derive(Clone, Debug, PartialEq)]
enum V { I(i64), F(i64), S(String) }

impl V {
    fn value(&self) -> Value {
        match self { V::I(i) => Value::Int(*i), V::F(q) => Value::Float(*q as f64 / 4.0), V::S(s) => Value::Str(s.as_str().into()) }
    }
    fn model(&self) -> String {
        match self { V::I(i) => format!("i:{}", i), V::F(q) => format!("f:{}", q), V::S(s) => format!("s:{}", s) }
    }
    /// VPL literal (constants are non-negative; float constants are never whole numbers)
    fn vpl(&self) -> String {
        match self { V::I(i) => format!("{}", i), V::F(q) => format!("{}", *q as f64 / 4.0), V::S(s) => format!("\"{}\"", s) }
    }
}

#[derive(Clone, Copy, Debug, PartialEq)]
enum Op { Eq, Ne, Lt, Le, Gt, Ge }
const OPS: [Op; 6] = [Op::Eq, Op::Ne, Op::Lt, Op::Le, Op::Gt, Op::Ge];
impl Op {
    fn sase(self) -> CompareOp {
        match self { Op::Eq => CompareOp::Eq, Op::Ne => CompareOp::NotEq, Op::Lt => CompareOp::Lt, Op::Le => CompareOp::Le, Op::Gt => CompareOp::Gt, Op::Ge => CompareOp::Ge }
    }
    fn model(self) -> &'static str { match self { Op::Eq => "eq", Op::Ne => "ne", Op::Lt => "lt", Op::Le => "le", Op::Gt => "gt", Op::Ge => "ge" } }
    fn vpl(self) -> &'static str { match self { Op::Eq => "==", Op::Ne => "!=", Op::Lt => "<", Op::Le => "<=", Op::Gt => ">", Op::Ge => ">=" } }
}

#[derive(Clone, Debug)]
enum P { Cmp(String, Op, V), Ref(String, Op, String, String), And(Box<P>, Box<P>), Or(Box<P>, Box<P>), Not(Box<P>) }

impl P {
    fn sase(&self) -> Predicate {
        match self {
            P::Cmp(f, op, v) => Predicate::Compare { field: f.clone(), op: op.sase(), value: v.value() },
            P::Ref(f, op, a, rf) => Predicate::CompareRef { field: f.clone(), op: op.sase(), ref_alias: a.clone(), ref_field: rf.clone() },
            P::And(l, r) => Predicate::And(Box::new(l.sase()), Box::new(r.sase())),
            P::Or(l, r) => Predicate::Or(Box::new(l.sase()), Box::new(r.sase())),
            P::Not(q) => Predicate::Not(Box::new(q.sase())),
        }
    }
    fn model(&self) -> String {
        match self {
            P::Cmp(f, op, v) => format!("c {} {} {}", f, op.model(), v.model()),
            P::Ref(f, op, a, rf) => format!("r {} {} {} {}", f, op.model(), a, rf),
            P::And(l, r) => format!("and {} {}", l.model(), r.model()),
            P::Or(l, r) => format!("or {} {}", l.model(), r.model()),
            P::Not(q) => format!("not {}", q.model()),
        }
    }
    fn vpl(&self) -> String {
        match self {
            P::Cmp(f, op, v) => format!("{} {} {}", f, op.vpl(), v.vpl()),
            P::Ref(f, op, a, rf) => format!("{} {} {}.{}", f, op.vpl(), a, rf),
            P::And(l, r) => format!("({} and {})", l.vpl(), r.vpl()),
            P::Or(l, r) => format!("({} or {})", l.vpl(), r.vpl()),
            P::Not(q) => format!("not ({})", q.vpl()),
        }
    }
    fn self_ref(&self, alias: &Option<String>) -> bool {
        match self {
            P::Cmp(..) => false,
            P::Ref(_, _, a, _) => alias.as_deref() == Some(a.as_str()),
            P::And(l, r) | P::Or(l, r) => l.self_ref(alias) || r.self_ref(alias),
            P::Not(q) => q.self_ref(alias),
        }
    }
}

#[derive(Clone, Debug)]
struct Step { ty: usize, pred: Option<P>, alias: Option<String>, kleene: bool }

/// how the pattern is written in VPL
#[derive(Clone, Copy, Debug, PartialEq)]
enum Form { Arrow, SequenceDecl, DerivedFirst, None }

#[derive(Clone, Debug)]
struct Pat {
    steps: Vec<Step>,
    partition: Option<String>,
    negs: Vec<(usize, Option<P>)>,
    max_runs: usize,
    max_kleene: u32,
    max_results: usize,
    /// a self-referencing `all` filter on a non-last step (enumeration at completion): streams are kept short
    deferred: bool,
    form: Form,
}

#[derive(Clone, Debug)]
struct Ev { idx: usize, ty: usize, fields: Vec<(String, V)> }

impl Ev {
    fn event(&self) -> Event {
        let mut e = Event::new(TYPES[self.ty]).with_field("i", Value::Int(self.idx as i64));
        for (k, v) in &self.fields { e = e.with_field(k.as_str(), v.value()); }
        e
    }
    fn model(&self) -> String {
        let mut s = format!("ev {} {}", self.idx, TYPES[self.ty]);
        for (k, v) in &self.fields { s.push_str(&format!(" {}={}", k, v.model())); }
        s
    }
}

impl Pat {
    fn header(&self, prop: &str) -> String {
        let mut s = format!("new {} mr={} mk={} mx={} part={}", prop, self.max_runs, self.max_kleene, self.max_results, self.partition.clone().unwrap_or("_".into()));
        for st in &self.steps {
            s.push_str(&format!(" ; step {} {} {} {}", TYPES[st.ty], st.alias.clone().unwrap_or("_".into()),
                if st.kleene { "k" } else { "e" }, st.pred.as_ref().map(|p| p.model()).unwrap_or("_".into())));
        }
        for (t, p) in &self.negs {
            s.push_str(&format!(" ; neg {} {}", TYPES[*t], p.as_ref().map(|p| p.model()).unwrap_or("_".into())));
        }
        s
    }

    fn sase(&self) -> SaseEngine {
        let mut steps: Vec<SasePattern> = self.steps.iter().map(|st| {
            let ev = SasePattern::Event { event_type: TYPES[st.ty].to_string(), predicate: st.pred.as_ref().map(|p| p.sase()), alias: st.alias.clone() };
            if st.kleene { SasePattern::KleenePlus(Box::new(ev)) } else { ev }
        }).collect();
        let pat = if steps.len() == 1 { steps.pop().unwrap() } else { SasePattern::Seq(steps) };
        let mut eng = SaseEngine::new(pat).with_max_runs(self.max_runs).with_max_kleene_events(self.max_kleene).with_max_enumeration_results(self.max_results);
        if let Some(k) = &self.partition { eng = eng.with_partition_by(k.clone()); }
        for (t, p) in &self.negs { eng.add_negation(TYPES[*t].to_string(), p.as_ref().map(|p| p.sase())); }
        eng
    }

    /// VPL text of the intended pattern, if this pattern can be written in the chosen form
    fn vpl(&self) -> Option<String> {
        if self.max_runs != 10000 || self.max_kleene != 20 || self.max_results != 10000 { return None; }
        let mut src = String::new();
        let emit: Vec<String> = self.steps.iter().filter_map(|s| s.alias.clone()).map(|a| format!("{a}_i: {a}.i")).collect();
        let emit = if emit.is_empty() { "z: 1".to_string() } else { emit.join(", ") };
        match self.form {
            Form::None => return None,
            Form::SequenceDecl => {
                let parts: Vec<String> = self.steps.iter().map(|s| {
                    let mut t = format!("{}: {}", s.alias.clone().unwrap(), TYPES[s.ty]);
                    if let Some(p) = &s.pred { t.push_str(&format!(" where {}", p.vpl())); }
                    t
                }).collect();
                src.push_str(&format!("stream S = sequence({})\n", parts.join(", ")));
            }
            Form::Arrow | Form::DerivedFirst => {
                let s0 = &self.steps[0];
                let first_name = if self.form == Form::DerivedFirst {
                    src.push_str(&format!("stream F0 = {}\n    .where({})\n", TYPES[s0.ty], s0.pred.as_ref().unwrap().vpl()));
                    "F0".to_string()
                } else { TYPES[s0.ty].to_string() };
                src.push_str("stream S = ");
                if s0.kleene { src.push_str("all "); }
                src.push_str(&first_name);
                if let Some(a) = &s0.alias { src.push_str(&format!(" as {}", a)); }
                src.push('\n');
                for s in &self.steps[1..] {
                    src.push_str("    -> ");
                    if s.kleene { src.push_str("all "); }
                    src.push_str(TYPES[s.ty]);
                    if let Some(p) = &s.pred { src.push_str(&format!(" where {}", p.vpl())); }
                    if let Some(a) = &s.alias { src.push_str(&format!(" as {}", a)); }
                    src.push('\n');
                }
            }
        }
        if let Some(k) = &self.partition { src.push_str(&format!("    .partition_by({})\n", k)); }
        for (t, p) in &self.negs {
            match p {
                Some(p) => src.push_str(&format!("    .not({} where {})\n", TYPES[*t], p.vpl())),
                None => src.push_str(&format!("    .not({})\n", TYPES[*t])),
            }
        }
        src.push_str(&format!("    .emit({})\n", emit));
        Some(src)
    }
}

// ---------------------------------------------------------------------------------------------
// generators
// ---------------------------------------------------------------------------------------------

fn gen_const(rng: &mut Rng, field: &str) -> V {
    match field {
        "s" => V::S(rng.pick(&["u", "v"]).to_string()),
        "y" => V::I(rng.range(0, 2)),
        _ => if rng.chance(1, 4) { V::F(*rng.pick(&[1i64, 2, 6, 9])) } else { V::I(rng.range(0, 3)) },
    }
}

fn gen_pred(rng: &mut Rng, depth: u32, aliases: &[String], own: &Option<String>) -> P {
    let r = rng.below(10);
    if depth > 0 && r < 3 {
        let l = gen_pred(rng, depth - 1, aliases, own);
        let rr = gen_pred(rng, depth - 1, aliases, own);
        return if rng.chance(1, 2) { P::And(Box::new(l), Box::new(rr)) } else { P::Or(Box::new(l), Box::new(rr)) };
    }
    if depth > 0 && r == 3 { return P::Not(Box::new(gen_pred(rng, depth - 1, aliases, own))); }
    let field = rng.pick(&["x", "x", "x", "y", "s"]).to_string();
    let op = if field == "s" { *rng.pick(&[Op::Eq, Op::Ne, Op::Lt]) } else { *rng.pick(&OPS) };
    let mut refs: Vec<String> = aliases.to_vec();
    if let Some(o) = own { refs.push(o.clone()); }
    if !refs.is_empty() && r >= 6 {
        let a = rng.pick(&refs).clone();
        // mostly the same field of the other event; sometimes a different one (type mismatch -> None ordering)
        let rf = if rng.chance(5, 6) { field.clone() } else { rng.pick(&["x", "y", "s"]).to_string() };
        return P::Ref(field, op, a, rf);
    }
    let v = gen_const(rng, &field);
    P::Cmp(field, op, v)
}

fn gen_pattern(rng: &mut Rng, allow_all: bool) -> Pat {
    let n = match rng.below(10) { 0 => 1, 1..=4 => 2, 5..=7 => 3, _ => 4 } as usize;
    let ntypes = rng.range(2, 4) as u64;
    let names = ["a", "b", "c", "d"];
    let mut steps: Vec<Step> = Vec::new();
    let mut aliases: Vec<String> = Vec::new();
    for j in 0..n {
        let ty = rng.below(ntypes) as usize;
        let alias = if rng.chance(9, 10) { Some(names[j].to_string()) } else { None };
        let kleene = allow_all && rng.chance(1, 4);
        // a self-referencing filter is inside the modelled fragment only on a trailing `all` step
        let own = if kleene && j == n - 1 && rng.chance(1, 2) { alias.clone() } else { None };
        let pred = if rng.chance(3, 5) { Some(gen_pred(rng, 2, &aliases, &own)) } else { None };
        steps.push(Step { ty, pred, alias: alias.clone(), kleene });
        if let Some(a) = alias { aliases.push(a); }
    }
    let partition = if rng.chance(1, 3) { Some("k".to_string()) } else { None };
    let mut negs = Vec::new();
    if rng.chance(2, 5) {
        let cnt = if rng.chance(1, 5) { 2 } else { 1 };
        for _ in 0..cnt {
            // negation types may coincide with step types
            let t = rng.below(4) as usize;
            let p = if rng.chance(2, 3) { Some(gen_pred(rng, 1, &aliases, &None)) } else { None };
            negs.push((t, p));
        }
    }
    // small caps, except for partitioned patterns with `.not`: there invalidated runs of other partitions linger
    // in their Vec until `cleanup_timeouts` (wall clock, every 100 ms) or their partition's next event removes
    // them, so whether `len < max_runs` holds would depend on timing
    let small = rng.chance(1, 10);
    let (max_runs, max_kleene) = if small && !(partition.is_some() && !negs.is_empty()) { (rng.range(1, 3) as usize, rng.range(1, 3) as u32) } else { (10000, 20) };
    let all_free = steps.iter().all(|s| !s.kleene);
    // a first-step filter together with an `all` step has no VPL rendering (`sequence()` has no `all`, the derived
    // form is kept for `all`-free patterns): mostly drop the first filter so that the VPL path sees `all` patterns
    if !all_free && steps[0].pred.is_some() && n >= 2 && rng.chance(3, 4) { steps[0].pred = None; }
    let all_aliased = steps.iter().all(|s| s.alias.is_some());
    let first_pred = steps[0].pred.is_some();
    let form = if first_pred {
        if all_free && all_aliased && rng.chance(2, 3) { Form::SequenceDecl }
        // derived stream as first step: only for `all`-free patterns (with an `all` step of the same
        // type the engine delivers every passing event to the Kleene self-loop twice — engine routing,
        // outside this model; see notes/C01.md)
        else if n >= 2 && all_free { Form::DerivedFirst } else { Form::None }
    } else if all_free && all_aliased && rng.chance(1, 4) { Form::SequenceDecl }
    else if n >= 2 { Form::Arrow } else { Form::None };
    Pat { steps, partition, negs, max_runs, max_kleene, max_results: 10000, deferred: false, form }
}

/// `… -> all X where <self-referencing filter> as x -> …`: exactly one `all` step, neither first nor last;
/// later filters and `.not` clauses do not mention its alias (Model/Sase.lean `Pat.deferredOK`)
fn gen_deferred_pattern(rng: &mut Rng, later_refs: bool) -> Pat {
    let n = if rng.chance(2, 3) { 3 } else { 4 };
    let ki = rng.range(1, n as i64 - 2) as usize;
    let ntypes = rng.range(2, 4) as u64;
    let names = ["a", "b", "c", "d"];
    let mut steps: Vec<Step> = Vec::new();
    let mut aliases: Vec<String> = Vec::new();      // aliases later filters may mention
    for j in 0..n {
        let ty = rng.below(ntypes) as usize;
        if j == ki {
            let own = names[j].to_string();
            let field = rng.pick(&["x", "x", "y"]).to_string();
            let selfp = P::Ref(field.clone(), *rng.pick(&OPS), own.clone(), field);
            let pred = match rng.below(4) {
                0 => P::And(Box::new(selfp), Box::new(gen_pred(rng, 1, &aliases, &None))),
                1 => P::Or(Box::new(gen_pred(rng, 1, &aliases, &None)), Box::new(selfp)),
                _ => selfp,
            };
            steps.push(Step { ty, pred: Some(pred), alias: Some(own.clone()), kleene: true });
            // known finding C01-enum-later-ref: later filters / `.not` clauses may mention the Kleene alias
            if later_refs { aliases.push(own); }
        } else if later_refs && j == ki + 1 {
            let kal = names[ki].to_string();
            let field = rng.pick(&["x", "x", "y"]).to_string();
            let refp = P::Ref(field.clone(), *rng.pick(&OPS), kal, field);
            let pred = if rng.chance(1, 3) { P::And(Box::new(refp), Box::new(gen_pred(rng, 1, &aliases, &None))) } else { refp };
            let alias = Some(names[j].to_string());
            steps.push(Step { ty, pred: Some(pred), alias: alias.clone(), kleene: false });
            aliases.push(names[j].to_string());
        } else {
            let alias = if rng.chance(9, 10) { Some(names[j].to_string()) } else { None };
            let pred = if j > 0 && rng.chance(1, 2) { Some(gen_pred(rng, 1, &aliases, &None)) } else { None };
            steps.push(Step { ty, pred, alias: alias.clone(), kleene: false });
            if let Some(a) = alias { aliases.push(a); }
        }
    }
    let partition = if rng.chance(1, 4) { Some("k".to_string()) } else { None };
    let mut negs = Vec::new();
    if rng.chance(1, 3) {
        let t = rng.below(4) as usize;
        let p = if rng.chance(1, 2) { Some(gen_pred(rng, 1, &aliases, &None)) } else { None };
        negs.push((t, p));
    }
    let (max_kleene, max_results) = if rng.chance(1, 4) { (rng.range(1, 4) as u32, rng.range(1, 5) as usize) } else { (20, 10000) };
    Pat { steps, partition, negs, max_runs: 10000, max_kleene, max_results, deferred: true, form: Form::Arrow }
}

/// known finding C01-late-selfref-all: a consistent `all` step followed (later) by a non-last `all` step whose
/// filter references its own alias (the capture exists without a deferred predicate, the filter is never evaluated)
fn gen_late_selfref_pattern(rng: &mut Rng) -> Pat {
    let n = if rng.chance(1, 2) { 3 } else { 4 };
    let k1 = if n == 3 { 0 } else { rng.range(0, 1) as usize };
    let k2 = if n == 3 { 1 } else { rng.range(k1 as i64 + 1, 2) as usize };
    let ntypes = rng.range(2, 4) as u64;
    let names = ["a", "b", "c", "d"];
    let mut steps: Vec<Step> = Vec::new();
    let mut aliases: Vec<String> = Vec::new();
    for j in 0..n {
        let ty = rng.below(ntypes) as usize;
        let own = names[j].to_string();
        if j == k2 {
            let field = rng.pick(&["x", "x", "y"]).to_string();
            steps.push(Step { ty, pred: Some(P::Ref(field.clone(), *rng.pick(&OPS), own.clone(), field)), alias: Some(own.clone()), kleene: true });
        } else if j == k1 {
            let pred = if j > 0 && rng.chance(1, 3) { Some(gen_pred(rng, 1, &aliases, &None)) } else { None };
            steps.push(Step { ty, pred, alias: Some(own.clone()), kleene: true });
        } else {
            let pred = if j > 0 && rng.chance(1, 3) { Some(gen_pred(rng, 1, &aliases, &None)) } else { None };
            steps.push(Step { ty, pred, alias: Some(own.clone()), kleene: false });
        }
        aliases.push(own);
    }
    let partition = if rng.chance(1, 4) { Some("k".to_string()) } else { None };
    Pat { steps, partition, negs: Vec::new(), max_runs: 10000, max_kleene: 20, max_results: 10000, deferred: false, form: Form::Arrow }
}

fn gen_fields(rng: &mut Rng) -> Vec<(String, V)> {
    let mut f = Vec::new();
    match rng.below(10) {
        0 => {}
        1 | 2 => f.push(("x".to_string(), V::F(rng.range(-2, 10)))),
        3 => f.push(("x".to_string(), V::S("u".into()))),
        _ => f.push(("x".to_string(), V::I(rng.range(-1, 3)))),
    }
    if rng.chance(4, 5) { f.push(("y".to_string(), V::I(rng.range(0, 2)))); }
    if rng.chance(3, 4) { f.push(("s".to_string(), V::S(rng.pick(&["u", "v"]).to_string()))); }
    match rng.below(8) {
        0 => {}
        1 | 2 | 3 => f.push(("k".to_string(), V::I(1))),
        4 | 5 => f.push(("k".to_string(), V::I(2))),
        _ => f.push(("k".to_string(), V::S("u".into()))),
    }
    f
}

fn gen_stream(rng: &mut Rng, pat: &Pat, len: usize) -> Vec<Ev> {
    let mut pool: Vec<usize> = pat.steps.iter().map(|s| s.ty).collect();
    pool.extend(pat.negs.iter().map(|n| n.0));
    (0..len).map(|idx| {
        let ty = if rng.chance(5, 6) { *rng.pick(&pool) } else { rng.below(4) as usize };
        Ev { idx, ty, fields: gen_fields(rng) }
    }).collect()
}

// ---------------------------------------------------------------------------------------------
// running the two renderings
// ---------------------------------------------------------------------------------------------

// ---------------------------------------------------------------------------------------------
// dump of the real compiled NFA (`SaseEngine::nfa()`), in the format of Driver/Sase.lean `fmtNfa`
// ---------------------------------------------------------------------------------------------

fn dump_value(v: &Value) -> String {
    match v {
        Value::Int(i) => format!("i:{}", i),
        Value::Float(f) => format!("f:{}", (*f * 4.0) as i64),
        Value::Str(s) => format!("s:{}", s),
        Value::Bool(b) => format!("b:{}", if *b { 1 } else { 0 }),
        other => format!("?:{}", other),
    }
}

fn dump_op(op: CompareOp) -> &'static str {
    match op { CompareOp::Eq => "eq", CompareOp::NotEq => "ne", CompareOp::Lt => "lt", CompareOp::Le => "le", CompareOp::Gt => "gt", CompareOp::Ge => "ge" }
}

fn dump_pred(p: &Predicate) -> String {
    match p {
        Predicate::Compare { field, op, value } => format!("c {} {} {}", field, dump_op(*op), dump_value(value)),
        Predicate::CompareRef { field, op, ref_alias, ref_field } => format!("r {} {} {} {}", field, dump_op(*op), ref_alias, ref_field),
        Predicate::And(l, r) => format!("and {} {}", dump_pred(l), dump_pred(r)),
        Predicate::Or(l, r) => format!("or {} {}", dump_pred(l), dump_pred(r)),
        Predicate::Not(q) => format!("not {}", dump_pred(q)),
        Predicate::Expr(_) => "expr".to_string(),
    }
}

fn dump_ids(ids: &[usize]) -> String {
    if ids.is_empty() { "-".into() } else { ids.iter().map(|i| i.to_string()).collect::<Vec<_>>().join(",") }
}

fn dump_nfa(eng: &SaseEngine) -> String {
    eng.nfa().states.iter().map(|s| {
        let st = match s.state_type { StateType::Start => "start", StateType::Normal => "normal", StateType::Kleene => "kleene",
            StateType::Accept => "accept", StateType::Negation => "negation", StateType::And => "and" };
        format!("{};{};{};{};{};{};{};{};{}", st, s.event_type.clone().unwrap_or("_".into()), s.alias.clone().unwrap_or("_".into()),
            s.predicate.as_ref().map(dump_pred).unwrap_or("_".into()), s.postponed_predicate.as_ref().map(dump_pred).unwrap_or("_".into()),
            dump_ids(&s.epsilon_transitions), dump_ids(&s.transitions), if s.self_loop { 1 } else { 0 }, if s.has_epsilon_to_accept { 1 } else { 0 })
    }).collect::<Vec<_>>().join(" | ")
}

fn fmt_api(ms: &[MatchResult]) -> String {
    let mut out: Vec<String> = ms.iter().map(|m| {
        let st: Vec<String> = m.stack.iter().map(|e| format!("{}{}", idx_of(&e.event), e.alias.clone().unwrap_or("_".into()))).collect();
        let mut cp: Vec<String> = m.captured.iter().map(|(k, v)| format!("{}={}", k, idx_of(v))).collect();
        cp.sort();
        format!("{}|{}", st.join(","), cp.join(","))
    }).collect();
    out.sort();
    if out.is_empty() { "-".into() } else { out.join(";") }
}

fn idx_of(e: &Event) -> String { e.get("i").map(|v| format!("{}", v)).unwrap_or("?".into()) }

fn fmt_vpl(outs: &[Event]) -> String {
    let mut out: Vec<String> = outs.iter().map(|o| {
        let mut cp: Vec<String> = o.data.iter().filter(|(k, _)| k.ends_with("_i"))
            .map(|(k, v)| format!("{}={}", &k[..k.len() - 2], v)).collect();
        cp.sort();
        cp.join(",")
    }).collect();
    out.sort();
    if out.is_empty() { "-".into() } else { out.join(";") }
}

struct VplRun { engine: Engine, rx: tokio::sync::mpsc::Receiver<Event> }

fn vpl_parse(src: &str) -> varpulis_core::ast::Program {
    match varpulis_parser::parse(src) {
        Ok(p) => p,
        Err(e) => { eprintln!("generator error: the parser rejects a generated program: {:?}\n{}", e, src); std::process::exit(3); }
    }
}

fn vpl_start(program: &varpulis_core::ast::Program) -> Result<VplRun, String> {
    let (tx, rx) = tokio::sync::mpsc::channel(100_000);
    let mut engine = Engine::new(tx);
    engine.load(program).map_err(|e| format!("load: {:?}", e))?;
    Ok(VplRun { engine, rx })
}

fn run_scenario(ctx: &mut Ctx, rt: &tokio::runtime::Runtime, prop: &str, pat: &Pat, program: &Option<varpulis_core::ast::Program>, evs: &[Ev]) {
    ctx.directive(&pat.header(prop));
    let mut api = pat.sase();
    let mut vpl = match program {
        Some(pr) => match vpl_start(pr) {
            Ok(v) => Some(v),
            Err(e) => { eprintln!("generator error: the engine rejects a generated program: {}\n{:?}", e, pat.vpl()); std::process::exit(3); }
        },
        None => None,
    };
    for ev in evs {
        let e = ev.event();
        let a = match catch(std::panic::AssertUnwindSafe(|| api.process(&e))) { Ok(ms) => fmt_api(&ms), Err(_) => "panic".to_string() };
        let v = match vpl.as_mut() {
            None => "NA".to_string(),
            Some(vr) => {
                let r = rt.block_on(async { vr.engine.process(e.clone()).await });
                let mut outs = Vec::new();
                while let Ok(o) = vr.rx.try_recv() { outs.push(o); }
                match r { Ok(_) => fmt_vpl(&outs), Err(_) => "error".to_string() }
            }
        };
        if a != "-" { ctx.count("event.api-match"); }
        if v != "-" && v != "NA" { ctx.count("event.vpl-match"); }
        ctx.case(&ev.model(), &format!("api={} vpl={}", a, v));
    }
}

fn count_pattern(ctx: &mut Ctx, pat: &Pat) {
    ctx.count(&format!("pattern.steps={}", pat.steps.len()));
    ctx.count(&format!("pattern.form={:?}", pat.form));
    if pat.steps.iter().any(|s| s.kleene) { ctx.count("pattern.has-all"); }
    if pat.deferred { ctx.count("pattern.deferred-enumeration"); }
    if pat.steps.last().map(|s| s.kleene && s.pred.as_ref().map(|p| p.self_ref(&s.alias)).unwrap_or(false)).unwrap_or(false) { ctx.count("pattern.trailing-all-selfref"); }
    if pat.partition.is_some() { ctx.count("pattern.partitioned"); }
    if !pat.negs.is_empty() { ctx.count("pattern.not"); }
    if pat.negs.iter().any(|n| pat.steps.iter().any(|s| s.ty == n.0)) { ctx.count("pattern.not-type-is-step-type"); }
    if pat.max_runs != 10000 { ctx.count("pattern.small-caps"); }
    if pat.steps.iter().any(|s| matches!(&s.pred, Some(p) if has_ref(p))) { ctx.count("pattern.cross-alias-filter"); }
}

fn has_ref(p: &P) -> bool {
    match p { P::Cmp(..) => false, P::Ref(..) => true, P::And(l, r) | P::Or(l, r) => has_ref(l) || has_ref(r), P::Not(q) => has_ref(q) }
}

/// hand-written patterns that exercise the corners named in DESIGN §7 (always run first)
fn fixed_patterns(allow_all: bool) -> Vec<Pat> {
    let st = |ty: usize, a: &str, k: bool, p: Option<P>| Step { ty, pred: p, alias: Some(a.to_string()), kleene: k };
    let refp = |f: &str, op: Op, a: &str| P::Ref(f.into(), op, a.into(), f.into());
    let cmp = |f: &str, op: Op, v: i64| P::Cmp(f.into(), op, V::I(v));
    let base = |steps: Vec<Step>, part: bool, negs: Vec<(usize, Option<P>)>, form: Form| Pat {
        steps, partition: if part { Some("k".into()) } else { None }, negs, max_runs: 10000, max_kleene: 20, max_results: 10000, deferred: false, form };
    let mut v = vec![
        // one-step pattern
        base(vec![st(0, "a", false, None)], false, vec![], Form::SequenceDecl),
        base(vec![st(0, "a", false, Some(cmp("x", Op::Gt, 0)))], true, vec![], Form::SequenceDecl),
        // two steps, same type
        base(vec![st(0, "a", false, None), st(0, "b", false, Some(refp("x", Op::Gt, "a")))], false, vec![], Form::Arrow),
        // negation type = last step type
        base(vec![st(0, "a", false, None), st(1, "b", false, None)], false, vec![(1, Some(cmp("x", Op::Gt, 1)))], Form::Arrow),
        // negation type = middle step type, partitioned, negation refers to a capture
        base(vec![st(0, "a", false, None), st(1, "b", false, None), st(2, "c", false, Some(refp("y", Op::Eq, "a")))], true, vec![(1, Some(refp("x", Op::Eq, "a")))], Form::Arrow),
        // predicate-less negation of a foreign type
        base(vec![st(0, "a", false, Some(cmp("x", Op::Ge, 1))), st(1, "b", false, Some(refp("x", Op::Eq, "a")))], false, vec![(3, None)], Form::SequenceDecl),
        base(vec![st(0, "a", false, Some(cmp("x", Op::Ge, 1))), st(1, "b", false, None), st(0, "c", false, None)], true, vec![(2, None)], Form::DerivedFirst),
    ];
    if allow_all {
        v.extend(vec![
            // the DESIGN §7 witness: trailing `all` with a self-referencing filter
            base(vec![st(0, "a", false, None), st(1, "b", true, Some(refp("x", Op::Gt, "b")))], false, vec![], Form::Arrow),
            base(vec![st(0, "a", false, None), st(1, "b", true, Some(cmp("x", Op::Gt, 1)))], false, vec![], Form::Arrow),
            base(vec![st(0, "a", false, None), st(1, "b", true, None), st(2, "c", false, Some(refp("x", Op::Ge, "b")))], false, vec![(3, None)], Form::Arrow),
            base(vec![st(0, "a", true, None), st(1, "b", true, None)], true, vec![], Form::Arrow),
            base(vec![st(0, "a", true, None)], false, vec![], Form::None),
        ]);
        // enumeration at completion: self-referencing `all` filter on a middle step
        let mut d1 = base(vec![st(0, "a", false, None), st(1, "b", true, Some(refp("x", Op::Gt, "b"))), st(2, "c", false, None)], false, vec![], Form::Arrow);
        d1.deferred = true;
        let mut d2 = base(vec![st(0, "a", false, None), st(1, "b", true, Some(P::And(Box::new(refp("x", Op::Ge, "b")), Box::new(refp("x", Op::Gt, "a"))))), st(2, "c", false, Some(refp("y", Op::Eq, "a")))], true, vec![(3, None)], Form::Arrow);
        d2.deferred = true;
        v.push(d1); v.push(d2);
        // witnesses of the known findings C01-enum-later-ref and C01-late-selfref-all (replayed on every run)
        let mut k1 = base(vec![st(0, "a", false, None), st(1, "b", true, Some(refp("x", Op::Gt, "b"))), st(2, "c", false, Some(refp("x", Op::Lt, "b")))], false, vec![], Form::Arrow);
        k1.deferred = true;
        let k2 = base(vec![st(0, "a", false, None), st(1, "b", true, None), st(2, "c", true, Some(refp("x", Op::Gt, "c"))), st(3, "d", false, None)], false, vec![], Form::Arrow);
        v.push(k1); v.push(k2);
    }
    v
}

/// three "letters" (event kinds) per pattern for the exhaustive streams
fn letters(rng: &mut Rng, pat: &Pat) -> Vec<(usize, Vec<(String, V)>)> {
    let mut pool: Vec<usize> = pat.steps.iter().map(|s| s.ty).collect();
    pool.extend(pat.negs.iter().map(|n| n.0));
    (0..3).map(|_| (*rng.pick(&pool), gen_fields(rng))).collect()
}

pub fn run(ctx: &mut Ctx, name: &str) {
    let rt = tokio::runtime::Builder::new_current_thread().enable_all().build().unwrap();
    let allow_all = name == "C01";
    let thorough = ctx.thorough;
    let (programs, streams, maxlen) = if thorough { (3000, 30, 24) } else { (260, 14, 12) };
    let mut pats = fixed_patterns(allow_all);
    let nfixed = pats.len();
    for _ in 0..programs { let p = if allow_all && ctx.rng.chance(1, 7) { let lr = ctx.rng.chance(1, 4); gen_deferred_pattern(&mut ctx.rng, lr) }
            else if allow_all && ctx.rng.chance(1, 25) { gen_late_selfref_pattern(&mut ctx.rng) }
            else { gen_pattern(&mut ctx.rng, allow_all) };
        pats.push(p); }
    for (pi, pat) in pats.iter().enumerate() {
        count_pattern(ctx, pat);
        let program = pat.vpl().map(|src| vpl_parse(&src));
        // the compiled NFA of this pattern against the model's `compile` (theorem compile_linear speaks about it)
        ctx.directive(&pat.header(name));
        ctx.case("nfa", &dump_nfa(&pat.sase()));
        ctx.count("nfa-dump");
        let ns = if pi < nfixed { streams * 3 } else { streams };
        for _ in 0..ns {
            let len = ctx.rng.range(1, if pat.deferred { 9 } else { maxlen as i64 }) as usize;
            let evs = gen_stream(&mut ctx.rng, pat, len);
            run_scenario(ctx, &rt, name, pat, &program, &evs);
        }
        // exhaustive streams of length <= L over a 3-letter alphabet for the fixed and some random patterns
        let exhaustive = if thorough { pi < nfixed || pi % 100 == 0 } else { pi < nfixed && pi % 3 == 0 };
        if exhaustive {
            let ls = letters(&mut ctx.rng, pat);
            let maxl = if thorough { 6 } else { 4 };
            for l in 1..=maxl {
                let total = 3usize.pow(l as u32);
                for code in 0..total {
                    let mut c = code;
                    let evs: Vec<Ev> = (0..l).map(|idx| { let (ty, f) = &ls[c % 3]; c /= 3; Ev { idx, ty: *ty, fields: f.clone() } }).collect();
                    run_scenario(ctx, &rt, name, pat, &program, &evs);
                }
            }
            ctx.count("pattern.exhaustive-streams");
        }
    }
    ctx.notes.push(format!("{} patterns ({} hand-written), streams of length <= {}", pats.len(), nfixed, maxlen));
}
