//! C26 / C27: the real `ContextOrchestrator` under forced schedules (verif hook `verif_ctx`:
//! every context thread parks before each channel operation until the harness grants it one step,
//! and every channel operation is recorded). The recorded trace is printed record by record; the
//! Lean driver `ctx` replays it through the model's successor function (trace validation) and
//! judges delivery per edge, the outputs against the same program without contexts, the cut of each
//! completed coordinated checkpoint, and restore + replay against the uninterrupted run.
//! Every wait has a timeout; a timeout is an infrastructure error (exit 3), never a verdict.
use crate::util::Ctx;
use std::collections::{BTreeMap, HashMap, HashSet};
use std::sync::Arc;
use std::time::Duration;
use tokio::sync::mpsc;
use varpulis_parser::parse;
use varpulis_runtime::context::verif_ctx as vc;
use varpulis_runtime::engine::Engine;
use varpulis_runtime::event::Event;
use varpulis_runtime::persistence::{Checkpoint, CheckpointConfig, MemoryStore, StateStore};
use varpulis_runtime::ContextOrchestrator;

pub const NAMES: &[&str] = &["C26", "C27"];

fn infra(msg: &str) -> ! {
    eprintln!("infrastructure error (C26/C27 harness): {msg}");
    std::process::exit(3);
}

// ---------------------------------------------------------------------------------------------
// programs

#[derive(Clone, Debug)]
struct StreamD {
    name: String,
    src: String,
    ctx: usize,
    /// 0: where v > a, emit v + b · 1: count window of 2, sum · 2: distinct(v) ·
    /// 3: sequence `src as a -> src2 as b` over two raw types of its own (one `src2` event completes
    /// every open run: SEVERAL outputs for one input)
    kind: u8,
    /// second source type of a sequence stream
    src2: Option<String>,
    /// the source is written `src as x` (aliased) instead of a bare identifier
    alias: bool,
    a: i64,
    b: i64,
}

#[derive(Clone, Debug)]
struct Prog {
    nctx: usize,
    streams: Vec<StreamD>,
}

impl Prog {
    fn vpl(&self, with_ctx: bool) -> String {
        let mut s = String::new();
        if with_ctx {
            for c in 0..self.nctx {
                s.push_str(&format!("context c{c}\n"));
            }
        }
        for st in &self.streams {
            if st.kind == 3 {
                s.push_str(&format!("\nstream {} = {} as a\n    -> {} as b\n", st.name, st.src, st.src2.as_deref().unwrap_or("B")));
            } else if st.alias {
                s.push_str(&format!("\nstream {} = {} as x\n", st.name, st.src));
            } else {
                s.push_str(&format!("\nstream {} = {}\n", st.name, st.src));
            }
            if with_ctx {
                s.push_str(&format!("    .context(c{})\n", st.ctx));
            }
            match st.kind {
                0 => s.push_str(&format!("    .where(v > {})\n    .emit(id: id, v: v + {})\n", st.a, st.b)),
                1 => s.push_str("    .window(2)\n    .aggregate(id: last(id), v: sum(v))\n    .emit(id: id, v: v)\n"),
                3 => s.push_str("    .emit(id: a.id, v: b.v)\n"),
                _ => s.push_str(&format!("    .distinct(v)\n    .emit(id: id, v: v + {})\n", st.b)),
            }
        }
        s
    }
    fn raw_types(&self) -> Vec<String> {
        let names: HashSet<&str> = self.streams.iter().map(|s| s.name.as_str()).collect();
        let mut v: Vec<String> = Vec::new();
        for st in &self.streams {
            if !names.contains(st.src.as_str()) && !v.contains(&st.src) {
                v.push(st.src.clone());
            }
            if let Some(s2) = &st.src2 {
                if !v.contains(s2) {
                    v.push(s2.clone());
                }
            }
        }
        v
    }
}

fn canon(e: &Event) -> String {
    let mut fs: Vec<String> = e.data.iter().map(|(k, v)| format!("{}={}", k, v)).collect();
    fs.sort();
    format!("{}{{{}}}", e.event_type, fs.join(",")).replace(' ', "_")
}

fn mk_event(ty: &str, id: i64, v: i64) -> Event {
    Event::new(ty).with_field("id", id).with_field("v", v)
}

/// the same program without contexts, run on one engine
fn run_plain(prog: &Prog, events: &[Event]) -> Vec<Event> {
    let src = prog.vpl(false);
    let program = parse(&src).unwrap_or_else(|e| infra(&format!("generated program rejected: {e:?}\n{src}")));
    let rt = tokio::runtime::Builder::new_current_thread().enable_all().build().unwrap();
    rt.block_on(async {
        let (tx, mut rx) = mpsc::channel::<Event>(100_000);
        let mut engine = Engine::new(tx);
        engine.load(&program).unwrap_or_else(|e| infra(&format!("generated program does not load: {e}\n{src}")));
        for e in events {
            engine.process(e.clone()).await.unwrap_or_else(|e| infra(&format!("engine.process: {e}")));
        }
        let mut out = Vec::new();
        while let Ok(e) = rx.try_recv() {
            out.push(e);
        }
        out
    })
}

// ---------------------------------------------------------------------------------------------
// scheduled runs of the real orchestrator

struct Run {
    ingress_blocked: std::cell::Cell<bool>,
    orch: Option<ContextOrchestrator>,
    out_rx: mpsc::Receiver<Event>,
    names: Vec<String>,
    store: Arc<MemoryStore>,
}

fn build(prog: &Prog, cap: usize, checkpointing: bool, recovery: Option<&Checkpoint>, store: Arc<MemoryStore>) -> Run {
    let src = prog.vpl(true);
    let program = parse(&src).unwrap_or_else(|e| infra(&format!("generated program rejected: {e:?}\n{src}")));
    let (tmp_tx, _tmp_rx) = mpsc::channel(16);
    let mut tmp = Engine::new(tmp_tx);
    tmp.load(&program).unwrap_or_else(|e| infra(&format!("generated program does not load: {e}\n{src}")));
    if !tmp.has_contexts() {
        infra("generated program declares no contexts");
    }
    let (out_tx, out_rx) = mpsc::channel::<Event>(200_000);
    vc::arm();
    let ck = if checkpointing {
        Some((CheckpointConfig { interval: Duration::from_secs(3600), ..CheckpointConfig::default() }, store.clone() as Arc<dyn StateStore>))
    } else {
        None
    };
    let orch = ContextOrchestrator::build_with_checkpoint(tmp.context_map(), &program, out_tx, cap, ck, recovery)
        .unwrap_or_else(|e| infra(&format!("orchestrator build failed: {e}")));
    let names: Vec<String> = (0..prog.nctx).map(|c| format!("c{c}")).collect();
    for n in &names {
        match vc::wait_parked(n) {
            Ok("recv") => {}
            other => infra(&format!("context {n} did not reach its loop: {other:?}")),
        }
    }
    Run { ingress_blocked: std::cell::Cell::new(false), orch: Some(orch), out_rx, names, store }
}

impl Run {
    fn enabled(&self, n: &str) -> bool {
        match vc::parked_at(n) {
            Some("fwd") => true,
            Some("recv") => vc::inbox_len(n) > 0,
            _ => false,
        }
    }
    fn step(&self, n: &str) {
        if let Err(e) = vc::step(n) {
            let t = vc::disarm();
            infra(&format!("step {n}: {e}; trace tail {:?}", &t[t.len().saturating_sub(12)..]));
        }
    }
    /// stop the scheduler, shut the orchestrator down (bounded wait), return trace + everything the
    /// output channel received
    fn finish(mut self) -> (Vec<String>, Vec<Event>) {
        let trace = vc::disarm();
        if vc::is_stuck() {
            infra("scheduler hook timed out (stuck)");
        }
        let orch = self.orch.take().unwrap();
        let (tx, rx) = std::sync::mpsc::channel();
        std::thread::spawn(move || {
            orch.shutdown();
            let _ = tx.send(());
        });
        if rx.recv_timeout(Duration::from_secs(20)).is_err() {
            infra("orchestrator shutdown did not finish within 20 s");
        }
        let mut out = Vec::new();
        while let Ok(e) = self.out_rx.try_recv() {
            out.push(e);
        }
        (trace, out)
    }
}

/// scheduling weights: ingress, then one per context; weight 0 = only when nothing else can move
struct Policy {
    w: Vec<u64>,
}

impl Policy {
    fn random(ctx: &mut Ctx, nctx: usize) -> Policy {
        let pool = [0u64, 1, 1, 3, 10, 30];
        Policy { w: (0..=nctx).map(|_| *ctx.rng.pick(&pool)).collect() }
    }
    fn eager(nctx: usize) -> Policy {
        // downstream first: nothing accumulates
        let mut w = vec![0u64];
        for c in 0..nctx {
            w.push(1 + (c as u64) * 1000);
        }
        Policy { w }
    }
}

/// pick one enabled actor (0 = ingress, i+1 = context i); None = nothing can move
fn pick(ctx: &mut Ctx, run: &Run, pol: &Policy, ingress_has: bool) -> Option<usize> {
    let mut en: Vec<usize> = Vec::new();
    if ingress_has {
        en.push(0);
    }
    for (i, n) in run.names.iter().enumerate() {
        if run.enabled(n) {
            en.push(i + 1);
        }
    }
    if en.is_empty() {
        return None;
    }
    let pos: Vec<usize> = en.iter().copied().filter(|a| pol.w[*a] > 0).collect();
    if pos.is_empty() {
        return Some(*ctx.rng.pick(&en));
    }
    let total: u64 = pos.iter().map(|a| pol.w[*a]).sum();
    let mut r = ctx.rng.below(total);
    for a in &pos {
        if r < pol.w[*a] {
            return Some(*a);
        }
        r -= pol.w[*a];
    }
    Some(pos[0])
}

/// one scheduler step; returns false when nothing can move
fn sched_step(ctx: &mut Ctx, run: &Run, pol: &Policy, inputs: &[Event], next_in: &mut usize) -> bool {
    // the ingress can move unless its last attempt met a full inbox and no context has moved since
    // (the caller got `ChannelFull` back and retries later)
    let ingress = *next_in < inputs.len() && !run.ingress_blocked.get();
    match pick(ctx, run, pol, ingress) {
        None => false,
        Some(0) => {
            let ev = Arc::new(inputs[*next_in].clone());
            if run.orch.as_ref().unwrap().try_process(ev).is_ok() {
                *next_in += 1;
            } else {
                run.ingress_blocked.set(true);
            }
            true
        }
        Some(a) => {
            run.step(&run.names[a - 1]);
            run.ingress_blocked.set(false);
            true
        }
    }
}

// ---------------------------------------------------------------------------------------------
// trace rendering

fn cidx(name: &str) -> String {
    name.trim_start_matches('c').to_string()
}

/// one protocol line per trace record: `(op, impl result)`
fn render(trace: &[String]) -> Vec<(String, String)> {
    let recs: Vec<Vec<&str>> = trace.iter().map(|l| l.split(' ').collect()).collect();
    let mut lines = Vec::new();
    for (i, r) in recs.iter().enumerate() {
        match r[0] {
            "feed" => lines.push((format!("feed {}", r[2]), format!("{} {}", cidx(r[1]), r[3]))),
            "recv" => {
                // outputs of this message = the forwards of this context up to its next recv
                let mut outs: Vec<&str> = Vec::new();
                // (production order: the engine's own `emit` records, not the forwards)
                if r[2] == "ev" {
                    for r2 in recs.iter().skip(i + 1) {
                        if r2[0] == "recv" && r2[1] == r[1] {
                            break;
                        }
                        if r2[0] == "emit" && r2[1] == r[1] {
                            outs.push(r2[2]);
                        }
                    }
                }
                let o = if outs.is_empty() { "-".to_string() } else { outs.join(",") };
                lines.push((format!("recv {} {}", cidx(r[1]), o), format!("{} {}", r[2], r[3])));
            }
            "fwd" => lines.push((
                format!("fwd {}", cidx(r[1])),
                format!("{} {} {} {}", r[2], if r[3] == "-" { "-".to_string() } else { cidx(r[3]) }, r[4], r[5]),
            )),
            "inject" => lines.push((format!("inject {}", cidx(r[2])), format!("{} {}", r[1], r[3]))),
            "snap" | "ack" | "collect" => lines.push((format!("{} {}", r[0], cidx(r[1])), r[2].to_string())),
            "complete" => lines.push(("complete".to_string(), r[2].to_string())),
            "emit" => {}
            _ => lines.push((format!("unknown {}", r.join("_")), "?".to_string())),
        }
    }
    lines
}

/// per (stream type u, its context p, a context q): what the engine of p produced of type u
/// (production order), every forwarding attempt of it (`+` enqueued into q, `-` try_send into q
/// failed, `!` not sent to q at all) and what q took from its inbox — all straight from the
/// implementation's records. Listed: every pair (u, q) where a stream of q consumes u from another
/// context (whether or not the implementation routes it), plus every pair that shows up in a
/// forward or a receive.
fn edges(prog: &Prog, trace: &[String]) -> String {
    let owner: HashMap<&str, usize> = prog.streams.iter().map(|s| (s.name.as_str(), s.ctx)).collect();
    let mut pairs: Vec<(String, String)> = Vec::new(); // (type, q)
    for st in &prog.streams {
        for src in std::iter::once(&st.src).chain(st.src2.iter()) {
            if let Some(p) = owner.get(src.as_str()) {
                if *p != st.ctx {
                    let k = (src.clone(), st.ctx.to_string());
                    if !pairs.contains(&k) {
                        pairs.push(k);
                    }
                }
            }
        }
    }
    let recs: Vec<Vec<&str>> = trace.iter().map(|l| l.split(' ').collect()).collect();
    let ty_of = |k: &str| k.split('#').next().unwrap_or("").to_string();
    for r in &recs {
        let k = if r[0] == "fwd" && r[3] != "-" {
            Some((ty_of(r[2]), cidx(r[3])))
        } else if r[0] == "recv" && r[2] == "ev" && owner.contains_key(ty_of(r[3]).as_str()) {
            Some((ty_of(r[3]), cidx(r[1])))
        } else {
            None
        };
        if let Some(k) = k {
            if !pairs.contains(&k) {
                pairs.push(k);
            }
        }
    }
    pairs.sort();
    let j = |v: &Vec<String>| if v.is_empty() { "-".to_string() } else { v.join(",") };
    let mut out = Vec::new();
    for (u, q) in &pairs {
        let p = owner[u.as_str()].to_string();
        let mut prod = Vec::new();
        let mut att = Vec::new();
        let mut got = Vec::new();
        for r in &recs {
            if r[0] == "emit" && cidx(r[1]) == p && ty_of(r[2]) == *u {
                prod.push(r[2].to_string());
            } else if r[0] == "fwd" && cidx(r[1]) == p && ty_of(r[2]) == *u {
                let flag = if r[3] != "-" && cidx(r[3]) == *q { if r[4] == "ok" { "+" } else { "-" } } else { "!" };
                att.push(format!("{}{}", r[2], flag));
            } else if r[0] == "recv" && r[2] == "ev" && cidx(r[1]) == *q && ty_of(r[3]) == *u {
                got.push(r[3].to_string());
            }
        }
        out.push(format!("{}@{}>{}:{};{};{}", u, p, q, j(&att), j(&got), j(&prod)));
    }
    out.join(" ")
}

fn emit_header(ctx: &mut Ctx, prog: &Prog, cap: usize, tag: &str) {
    ctx.directive(&format!("new {} {} {}", prog.nctx, cap, tag));
    for st in &prog.streams {
        ctx.directive(&format!("stream {} {} {}{}", st.name, st.src, st.ctx, if st.alias || st.kind == 3 { " alias" } else { "" }));
        if let Some(s2) = &st.src2 {
            ctx.directive(&format!("stream {} {} {} alias", st.name, s2, st.ctx));
        }
    }
}

fn by_stream(prog: &Prog, evs: &[Event]) -> String {
    let mut m: BTreeMap<String, Vec<String>> = BTreeMap::new();
    for st in &prog.streams {
        m.insert(st.name.clone(), Vec::new());
    }
    for e in evs {
        m.entry(e.event_type.to_string()).or_default().push(canon(e));
    }
    m.iter().map(|(k, v)| format!("{}:{}", k, if v.is_empty() { "-".to_string() } else { v.join(",") })).collect::<Vec<_>>().join(" ")
}

// ---------------------------------------------------------------------------------------------
// generators

fn gen_prog(ctx: &mut Ctx, shape: u64) -> Prog {
    let nctx = 2 + ctx.rng.below(2) as usize;
    let nstreams = 2 + ctx.rng.below(3) as usize;
    let mut streams: Vec<StreamD> = Vec::new();
    for i in 0..nstreams {
        let name = format!("S{i}");
        let (src, cx) = if i == 0 || (shape >= 2 && ctx.rng.chance(1, 4)) {
            (format!("T{}", ctx.rng.below(2)), ctx.rng.below(nctx as u64) as usize)
        } else {
            let up = if shape == 0 { i - 1 } else { ctx.rng.below(i as u64) as usize };
            let upc = streams[up].ctx;
            // shape 0/1: a derived stream lives in another context than its upstream
            let cx = if shape <= 1 {
                let mut c = ctx.rng.below(nctx as u64 - 1) as usize;
                if c >= upc {
                    c += 1;
                }
                c
            } else {
                ctx.rng.below(nctx as u64) as usize
            };
            (format!("S{up}"), cx)
        };
        let raw_src = src.starts_with('T');
        let kind = if raw_src && ctx.rng.chance(1, 4) { 3 } else if ctx.rng.chance(1, 5) { 1 } else if ctx.rng.chance(1, 6) { 2 } else { 0 };
        let (src, src2) = if kind == 3 { (format!("A{i}"), Some(format!("B{i}"))) } else { (src, None) };
        let alias = kind != 3 && ctx.rng.chance(1, 3);
        streams.push(StreamD { name, src, ctx: cx, kind, src2, alias, a: ctx.rng.range(-1, 2), b: ctx.rng.range(0, 2) });
    }
    Prog { nctx, streams }
}

fn gen_events(ctx: &mut Ctx, prog: &Prog, n: usize) -> Vec<Event> {
    let raws = prog.raw_types();
    (0..n)
        .map(|i| {
            let mut ty = ctx.rng.pick(&raws[..]).clone();
            // several open runs before the event that completes them all
            if ty.starts_with('B') && ctx.rng.chance(1, 2) {
                ty = format!("A{}", &ty[1..]);
            }
            mk_event(&ty, i as i64 + 1, ctx.rng.range(0, 6))
        })
        .collect()
}

// ---------------------------------------------------------------------------------------------
// C26

fn c26_scenario(ctx: &mut Ctx, prog: &Prog, events: &[Event], cap: usize, pol: &Policy, tag: &str) {
    let reference = run_plain(prog, events);
    let store = Arc::new(MemoryStore::new());
    let run = build(prog, cap, false, None, store);
    let mut next_in = 0usize;
    let mut steps = 0u64;
    while sched_step(ctx, &run, pol, events, &mut next_in) {
        steps += 1;
        if steps > 200_000 {
            let t = vc::disarm();
            infra(&format!("schedule did not terminate; trace tail: {:?}; parked c0={:?} c1={:?} inbox c0={} c1={}", &t[t.len().saturating_sub(8)..], vc::parked_at("c0"), vc::parked_at("c1"), vc::inbox_len("c0"), vc::inbox_len("c1")));
        }
    }
    let (trace, out) = run.finish();
    emit_header(ctx, prog, cap, tag);
    let mut drops = 0;
    for (op, res) in render(&trace) {
        if op.starts_with("fwd") && res.contains(" full ") {
            drops += 1;
        }
        ctx.case(&op, &res);
    }
    ctx.count(if drops > 0 { "c26:scenario-with-drop" } else { "c26:scenario-without-drop" });
    ctx.count(&format!("c26:cap-{}", cap.min(4)));
    ctx.count(&format!("c26:contexts-{}", prog.nctx));
    // the output channel, in order (keys), against the model's
    let keys: Vec<String> = out.iter().map(vc::key).collect();
    ctx.case("out", &if keys.is_empty() { "-".to_string() } else { keys.join(",") });
    let es = edges(prog, &trace);
    ctx.count_n("c26:edges-judged", es.split(' ').filter(|w| !w.is_empty()).count() as u64);
    ctx.case(&format!("edges {es}"), "-");
    // per-stream outputs of the context run against the same program without contexts
    ctx.case(&format!("same {}", by_stream(prog, &reference)), &by_stream(prog, &out));
}

fn run_c26(ctx: &mut Ctx) {
    // witness of the known finding: capacity 1, the consumer never scheduled between two forwards
    let chain = Prog {
        nctx: 2,
        streams: vec![
            StreamD { name: "S0".into(), src: "T0".into(), ctx: 0, kind: 0, src2: None, alias: false, a: -1, b: 0 },
            StreamD { name: "S1".into(), src: "S0".into(), ctx: 1, kind: 0, src2: None, alias: false, a: -1, b: 0 },
        ],
    };
    let evs: Vec<Event> = (1..=3).map(|i| mk_event("T0", i, i)).collect();
    c26_scenario(ctx, &chain, &evs, 1, &Policy { w: vec![5, 5, 0] }, "witness-drop");
    c26_scenario(ctx, &chain, &evs, 1, &Policy::eager(2), "witness-eager");
    // a batch of several outputs of ONE input crossing an edge written with an aliased source
    let batch = Prog {
        nctx: 2,
        streams: vec![
            StreamD { name: "S0".into(), src: "A0".into(), ctx: 0, kind: 3, src2: Some("B0".into()), alias: false, a: 0, b: 0 },
            StreamD { name: "S1".into(), src: "S0".into(), ctx: 1, kind: 0, src2: None, alias: true, a: -1, b: 1 },
        ],
    };
    let bevs: Vec<Event> = vec![mk_event("A0", 1, 1), mk_event("A0", 2, 2), mk_event("A0", 3, 3), mk_event("B0", 4, 4), mk_event("A0", 5, 5), mk_event("B0", 6, 6)];
    c26_scenario(ctx, &batch, &bevs, 8, &Policy::eager(2), "witness-batch");
    c26_scenario(ctx, &batch, &bevs, 8, &Policy { w: vec![5, 5, 1] }, "witness-batch-lazy");
    let n = if ctx.thorough { 1500 } else { 150 };
    for i in 0..n {
        let shape = if i % 5 == 4 { 2 } else { (i % 2) as u64 };
        let prog = gen_prog(ctx, shape);
        let nev = 1 + ctx.rng.below(if ctx.thorough { 14 } else { 8 }) as usize;
        let evs = gen_events(ctx, &prog, nev);
        let cap = *ctx.rng.pick(&[1usize, 1, 2, 3, 5, 64]);
        let pol = if ctx.rng.chance(1, 6) { Policy::eager(prog.nctx) } else { Policy::random(ctx, prog.nctx) };
        c26_scenario(ctx, &prog, &evs, cap, &pol, &format!("shape{shape}"));
    }
}

// ---------------------------------------------------------------------------------------------
// C27

struct CkPlan {
    pre_steps: u64,
    quiet: bool,
    /// per injection: actors to try just before it (1 = context 0, ...)
    script: Vec<Vec<usize>>,
    post_steps: u64,
}

fn raw_of(prog: &Prog, key: &str) -> bool {
    let ty = key.split('#').next().unwrap_or("");
    !prog.streams.iter().any(|s| s.name == ty)
}

fn c27_scenario(ctx: &mut Ctx, prog: &Prog, events: &[Event], cap: usize, pol: &Policy, plan: &CkPlan, tag: &str) {
    let store = Arc::new(MemoryStore::new());
    let mut run = build(prog, cap, true, None, store.clone());
    let mut next_in = 0usize;
    for _ in 0..plan.pre_steps {
        if !sched_step(ctx, &run, pol, events, &mut next_in) {
            break;
        }
    }
    let no_input: Vec<Event> = Vec::new();
    if plan.quiet {
        let mut z = 0usize;
        while sched_step(ctx, &run, pol, &no_input, &mut z) {}
    }
    let script: Vec<Vec<String>> = plan.script.iter().map(|v| v.iter().filter(|a| **a >= 1 && **a <= prog.nctx).map(|a| format!("c{}", a - 1)).collect()).collect();
    vc::set_inject_script(if plan.quiet { Vec::new() } else { script });
    run.orch.as_mut().unwrap().trigger_checkpoint();
    let mut completed = false;
    let mut guard = 0u64;
    loop {
        guard += 1;
        if guard > 100_000 {
            infra("checkpoint phase did not terminate");
        }
        let try_now = ctx.rng.chance(1, 4);
        if try_now {
            match run.orch.as_mut().unwrap().try_complete_checkpoint() {
                Ok(true) => { completed = true; break; }
                Ok(false) => {}
                Err(e) => infra(&format!("try_complete_checkpoint: {e}")),
            }
        }
        let moved = if plan.quiet {
            let mut z = 0usize;
            sched_step(ctx, &run, pol, &no_input, &mut z)
        } else {
            sched_step(ctx, &run, pol, events, &mut next_in)
        };
        if !moved {
            match run.orch.as_mut().unwrap().try_complete_checkpoint() {
                Ok(true) => completed = true,
                Ok(false) => {}
                Err(e) => infra(&format!("try_complete_checkpoint: {e}")),
            }
            break;
        }
    }
    for _ in 0..plan.post_steps {
        if !sched_step(ctx, &run, pol, events, &mut next_in) {
            break;
        }
    }
    let (trace, out) = run.finish();
    emit_header(ctx, prog, cap, tag);
    for (op, res) in render(&trace) {
        ctx.case(&op, &res);
    }
    ctx.count(&format!("c27:contexts-{}", prog.nctx));
    // (an incomplete checkpoint: the phase above ran until nothing could move)
    ctx.case("end", if completed { "complete" } else { "incomplete" });
    if !completed {
        // a barrier did not fit into a full inbox: the checkpoint never completes (no cut to judge)
        ctx.count("c27:checkpoint-incomplete");
        return;
    }
    ctx.count(if plan.quiet { "c27:quiet-checkpoint" } else { "c27:checkpoint-under-load" });
    // the cut: per context, position of its snapshot in the trace
    let recs: Vec<Vec<&str>> = trace.iter().map(|l| l.split(' ').collect()).collect();
    let mut snap_at: HashMap<String, usize> = HashMap::new();
    for (i, r) in recs.iter().enumerate() {
        if r[0] == "snap" {
            snap_at.insert(r[1].to_string(), i);
        }
    }
    if snap_at.len() != prog.nctx {
        ctx.case("restore CKPT:every-context", "CKPT:lacks-a-context");
        return;
    }
    // outputs are paired with the forward records in order
    let mut consumed: HashSet<String> = HashSet::new();
    let mut pre: Vec<Event> = Vec::new();
    let mut oi = 0usize;
    for (i, r) in recs.iter().enumerate() {
        if r[0] == "fwd" {
            if r[5] == "ok" {
                if oi >= out.len() {
                    infra("fewer output events than recorded forwards");
                }
                if i < snap_at[r[1]] {
                    pre.push(out[oi].clone());
                }
                oi += 1;
            }
        } else if r[0] == "recv" && r[2] == "ev" && raw_of(prog, r[3]) && i < snap_at[r[1]] {
            consumed.insert(r[3].to_string());
        }
    }
    let ck: Checkpoint = match store.load_latest_checkpoint() {
        Ok(Some(c)) => c,
        other => infra(&format!("completed checkpoint not in the store: {:?}", other.map(|o| o.map(|c| c.id)))),
    };
    let unconsumed: Vec<Event> = events.iter().filter(|e| !consumed.contains(&vc::key(e))).cloned().collect();
    ctx.count_n("c27:inputs-replayed", unconsumed.len() as u64);
    // restore every context from the checkpoint, replay what was not consumed
    let store2 = Arc::new(MemoryStore::new());
    let run2 = build(prog, 1024, false, Some(&ck), store2);
    let pol2 = Policy::eager(prog.nctx);
    let mut n2 = 0usize;
    let mut steps = 0u64;
    while sched_step(ctx, &run2, &pol2, &unconsumed, &mut n2) {
        steps += 1;
        if steps > 200_000 {
            infra("restored run did not terminate");
        }
    }
    let (trace2, out2) = run2.finish();
    // the uninterrupted run: same program, same contexts, no crash (nothing is dropped: large
    // inboxes, downstream-first schedule)
    let run3 = build(prog, 1024, false, None, Arc::new(MemoryStore::new()));
    let mut n3 = 0usize;
    steps = 0;
    while sched_step(ctx, &run3, &pol2, events, &mut n3) {
        steps += 1;
        if steps > 200_000 {
            infra("uninterrupted run did not terminate");
        }
    }
    let (_trace3, reference) = run3.finish();
    let mut combined = pre.clone();
    combined.extend(out2.iter().cloned());
    ctx.case(&format!("restore {}", by_stream(prog, &reference)), &by_stream(prog, &combined));
    // the restored run is validated as a trace of the model as well
    emit_header(ctx, prog, 1024, "restored");
    for (op, res) in render(&trace2) {
        ctx.case(&op, &res);
    }
    let keys: Vec<String> = out2.iter().map(vc::key).collect();
    ctx.case("out", &if keys.is_empty() { "-".to_string() } else { keys.join(",") });
}

fn run_c27(ctx: &mut Ctx) {
    let chain = Prog {
        nctx: 2,
        streams: vec![
            StreamD { name: "S0".into(), src: "T0".into(), ctx: 0, kind: 0, src2: None, alias: false, a: -1, b: 0 },
            StreamD { name: "S1".into(), src: "S0".into(), ctx: 1, kind: 0, src2: None, alias: false, a: -1, b: 0 },
        ],
    };
    let evs: Vec<Event> = (1..=3).map(|i| mk_event("T0", i, i)).collect();
    // witness of the known finding: input 1 queued at c0 when the barriers go in; c1 snapshots first
    c27_scenario(ctx, &chain, &evs, 4, &Policy { w: vec![5, 0, 5] },
        &CkPlan { pre_steps: 1, quiet: false, script: vec![], post_steps: 0 }, "witness-inflight");
    c27_scenario(ctx, &chain, &evs, 4, &Policy { w: vec![1, 1, 1] },
        &CkPlan { pre_steps: 4, quiet: true, script: vec![], post_steps: 3 }, "witness-quiet");
    let n = if ctx.thorough { 1200 } else { 120 };
    for i in 0..n {
        let shape = (i % 2) as u64;
        let prog = gen_prog(ctx, shape);
        let nev = 1 + ctx.rng.below(if ctx.thorough { 12 } else { 7 }) as usize;
        let evs = gen_events(ctx, &prog, nev);
        let cap = *ctx.rng.pick(&[2usize, 3, 5, 64, 64]);
        let pol = Policy::random(ctx, prog.nctx);
        let nc = prog.nctx;
        let plan = CkPlan {
            pre_steps: ctx.rng.below(12),
            quiet: ctx.rng.chance(1, 3),
            script: (0..nc).map(|_| (0..ctx.rng.below(3)).map(|_| 1 + ctx.rng.below(nc as u64) as usize).collect()).collect(),
            post_steps: ctx.rng.below(6),
        };
        c27_scenario(ctx, &prog, &evs, cap, &pol, &plan, &format!("shape{shape}"));
    }
}

pub fn run(ctx: &mut Ctx, name: &str) {
    let _ = HashMap::<String, String>::new();
    match name {
        "C26" => run_c26(ctx),
        _ => run_c27(ctx),
    }
}
