//! C06/C07: ZDD operations vs set-family algebra; canonicity, gc, iteration order.
//! Drives `ZddArena` and standalone `Zdd` with the same operation sequences.
use crate::util::Ctx;
use varpulis_zdd::{Zdd, ZddArena, ZddHandle, ZddRef};

const NREG: usize = 6;

fn fmt_sets(sets: &[Vec<u32>]) -> String {
    let mut s = String::new();
    for m in sets {
        s.push('{');
        s.push_str(&m.iter().map(|x| x.to_string()).collect::<Vec<_>>().join(","));
        s.push('}');
    }
    if s.is_empty() { s.push('-'); }
    s
}

fn subset(i: u32, nvars: u32) -> Vec<u32> { (0..nvars).filter(|b| i & (1 << b) != 0).collect() }

fn fmt_ref(r: ZddRef) -> String {
    match r { ZddRef::Empty => "E".into(), ZddRef::Base => "B".into(), ZddRef::Node(i) => format!("N{}", i) }
}

enum Api { Arena(ZddArena, Vec<Option<ZddHandle>>), Standalone(Vec<Option<Zdd>>) }

impl Api {
    fn describe(&mut self, d: usize) -> String {
        match self {
            Api::Arena(ar, regs) => {
                if !arena_safe(ar, regs) { return "MALFORMED-TABLE".to_string(); }
                let h = regs[d].unwrap();
                let sets: Vec<Vec<u32>> = ar.iter(h).collect();
                let c = ar.count(h);
                let cu = ar.count_uncached(h);
                let mut m: u32 = 0;
                for i in 0..32u32 { if ar.contains_sorted(h, &subset(i, 5)) { m |= 1 << i; } }
                format!("{} c={} cu={} m={:x}", fmt_sets(&sets), c, cu, m)
            }
            Api::Standalone(regs) => {
                let z = regs[d].as_ref().unwrap();
                let sets: Vec<Vec<u32>> = z.iter().collect();
                let c = z.count();
                let mut m: u32 = 0;
                for i in 0..32u32 { if z.contains(&subset(i, 5)) { m |= 1 << i; } }
                format!("{} c={} cu={} m={:x}", fmt_sets(&sets), c, c, m)
            }
        }
    }
    fn has(&self, r: usize) -> bool {
        match self { Api::Arena(_, regs) => regs[r].is_some(), Api::Standalone(regs) => regs[r].is_some() }
    }
    fn dump(&self) -> Option<String> {
        match self {
            Api::Arena(ar, regs) => {
                let nodes = ar.verif_nodes();
                let t = nodes.iter().map(|(v, lo, hi)| format!("{}:{}:{}", v, fmt_ref(*lo), fmt_ref(*hi))).collect::<Vec<_>>().join(",");
                let r = regs.iter().enumerate().filter_map(|(i, h)| h.map(|h| format!("{}={}", i, fmt_ref(h.root())))).collect::<Vec<_>>().join(",");
                Some(format!("T[{}] R[{}]", t, r))
            }
            _ => None,
        }
    }
    /// standalone API: root ref and node count of every register (ids are deterministic: append order)
    fn zdump(&self) -> Option<String> {
        match self {
            Api::Standalone(regs) => {
                let r = regs.iter().enumerate().filter_map(|(i, z)| z.as_ref().map(|z| format!("{}={}:{}", i, fmt_ref(z.root()), z.node_count()))).collect::<Vec<_>>().join(",");
                Some(format!("R[{}]", r))
            }
            _ => None,
        }
    }
}

/// Guard of the harness itself: iterating / operating on a table with a forward or dangling child
/// (possible only if gc or get_or_create is broken) can loop forever or exhaust memory. Such a state is
/// reported (`MALFORMED-TABLE`, then the dump for the C07 judge) and the scenario is abandoned.
fn arena_safe(ar: &ZddArena, regs: &[Option<ZddHandle>]) -> bool {
    let nodes = ar.verif_nodes();
    let ok_child = |own: usize, r: ZddRef| match r { ZddRef::Node(i) => (i as usize) < own, _ => true };
    nodes.iter().enumerate().all(|(i, (_, lo, hi))| ok_child(i, *lo) && ok_child(i, *hi))
        && regs.iter().all(|h| h.map_or(true, |h| ok_child(nodes.len(), h.root())))
}

fn fam_members(mask: u32, nvars: u32) -> Vec<Vec<u32>> {
    (0..(1u32 << nvars)).filter(|i| mask & (1 << i) != 0).map(|i| subset(i, nvars)).collect()
}

/// build a family from explicit members: union of from_set (members possibly given unsorted / with duplicates)
fn op_fam(api: &mut Api, d: usize, members: &[Vec<u32>]) {
    match api {
        Api::Arena(ar, regs) => {
            let mut acc = ar.empty();
            for m in members { let s = ar.from_set(m); acc = ar.union(acc, s); }
            regs[d] = Some(acc);
        }
        Api::Standalone(regs) => {
            let mut acc = Zdd::empty();
            for m in members { acc = acc.union(&Zdd::from_set(m)); }
            regs[d] = Some(acc);
        }
    }
}

fn apply(api: &mut Api, op: &str, d: usize, a: usize, b: usize, v: u32) {
    match api {
        Api::Arena(ar, regs) => {
            let ha = regs[a].unwrap_or_default();
            let hb = regs[b].unwrap_or_default();
            regs[d] = Some(match op {
                "base" => ar.base(), "empty" => ar.empty(), "single" => ar.singleton(v),
                "union" => ar.union(ha, hb), "inter" => ar.intersection(ha, hb), "diff" => ar.difference(ha, hb),
                "pwo" => ar.product_with_optional(ha, v),
                _ => unreachable!(),
            });
        }
        Api::Standalone(regs) => {
            let e = Zdd::empty();
            let za = regs[a].clone().unwrap_or_else(Zdd::empty);
            let zb = regs[b].clone().unwrap_or(e);
            regs[d] = Some(match op {
                "base" => Zdd::base(), "empty" => Zdd::empty(), "single" => Zdd::singleton(v),
                "union" => za.union(&zb), "inter" => za.intersection(&zb), "diff" => za.difference(&zb),
                "pwo" => za.product_with_optional(v), "product" => za.product(&zb),
                _ => unreachable!(),
            });
        }
    }
}

/// run an operation and the `describe` of its destination under catch_unwind: a panic of the real code
/// (e.g. `get_node` on a dangling id) is the answer `panic`; the caller then abandons the scenario
fn op_desc(api: &mut Api, d: usize, f: impl FnOnce(&mut Api)) -> (String, bool) {
    match crate::util::catch(std::panic::AssertUnwindSafe(|| { f(api); api.describe(d) })) {
        Ok(r) => (r, false),
        Err(_) => ("panic".to_string(), true),
    }
}

fn new_api(arena: bool) -> Api {
    if arena { Api::Arena(ZddArena::new(), vec![None; NREG]) } else { Api::Standalone(vec![None; NREG]) }
}

fn emit_dump(ctx: &mut Ctx, api: &Api) {
    // `dump`: judged for C07 (well-formedness, handles denote the model trees, canonicity).
    // `tdump` / `zdump`: the same state compared node for node with the replayed TABLE model
    // (correspondence of Model/ZddTable.lean itself; owned by neither C06 nor C07).
    if let Some(d) = api.dump() { ctx.case("dump", &d); ctx.count("dump"); ctx.case("tdump", &d); ctx.count("tdump"); }
    if let Some(d) = api.zdump() { ctx.case("zdump", &d); ctx.count("zdump"); }
}

fn fam_op_text(d: usize, members: &[Vec<u32>]) -> String {
    let ms = members.iter().map(|m| if m.is_empty() { "_".to_string() } else { m.iter().map(|x| x.to_string()).collect::<Vec<_>>().join(",") }).collect::<Vec<_>>().join(" ");
    format!("fam {} {}", d, ms)
}

/// all pairs of families over `nvars` variables, every binary operation
fn sweep(ctx: &mut Ctx, arena: bool, nvars: u32, sample: Option<u64>) {
    let nfam: u32 = 1 << (1 << nvars);
    let mut api = new_api(arena);
    ctx.directive(if arena { "new arena" } else { "new zdd" });
    for a in 0..nfam {
        let ma = fam_members(a, nvars);
        let (r, p) = op_desc(&mut api, 0, |api| op_fam(api, 0, &ma));
        ctx.case(&fam_op_text(0, &ma), &r);
        if p { emit_dump(ctx, &api); return; }
        for b in 0..nfam {
            if let Some(n) = sample { if ctx.rng.below(nfam as u64 * nfam as u64) >= n { continue; } }
            let mb = fam_members(b, nvars);
            let (r, p) = op_desc(&mut api, 1, |api| op_fam(api, 1, &mb));
            ctx.case(&fam_op_text(1, &mb), &r);
            if p { emit_dump(ctx, &api); return; }
            let ops: &[&str] = if arena { &["union", "inter", "diff"] } else { &["union", "inter", "diff", "product"] };
            for (k, op) in ops.iter().enumerate() {
                let (r, p) = op_desc(&mut api, 2 + k, |api| apply(api, op, 2 + k, 0, 1, 0));
                ctx.case(&format!("{} {} 0 1", op, 2 + k), &r);
                if p { emit_dump(ctx, &api); return; }
                ctx.count(&format!("{}:{}", if arena { "arena" } else { "zdd" }, op));
            }
        }
        if a % 16 == 0 { emit_dump(ctx, &api); }
    }
    emit_dump(ctx, &api);
}

/// random operation sequences over 5 variables with gc interleaved
fn sequences(ctx: &mut Ctx, arena: bool, nseq: u64, maxlen: u64) {
    for _ in 0..nseq {
        let mut api = new_api(arena);
        ctx.directive(if arena { "new arena" } else { "new zdd" });
        let len = 3 + ctx.rng.below(maxlen - 2);
        for _ in 0..len {
            if let Api::Arena(ar, regs) = &api { if !arena_safe(ar, regs) { ctx.count("arena:abandoned-malformed"); break; } }
            let d = ctx.rng.below(NREG as u64) as usize;
            let live: Vec<usize> = (0..NREG).filter(|r| api.has(*r)).collect();
            let k = ctx.rng.below(100);
            let tag = if arena { "arena" } else { "zdd" };
            let mut panicked = false;
            if live.is_empty() || k < 22 {
                // constructors
                match ctx.rng.below(4) {
                    0 => { let (r, p) = op_desc(&mut api, d, |api| apply(api, "base", d, 0, 0, 0)); ctx.case(&format!("base {}", d), &r); panicked = p; }
                    1 => { let v = ctx.rng.below(5) as u32; let (r, p) = op_desc(&mut api, d, |api| apply(api, "single", d, 0, 0, v)); ctx.case(&format!("single {} {}", d, v), &r); panicked = p; }
                    _ => {
                        // family from 1-4 members, possibly unsorted with duplicates (from_set must sort+dedup)
                        let n = 1 + ctx.rng.below(4);
                        let mut ms = Vec::new();
                        for _ in 0..n {
                            let l = ctx.rng.below(5);
                            let m: Vec<u32> = (0..l).map(|_| ctx.rng.below(5) as u32).collect();
                            ms.push(m);
                        }
                        let (r, p) = op_desc(&mut api, d, |api| op_fam(api, d, &ms)); ctx.case(&fam_op_text(d, &ms), &r); panicked = p;
                    }
                }
                ctx.count(&format!("{}:ctor", tag));
            } else if k < 80 {
                let a = *ctx.rng.pick(&live); let b = *ctx.rng.pick(&live);
                let ops: &[&str] = if arena { &["union", "inter", "diff", "diff", "pwo", "pwo"] } else { &["union", "inter", "diff", "diff", "pwo", "product", "product"] };
                let op = *ctx.rng.pick(ops);
                let v = ctx.rng.below(5) as u32;
                let (r, p) = op_desc(&mut api, d, |api| apply(api, op, d, a, b, v));
                panicked = p;
                if op == "pwo" { ctx.case(&format!("pwo {} {} {}", d, a, v), &r); } else { ctx.case(&format!("{} {} {} {}", op, d, a, b), &r); }
                ctx.count(&format!("{}:{}", tag, op));
            } else if k < 88 {
                // membership query with unsorted / duplicated elements
                let a = *ctx.rng.pick(&live);
                let l = ctx.rng.below(5);
                let q: Vec<u32> = (0..l).map(|_| ctx.rng.below(6) as u32).collect();
                let ans = crate::util::catch(std::panic::AssertUnwindSafe(|| match &api { Api::Arena(ar, regs) => ar.contains(regs[a].unwrap(), &q), Api::Standalone(regs) => regs[a].as_ref().unwrap().contains(&q) }));
                panicked = ans.is_err();
                ctx.case(&format!("contains {} {}", a, q.iter().map(|x| x.to_string()).collect::<Vec<_>>().join(" ")), &ans.map(|b| b.to_string()).unwrap_or_else(|_| "panic".to_string()));
                ctx.count(&format!("{}:contains", tag));
            } else if let Api::Arena(ar, regs) = &mut api {
                if ctx.rng.chance(1, 3) {
                    ar.gc_caches_only();
                    ctx.case("gcc", "ok");
                    ctx.count("arena:gc_caches_only");
                } else {
                    // gc keeping a random subset of the live registers
                    let keep: Vec<usize> = live.iter().copied().filter(|_| ctx.rng.chance(2, 3)).collect();
                    let hs: Vec<ZddHandle> = keep.iter().map(|r| regs[*r].unwrap()).collect();
                    let gc_text = format!("gc {}", keep.iter().map(|x| x.to_string()).collect::<Vec<_>>().join(" "));
                    let new = match crate::util::catch(std::panic::AssertUnwindSafe(|| ar.gc(&hs).1)) {
                        Ok(n) => n,
                        Err(_) => { ctx.case(&gc_text, "panic"); emit_dump(ctx, &api); break; }
                    };
                    for r in regs.iter_mut() { *r = None; }
                    for (i, r) in keep.iter().enumerate() { regs[*r] = Some(new[i]); }
                    if !arena_safe(ar, regs) {
                        ctx.case(&format!("gc {}", keep.iter().map(|x| x.to_string()).collect::<Vec<_>>().join(" ")), "MALFORMED-TABLE");
                        ctx.count("arena:gc-malformed");
                        emit_dump(ctx, &api);
                        break;
                    }
                    let mut res = Vec::new();
                    for r in &keep {
                        let (dsc, p) = op_desc(&mut api, *r, |_| ());
                        panicked |= p;
                        res.push(format!("{}:{}", r, dsc));
                    }
                    ctx.case(&gc_text, &res.join(" ; "));
                    ctx.count("arena:gc");
                }
            }
            emit_dump(ctx, &api);
            if panicked { ctx.count(&format!("{}:abandoned-panic", tag)); break; }
        }
    }
}

pub const NAMES: &[&str] = &["C06", "C07", "zdd"];

pub fn run(ctx: &mut Ctx, _name: &str) {
    // corpus: the witness of the repaired arena difference defect runs first
    for arena in [true, false] {
        let mut api = new_api(arena);
        ctx.directive(if arena { "new arena" } else { "new zdd" });
        let a = vec![vec![1u32, 2]]; let b = vec![vec![2u32]];
        op_fam(&mut api, 0, &a); let r = api.describe(0); ctx.case(&fam_op_text(0, &a), &r);
        op_fam(&mut api, 1, &b); let r = api.describe(1); ctx.case(&fam_op_text(1, &b), &r);
        apply(&mut api, "diff", 2, 0, 1, 0); let r = api.describe(2); ctx.case("diff 2 0 1", &r);
    }
    if ctx.thorough {
        sweep(ctx, true, 3, None);
        sweep(ctx, false, 3, None);
        sequences(ctx, true, 6000, 14);
        sequences(ctx, false, 3000, 14);
    } else {
        sweep(ctx, true, 2, None);
        sweep(ctx, false, 2, None);
        sweep(ctx, true, 3, Some(6000));
        sweep(ctx, false, 3, Some(3000));
        sequences(ctx, true, 500, 12);
        sequences(ctx, false, 250, 12);
    }
}
