//! C14: every `AggregateFunc` (count, sum, avg, min, max, stddev, first, last, count_distinct, ema)
//! on every execution path: `apply` (row), `apply_refs`, `apply_shared`, `apply_columnar`, and the
//! same three paths through `Aggregator` (which shares one cached float column between
//! sum/avg/min/max), and through VPL `T.window(n).aggregate(...)` programs (parse + load + process).
//! Inputs are dyadic rationals / small ints (exact in f64) mixed with missing,
//! non-numeric and NaN fields; f64 results are printed as bit patterns (decoded exactly by the model).
use crate::util::Ctx;
use std::sync::Arc;
use varpulis_core::Value;
use varpulis_runtime::aggregation::{
    AggResult, AggregateFunc, Aggregator, Avg, Count, CountDistinct, Ema, First, Last, Max, Min, StdDev, Sum,
};
use varpulis_runtime::columnar::ColumnarBuffer;
use varpulis_runtime::{Event, SharedEvent};

pub const NAMES: &[&str] = &["C14"];

#[derive(Clone, Debug)]
enum V { Missing, NonNum(u32), NaN, Inf(bool), NegZero, Int(i64), Dy(i64, u32) }

impl V {
    fn tok(&self) -> String {
        match self {
            V::Missing => "M".into(), V::NonNum(t) => format!("X{}", t), V::NaN => "N".into(),
            V::Inf(false) => "P".into(), V::Inf(true) => "Q".into(), V::NegZero => "Z".into(),
            V::Int(i) => format!("I{}", i), V::Dy(n, k) => format!("D{}/{}", n, k),
        }
    }
    fn value(&self) -> Option<Value> {
        match self {
            V::Missing => None,
            V::NonNum(0) => Some(Value::Null),
            V::NonNum(1) => Some(Value::Bool(false)),
            V::NonNum(2) => Some(Value::Bool(true)),
            V::NonNum(t) => Some(Value::Str(format!("s{}", t - 3).into())),
            V::NaN => Some(Value::Float(f64::NAN)),
            V::Inf(false) => Some(Value::Float(f64::INFINITY)),
            V::Inf(true) => Some(Value::Float(f64::NEG_INFINITY)),
            V::NegZero => Some(Value::Float(-0.0)),
            V::Int(i) => Some(Value::Int(*i)),
            V::Dy(n, k) => Some(Value::Float(*n as f64 / (1u64 << k) as f64)),
        }
    }
}

fn res_tok(v: &Value) -> String {
    match v {
        Value::Null => "null".into(),
        Value::Int(i) => format!("I{}", i),
        Value::Float(f) => if f.is_nan() { "Fnan".into() } else { format!("F{:016x}", f.to_bits()) },
        Value::Bool(false) => "X1".into(),
        Value::Bool(true) => "X2".into(),
        Value::Str(s) => s.strip_prefix('s').and_then(|k| k.parse::<u32>().ok()).map(|k| format!("X{}", k + 3)).unwrap_or("X?".into()),
        _ => "?".into(),
    }
}

struct Mix { missing: u64, nonnum: u64, nan: u64, int: u64, few: bool, pinf: u64, ninf: u64, nzero: u64 }

fn gen_val(ctx: &mut Ctx, m: &Mix) -> V {
    let sp = ctx.rng.below(100);
    if sp < m.pinf { return V::Inf(false); }
    if sp < m.pinf + m.ninf { return V::Inf(true); }
    if sp < m.pinf + m.ninf + m.nzero { return V::NegZero; }
    let r = ctx.rng.below(100);
    if r < m.missing { V::Missing }
    else if r < m.missing + m.nonnum { V::NonNum(ctx.rng.below(6) as u32) }
    else if r < m.missing + m.nonnum + m.nan { V::NaN }
    else if r < m.missing + m.nonnum + m.nan + m.int {
        if m.few { V::Int(ctx.rng.range(-2, 2)) } else { V::Int(ctx.rng.range(-1000, 1000)) }
    } else if m.few { V::Dy(ctx.rng.range(-2, 2), 1) }
    else {
        let k = ctx.rng.below(7) as u32;
        V::Dy(ctx.rng.range(-4096, 4096), k)
    }
}

fn funcs() -> Vec<(String, Box<dyn AggregateFunc>)> {
    let mut v: Vec<(String, Box<dyn AggregateFunc>)> = vec![
        ("count".into(), Box::new(Count)), ("sum".into(), Box::new(Sum)), ("avg".into(), Box::new(Avg)),
        ("min".into(), Box::new(Min)), ("max".into(), Box::new(Max)), ("stddev".into(), Box::new(StdDev)),
        ("first".into(), Box::new(First)), ("last".into(), Box::new(Last)), ("cdist".into(), Box::new(CountDistinct)),
    ];
    for p in [0usize, 1, 2, 3, 9, 20] { v.push((format!("ema{}", p), Box::new(Ema::new(p)))); }
    v
}

fn batch(ctx: &mut Ctx, vals: &[V], field: &str, use_default_field: bool) {
    let events: Vec<Event> = vals.iter().enumerate().map(|(i, v)| {
        let mut e = Event::new("T").with_field("seq", i as i64);
        if let Some(x) = v.value() { e = e.with_field(field, x); }
        e
    }).collect();
    let refs: Vec<&Event> = events.iter().collect();
    let shared: Vec<SharedEvent> = events.iter().map(|e| Arc::new(e.clone())).collect();
    let fld = if use_default_field { None } else { Some(field) };
    // the same functions through `Aggregator` (one columnar buffer shared by all of them)
    let mut ag = Aggregator::new();
    for (name, f) in funcs() { ag = ag.add(name, f, fld.map(|s| s.to_string())); }
    let ag_row: AggResult = ag.apply(&events);
    let ag_sh: AggResult = ag.apply_shared(&shared);
    let mut cb = ColumnarBuffer::from_events(shared.clone());
    let ag_col: AggResult = ag.apply_columnar(&mut cb);
    let toks = vals.iter().map(|v| v.tok()).collect::<Vec<_>>().join(" ");
    for (name, f) in funcs() {
        let row = f.apply(&events, fld);
        let rf = f.apply_refs(&refs, fld);
        let sh = f.apply_shared(&shared, fld);
        let mut cb1 = ColumnarBuffer::from_events(shared.clone());
        let col = f.apply_columnar(&mut cb1, fld);
        let g = |r: &AggResult| r.get(&name).map(res_tok).unwrap_or("?".into());
        ctx.case(&format!("agg {} {}", name, toks),
            &format!("row={} refs={} shared={} col={} ag_row={} ag_sh={} ag_col={}",
                res_tok(&row), res_tok(&rf), res_tok(&sh), res_tok(&col), g(&ag_row), g(&ag_sh), g(&ag_col)));
    }
    let nvalid = vals.iter().filter(|v| matches!(v, V::Int(_) | V::Dy(_, _) | V::Inf(_) | V::NegZero)).count();
    ctx.count(&format!("valid-len-mod4.{}", nvalid % 4));
    ctx.count(&format!("batch-len-mod4.{}", vals.len() % 4));
    if vals.iter().any(|v| matches!(v, V::NaN)) { ctx.count("batch.has-nan"); }
    if vals.iter().any(|v| matches!(v, V::Inf(false))) && vals.iter().any(|v| matches!(v, V::Inf(true))) { ctx.count("batch.has-both-infinities"); }
    else if vals.iter().any(|v| matches!(v, V::Inf(_))) { ctx.count("batch.has-one-infinity"); }
    if vals.iter().any(|v| matches!(v, V::NegZero)) { ctx.count("batch.has-neg-zero"); }
    if vals.iter().any(|v| matches!(v, V::Missing)) { ctx.count("batch.has-missing"); }
    if vals.iter().any(|v| matches!(v, V::NonNum(_))) { ctx.count("batch.has-non-numeric"); }
    if nvalid == 0 { ctx.count("batch.no-valid-value"); }
    if nvalid == vals.len() { ctx.count("batch.all-valid"); }
}

/// the same batch through a VPL program: `T.window(len).aggregate(...)` via parse + load + process
/// (the engine's `RuntimeOp::Aggregate` calls `Aggregator::apply_shared` on the window's events)
fn engine_batch(ctx: &mut Ctx, rt: &tokio::runtime::Runtime, vals: &[V]) {
    if vals.is_empty() { return; }
    let names = [("count", "count()".to_string()), ("sum", "sum(x)".into()), ("avg", "avg(x)".into()), ("min", "min(x)".into()),
        ("max", "max(x)".into()), ("stddev", "stddev(x)".into()), ("first", "first(x)".into()), ("last", "last(x)".into()),
        ("cdist", if vals.len() % 2 == 0 { "count_distinct(x)".into() } else { "count(distinct(x))".into() }),
        ("ema3", "ema(x, 3)".into()), ("ema9", "ema(x, 9)".into())];
    let aggs = names.iter().map(|(n, e)| format!("r_{}: {}", n, e)).collect::<Vec<_>>().join(", ");
    let emits = names.iter().map(|(n, _)| format!("r_{}: r_{}", n, n)).collect::<Vec<_>>().join(", ");
    let src = format!("stream S = T\n    .window({})\n    .aggregate({})\n    .emit({})\n", vals.len(), aggs, emits);
    let prog = match varpulis_parser::parse(&src) {
        Ok(p) => p,
        Err(e) => { eprintln!("generator error: program does not parse: {e:?}\n{src}"); std::process::exit(3); }
    };
    let (tx, mut rx) = tokio::sync::mpsc::channel::<Event>(64);
    let mut engine = varpulis_runtime::Engine::new(tx);
    if let Err(e) = engine.load(&prog) { eprintln!("generator error: load failed: {e}\n{src}"); std::process::exit(3); }
    let base = chrono::DateTime::from_timestamp_millis(1_700_000_000_000).expect("ts");
    for (i, v) in vals.iter().enumerate() {
        let mut e = Event::new("T").with_timestamp(base + chrono::Duration::milliseconds(i as i64)).with_field("seq", i as i64);
        if let Some(x) = v.value() { e = e.with_field("x", x); }
        if rt.block_on(engine.process(e)).is_err() { ctx.count("engine.process-error"); }
    }
    let mut outs: Vec<Event> = Vec::new();
    while let Ok(o) = rx.try_recv() { if &*o.event_type == "S" { outs.push(o); } }
    let toks = vals.iter().map(|v| v.tok()).collect::<Vec<_>>().join(" ");
    ctx.count(&format!("engine.outputs.{}", outs.len().min(2)));
    for (n, _) in names.iter() {
        let r = match outs.len() {
            1 => outs[0].data.get(format!("r_{}", n).as_str()).map(res_tok).unwrap_or("absent".into()),
            k => format!("OUTPUTS{}", k),
        };
        ctx.case(&format!("agg {} {}", n, toks), &format!("eng={}", r));
    }
}

pub fn run(ctx: &mut Ctx, _name: &str) {
    ctx.directive("new agg");
    let rt = tokio::runtime::Builder::new_current_thread().enable_all().build().expect("rt");
    let clean = Mix { missing: 0, nonnum: 0, nan: 0, int: 30, few: false, pinf: 0, ninf: 0, nzero: 0 };
    // every length 0..=67 with all-valid values: every residue mod 4 of the SIMD / unrolled loops
    for len in 0..=67usize {
        let vals: Vec<V> = (0..len).map(|_| gen_val(ctx, &clean)).collect();
        batch(ctx, &vals, "x", false);
    }
    let rounds = if ctx.thorough { 3000 } else { 260 };
    for r in 0..rounds {
        let len = if ctx.rng.chance(1, 6) { ctx.rng.range(0, 5) as usize } else { ctx.rng.range(0, 67) as usize };
        let mix = match ctx.rng.below(10) {
            6 => Mix { missing: 5, nonnum: 5, nan: 0, int: 30, few: false, pinf: 12, ninf: 0, nzero: 0 },   // +inf only
            7 => Mix { missing: 5, nonnum: 5, nan: 3, int: 30, few: false, pinf: 8, ninf: 8, nzero: 4 },    // both infinities
            8 => Mix { missing: 5, nonnum: 5, nan: 0, int: 40, few: true, pinf: 0, ninf: 0, nzero: 30 },    // -0.0 among 0.0 / 0 / small values
            9 => Mix { missing: 10, nonnum: 10, nan: 10, int: 30, few: true, pinf: 5, ninf: 5, nzero: 15 },
            0 => Mix { missing: 0, nonnum: 0, nan: 0, int: 30, few: false, pinf: 0, ninf: 0, nzero: 0 },
            1 => Mix { missing: 15, nonnum: 15, nan: 0, int: 25, few: false, pinf: 0, ninf: 0, nzero: 0 },      // NaN-free: stddev/ema numeric
            2 => Mix { missing: 10, nonnum: 10, nan: 12, int: 25, few: false, pinf: 0, ninf: 0, nzero: 0 },
            3 => Mix { missing: 30, nonnum: 30, nan: 30, int: 5, few: false, pinf: 0, ninf: 0, nzero: 0 },      // few or no valid values
            4 => Mix { missing: 10, nonnum: 20, nan: 5, int: 30, few: true, pinf: 0, ninf: 0, nzero: 0 },       // few distinct values
            _ => Mix { missing: 5, nonnum: 5, nan: 3, int: 40, few: false, pinf: 0, ninf: 0, nzero: 0 },
        };
        let vals: Vec<V> = (0..len).map(|_| gen_val(ctx, &mix)).collect();
        // now and then use the default field name (`field = None` → "value")
        if r % 7 == 0 { batch(ctx, &vals, "value", true); ctx.count("field.default"); } else { batch(ctx, &vals, "x", false); }
        if r % 4 == 1 { engine_batch(ctx, &rt, &vals); }
    }
}
