//! C40: `impl PartialEq for Value` is an equivalence consistent with `impl Hash for Value`.
//! Values are generated as specifications (`V`), rendered once as text for the Lean model and
//! once as a real `varpulis_core::Value` (maps through `IndexMap::insert`, in the given order).
//! Observed: `a == b`, `b == a`, equality of `DefaultHasher` hashes, and the exact sequence of
//! `Hasher::write_*` calls (recording hasher), which the model must reproduce token by token.
use crate::util::Ctx;
use std::collections::hash_map::DefaultHasher;
use std::hash::{Hash, Hasher};
use std::sync::Arc;
use varpulis_core::value::FxIndexMap;
use varpulis_core::Value;

#[derive(Clone, Debug, PartialEq)]
enum V {
    N,
    B(bool),
    I(i64),
    F(u64),
    S(String),
    T(i64),
    D(u64),
    A(Vec<V>),
    /// insertion sequence (may repeat a key: `IndexMap::insert` then replaces the value in place)
    M(Vec<(String, V)>),
}

fn hex(b: &[u8]) -> String { b.iter().map(|x| format!("{:02x}", x)).collect() }

impl V {
    fn text(&self) -> String {
        match self {
            V::N => "N".into(),
            V::B(b) => if *b { "B1".into() } else { "B0".into() },
            V::I(n) => format!("I{}", n),
            V::F(bits) => format!("F{:016x}", bits),
            V::S(s) => format!("S{}", hex(s.as_bytes())),
            V::T(n) => format!("T{}", n),
            V::D(n) => format!("D{}", n),
            V::A(l) => {
                let mut s = String::from("[");
                for v in l { s.push(' '); s.push_str(&v.text()); }
                s.push_str(" ]");
                s
            }
            V::M(m) => {
                let mut s = String::from("{");
                for (k, v) in m { s.push_str(&format!(" K{} {}", hex(k.as_bytes()), v.text())); }
                s.push_str(" }");
                s
            }
        }
    }
    fn build(&self) -> Value {
        match self {
            V::N => Value::Null,
            V::B(b) => Value::Bool(*b),
            V::I(n) => Value::Int(*n),
            V::F(bits) => Value::Float(f64::from_bits(*bits)),
            V::S(s) => Value::str(s),
            V::T(n) => Value::Timestamp(*n),
            V::D(n) => Value::Duration(*n),
            V::A(l) => Value::array(l.iter().map(|v| v.build()).collect()),
            V::M(m) => {
                let mut im: FxIndexMap<Arc<str>, Value> = FxIndexMap::default();
                for (k, v) in m { im.insert(Arc::from(k.as_str()), v.build()); }
                Value::map(im)
            }
        }
    }
    /// final state of a map insertion sequence (position of first insert, last value)
    fn normal_entries(m: &[(String, V)]) -> Vec<(String, V)> {
        let mut out: Vec<(String, V)> = Vec::new();
        for (k, v) in m {
            if let Some(e) = out.iter_mut().find(|e| &e.0 == k) { e.1 = v.clone(); } else { out.push((k.clone(), v.clone())); }
        }
        out
    }
    fn depth(&self) -> u32 {
        match self {
            V::A(l) => 1 + l.iter().map(|v| v.depth()).max().unwrap_or(0),
            V::M(m) => 1 + m.iter().map(|(_, v)| v.depth()).max().unwrap_or(0),
            _ => 0,
        }
    }
}

/// records every `Hasher::write_*` call as one token
struct Rec(Vec<String>);
impl Hasher for Rec {
    fn finish(&self) -> u64 { 0 }
    fn write(&mut self, b: &[u8]) { self.0.push(format!("b:{}", hex(b))); }
    fn write_u8(&mut self, i: u8) { self.0.push(format!("u8:{}", i)); }
    fn write_u16(&mut self, i: u16) { self.0.push(format!("u16:{}", i)); }
    fn write_u32(&mut self, i: u32) { self.0.push(format!("u32:{}", i)); }
    fn write_u64(&mut self, i: u64) { self.0.push(format!("u64:{}", i)); }
    fn write_u128(&mut self, i: u128) { self.0.push(format!("u128:{}", i)); }
    fn write_usize(&mut self, i: usize) { self.0.push(format!("us:{}", i)); }
    fn write_i8(&mut self, i: i8) { self.0.push(format!("i8:{}", i)); }
    fn write_i16(&mut self, i: i16) { self.0.push(format!("i16:{}", i)); }
    fn write_i32(&mut self, i: i32) { self.0.push(format!("i32:{}", i)); }
    fn write_i64(&mut self, i: i64) { self.0.push(format!("i64:{}", i)); }
    fn write_i128(&mut self, i: i128) { self.0.push(format!("i128:{}", i)); }
    fn write_isize(&mut self, i: isize) { self.0.push(format!("is:{}", i)); }
}

fn trace(v: &Value) -> String {
    let mut r = Rec(Vec::new());
    v.hash(&mut r);
    r.0.join(" ")
}
fn dhash(v: &Value) -> u64 {
    let mut h = DefaultHasher::new();
    v.hash(&mut h);
    h.finish()
}
fn b(x: bool) -> &'static str { if x { "1" } else { "0" } }

const NAN_Q: u64 = 0x7ff8000000000000;
const NAN_NEG_PAYLOAD: u64 = 0xfff0000000000001;
const NEG_ZERO: u64 = 0x8000000000000000;

fn float_pool() -> Vec<u64> {
    vec![
        0, NEG_ZERO, 1.0f64.to_bits(), (-1.0f64).to_bits(), 0.5f64.to_bits(), 1.0000000000000002f64.to_bits(),
        NAN_Q, NAN_NEG_PAYLOAD, 0x7ff0000000000001, f64::INFINITY.to_bits(), f64::NEG_INFINITY.to_bits(),
        1, 0x8000000000000001, f64::MAX.to_bits(), f64::MIN_POSITIVE.to_bits(), 2.0f64.to_bits(),
    ]
}

fn scalar_pool() -> Vec<V> {
    let mut p = vec![V::N, V::B(false), V::B(true)];
    for n in [0i64, 1, -1, 2, i64::MIN, i64::MAX] { p.push(V::I(n)); }
    for f in float_pool() { p.push(V::F(f)); }
    for s in ["", "a", "b", "ab", "é", "1", "null"] { p.push(V::S(s.into())); }
    for n in [0i64, 1, -1, i64::MAX] { p.push(V::T(n)); }
    for n in [0u64, 1, u64::MAX] { p.push(V::D(n)); }
    p
}

/// reduced pool for exhaustive container enumeration
fn small_pool() -> Vec<V> {
    vec![V::N, V::I(1), V::F(0), V::F(NEG_ZERO), V::F(NAN_Q), V::F(NAN_NEG_PAYLOAD), V::S("a".into())]
}

fn containers_depth1(pool: &[V]) -> Vec<V> {
    let mut out = vec![V::A(vec![]), V::M(vec![])];
    for x in pool {
        out.push(V::A(vec![x.clone()]));
        out.push(V::M(vec![("a".into(), x.clone())]));
        out.push(V::M(vec![("b".into(), x.clone())]));
        for y in pool {
            out.push(V::A(vec![x.clone(), y.clone()]));
            out.push(V::M(vec![("a".into(), x.clone()), ("b".into(), y.clone())]));
            out.push(V::M(vec![("b".into(), y.clone()), ("a".into(), x.clone())]));
            // re-insert of an existing key: the value is replaced, the position kept
            out.push(V::M(vec![("a".into(), x.clone()), ("a".into(), y.clone())]));
        }
    }
    out
}

fn gen_scalar(ctx: &mut Ctx, pool: &[V]) -> V { ctx.rng.pick(pool).clone() }

fn gen_value(ctx: &mut Ctx, pool: &[V], depth: u32) -> V {
    if depth == 0 || ctx.rng.chance(2, 5) { return gen_scalar(ctx, pool); }
    let n = ctx.rng.below(4) as usize;
    if ctx.rng.chance(1, 3) {
        V::A((0..n).map(|_| gen_value(ctx, pool, depth - 1)).collect())
    } else {
        let keys = ["a", "b", "c", "", "é"];
        V::M((0..n).map(|_| (ctx.rng.pick(&keys).to_string(), gen_value(ctx, pool, depth - 1))).collect())
    }
}

/// a value that must compare equal: other NaN / other zero, maps re-inserted in a shuffled order
fn equal_variant(ctx: &mut Ctx, v: &V) -> V {
    match v {
        V::F(bits) => {
            let f = f64::from_bits(*bits);
            if f.is_nan() { V::F(*ctx.rng.pick(&[NAN_Q, NAN_NEG_PAYLOAD, 0x7ff0000000000001, *bits])) }
            else if f == 0.0 { V::F(*ctx.rng.pick(&[0, NEG_ZERO])) }
            else { v.clone() }
        }
        V::A(l) => V::A(l.iter().map(|x| equal_variant(ctx, x)).collect()),
        V::M(m) => {
            let mut e: Vec<(String, V)> = V::normal_entries(m).iter().map(|(k, x)| (k.clone(), equal_variant(ctx, x))).collect();
            // Fisher-Yates
            for i in (1..e.len()).rev() { let j = ctx.rng.below(i as u64 + 1) as usize; e.swap(i, j); }
            V::M(e)
        }
        _ => v.clone(),
    }
}

/// a small change somewhere in the tree (usually, not always, breaks equality)
fn mutate(ctx: &mut Ctx, v: &V, pool: &[V]) -> V {
    match v {
        V::A(l) if !l.is_empty() && ctx.rng.chance(3, 4) => {
            let mut l = l.clone();
            let i = ctx.rng.below(l.len() as u64) as usize;
            match ctx.rng.below(4) {
                0 => { l.remove(i); }
                1 => { let x = gen_scalar(ctx, pool); l.insert(i, x); }
                2 => { let j = ctx.rng.below(l.len() as u64) as usize; l.swap(i, j); }
                _ => { l[i] = mutate(ctx, &l[i], pool); }
            }
            V::A(l)
        }
        V::M(m) if !m.is_empty() && ctx.rng.chance(3, 4) => {
            let mut m = m.clone();
            let i = ctx.rng.below(m.len() as u64) as usize;
            match ctx.rng.below(4) {
                0 => { m.remove(i); }
                1 => { let x = gen_scalar(ctx, pool); m.push(("z".into(), x)); }
                2 => { m[i].0 = if m[i].0 == "a" { "b".into() } else { "a".into() }; }
                _ => { m[i].1 = mutate(ctx, &m[i].1, pool); }
            }
            V::M(m)
        }
        _ => gen_scalar(ctx, pool),
    }
}

fn kind(v: &V) -> &'static str {
    match v { V::N => "null", V::B(_) => "bool", V::I(_) => "int", V::F(_) => "float", V::S(_) => "str",
              V::T(_) => "timestamp", V::D(_) => "duration", V::A(_) => "array", V::M(_) => "map" }
}

fn case_hash(ctx: &mut Ctx, v: &V) {
    let val = v.build();
    ctx.case(&format!("hash {}", v.text()), &trace(&val));
    ctx.count(&format!("hash:{}:d{}", kind(v), v.depth()));
}

fn case_eq(ctx: &mut Ctx, x: &V, y: &V) {
    let (a, c) = (x.build(), y.build());
    let ab = a == c;
    let ba = c == a;
    let hd = dhash(&a) == dhash(&c);
    let ht = trace(&a) == trace(&c);
    ctx.case(&format!("eq {} | {}", x.text(), y.text()), &format!("{} {} {} {}", b(ab), b(ba), b(hd), b(ht)));
    ctx.count(if ab { "eq:equal" } else { "eq:unequal" });
    if ab && x != y { ctx.count("eq:equal-but-different-spec"); }
    ctx.count(&format!("eq:{}x{}", kind(x), kind(y)));
}

fn case_trans(ctx: &mut Ctx, x: &V, y: &V, z: &V) {
    let (a, c, d) = (x.build(), y.build(), z.build());
    let (ab, bc, ac) = (a == c, c == d, a == d);
    ctx.case(&format!("trans {} | {} | {}", x.text(), y.text(), z.text()), &format!("{} {} {}", b(ab), b(bc), b(ac)));
    ctx.count(if ab && bc { "trans:premises-hold" } else { "trans:premise-fails" });
}

pub const NAMES: &[&str] = &["C40", "value"];

pub fn run(ctx: &mut Ctx, _name: &str) {
    ctx.directive("new value");
    let pool = scalar_pool();
    let small = small_pool();
    // corpus: witness of the repaired map-hash defect, NaN payloads, signed zeros, cross-variant payloads
    let m1 = V::M(vec![("a".into(), V::I(1)), ("b".into(), V::I(2))]);
    let m2 = V::M(vec![("b".into(), V::I(2)), ("a".into(), V::I(1))]);
    case_hash(ctx, &m1); case_hash(ctx, &m2); case_eq(ctx, &m1, &m2);
    case_eq(ctx, &V::F(NAN_Q), &V::F(NAN_NEG_PAYLOAD));
    case_eq(ctx, &V::F(0), &V::F(NEG_ZERO));
    case_eq(ctx, &V::I(1), &V::F(1.0f64.to_bits()));
    case_eq(ctx, &V::I(1), &V::T(1));

    // 1. scalars: every value's write sequence, reflexivity, all ordered pairs
    for x in &pool { case_hash(ctx, x); case_eq(ctx, x, x); }
    for x in &pool { for y in &pool { case_eq(ctx, x, y); } }
    // transitivity over all float triples of a reduced pool plus neighbours of other variants
    let tpool: Vec<V> = vec![V::F(0), V::F(NEG_ZERO), V::F(NAN_Q), V::F(NAN_NEG_PAYLOAD), V::F(1.0f64.to_bits()),
                             V::I(0), V::I(1), V::T(1), V::D(1), V::N, V::B(true), V::S("1".into())];
    for x in &tpool { for y in &tpool { for z in &tpool { case_trans(ctx, x, y, z); } } }

    // 2. depth-1 containers over the reduced pool
    let c1 = containers_depth1(&small);
    for x in &c1 { case_hash(ctx, x); case_eq(ctx, x, x); }
    let npairs = (c1.len() * c1.len()) as u64;
    let budget: u64 = if ctx.thorough { npairs } else { 6000 };
    for x in &c1 { for y in &c1 {
        if budget < npairs && ctx.rng.below(npairs) >= budget { continue; }
        case_eq(ctx, x, y);
    } }
    // depth-2 containers built from depth-1 containers of a 3-value pool: permuted outer and inner maps
    let tiny = vec![V::I(1), V::F(NEG_ZERO), V::F(NAN_Q)];
    let c1t = containers_depth1(&tiny);
    let mut c2pool = tiny.clone();
    c2pool.extend(c1t.iter().cloned());
    let n2 = if ctx.thorough { 30000 } else { 2500 };
    for _ in 0..n2 {
        let x = V::M(vec![("a".into(), ctx.rng.pick(&c2pool).clone()), ("b".into(), ctx.rng.pick(&c2pool).clone())]);
        let y = equal_variant(ctx, &x);
        let z = mutate(ctx, &y, &tiny);
        case_hash(ctx, &y);
        case_eq(ctx, &x, &y); case_eq(ctx, &y, &z);
        case_trans(ctx, &x, &y, &z);
    }

    // 3. random trees of depth ≤ 3 with equality-preserving and equality-breaking neighbours
    let n3 = if ctx.thorough { 40000 } else { 3000 };
    for _ in 0..n3 {
        let x = gen_value(ctx, &pool, 3);
        let y = equal_variant(ctx, &x);
        let z = equal_variant(ctx, &y);
        let w = mutate(ctx, &x, &pool);
        case_hash(ctx, &x);
        case_eq(ctx, &x, &x);
        case_eq(ctx, &x, &y);
        case_eq(ctx, &x, &w);
        case_eq(ctx, &w, &y);
        case_trans(ctx, &x, &y, &z);
        case_trans(ctx, &x, &y, &w);
        case_trans(ctx, &w, &x, &y);
    }
}
