//! C46: the preloading reader (`EventFileParser::parse`) and the streaming reader
//! (`StreamingEventReader`, consumed like the CLI does: stop at the first `Err`) on the same file.
//! Case lines (free text is hex of its UTF-8 bytes):
//!   new
//!   pl <hex payload> => ok <canonical event> | err | panic      (the shared payload parser, oracle for the model)
//!   file <hex content> => P=<outcome> S=<outcome>
//!     outcome = ok:<ev>@<offset_ms>,… (P) | ok:<ev>,… (S) | reject | panic
use crate::util::{catch, Ctx};
use std::io::{BufReader, Cursor};
use varpulis_core::Value;
use varpulis_runtime::event::Event;
use varpulis_runtime::event_file::{EventFileParser, StreamingEventReader};

pub const NAMES: &[&str] = &["C46"];

fn hex(s: &str) -> String {
    if s.is_empty() { return "-".to_string(); }
    s.bytes().map(|b| format!("{:02x}", b)).collect()
}

fn canon_value(v: &Value, out: &mut String) {
    match v {
        Value::Null => out.push('n'),
        Value::Bool(b) => out.push_str(if *b { "b1" } else { "b0" }),
        Value::Int(i) => out.push_str(&format!("i{}", i)),
        Value::Float(f) => out.push_str(&format!("f{:016x}", f.to_bits())),
        Value::Str(s) => { out.push('s'); out.push_str(&hex(s)); }
        Value::Timestamp(t) => out.push_str(&format!("t{}", t)),
        Value::Duration(d) => out.push_str(&format!("d{}", d)),
        Value::Array(a) => {
            out.push_str("a(");
            for (i, x) in a.iter().enumerate() { if i > 0 { out.push('/'); } canon_value(x, out); }
            out.push(')');
        }
        Value::Map(m) => {
            out.push_str("m(");
            for (i, (k, x)) in m.iter().enumerate() { if i > 0 { out.push('/'); } out.push_str(&hex(k)); out.push('~'); canon_value(x, out); }
            out.push(')');
        }
    }
}

/// type and fields in insertion order (the order is part of "the same event"); the timestamp is not
/// (JSONL events are stamped with the wall clock)
fn canon_event(e: &Event) -> String {
    let mut s = format!("T{}", hex(&e.event_type));
    for (k, v) in e.data.iter() { s.push(';'); s.push_str(&hex(k)); s.push(':'); canon_value(v, &mut s); }
    s
}

fn preload(content: &str) -> String {
    match catch(|| EventFileParser::parse(content)) {
        Ok(Ok(evs)) => format!("ok:{}", evs.iter().map(|t| format!("{}@{}", canon_event(&t.event), t.time_offset_ms)).collect::<Vec<_>>().join(",")),
        Ok(Err(_)) => "reject".to_string(),
        Err(_) => "panic".to_string(),
    }
}

fn consume<R: std::io::BufRead>(reader: StreamingEventReader<R>) -> String {
    let r = catch(std::panic::AssertUnwindSafe(move || {
        let mut reader = reader;
        let mut out = Vec::new();
        loop {
            match reader.next() {
                Some(Ok(e)) => out.push(canon_event(&e)),
                Some(Err(_)) => return Err(()),
                None => return Ok(out),
            }
        }
    }));
    match r {
        Ok(Ok(evs)) => format!("ok:{}", evs.join(",")),
        Ok(Err(())) => "reject".to_string(),
        Err(_) => "panic".to_string(),
    }
}

fn streaming(content: &str) -> String {
    consume(StreamingEventReader::new(BufReader::with_capacity(64, Cursor::new(content.as_bytes().to_vec()))))
}

fn is_ws(c: char) -> bool { c.is_whitespace() }

/// the texts the readers may hand to the payload parser for this line
fn payload_candidates(line: &str, out: &mut Vec<String>) {
    let t = line.trim();
    if t.is_empty() { return; }
    out.push(t.to_string());
    if t.starts_with('@') {
        let u = t.trim_start_matches('@');
        if let Some(p) = u.find(is_ws) { out.push(u[p..].trim().to_string()); }
    }
}

fn emit_file(ctx: &mut Ctx, content: &str, via_file: bool) {
    ctx.directive("new");
    let mut cands = Vec::new();
    for seg in content.split('\n') { payload_candidates(seg, &mut cands); }
    cands.sort();
    cands.dedup();
    for p in &cands {
        let r = match catch(|| EventFileParser::verif_parse_payload(p)) {
            Ok(Ok(e)) => format!("ok {}", canon_event(&e)),
            Ok(Err(_)) => "err".to_string(),
            Err(_) => "panic".to_string(),
        };
        ctx.case(&format!("pl {}", hex(p)), &r);
    }
    let p = preload(content);
    let s = streaming(content);
    if via_file {
        // the same through the file-based constructors the CLI uses
        let path = std::path::PathBuf::from(format!("/var/tmp/a10-c46-{}-{}.evt", std::process::id(), ctx.cases));
        std::fs::write(&path, content).unwrap();
        let pf = match catch(|| EventFileParser::parse_file(&path)) {
            Ok(Ok(f)) => format!("ok:{}", f.events.iter().map(|t| format!("{}@{}", canon_event(&t.event), t.time_offset_ms)).collect::<Vec<_>>().join(",")),
            Ok(Err(_)) => "reject".to_string(),
            Err(_) => "panic".to_string(),
        };
        let sf = match StreamingEventReader::from_file(&path) { Ok(r) => consume(r), Err(_) => "reject".to_string() };
        let _ = std::fs::remove_file(&path);
        ctx.count("via-file");
        if pf != p || sf != s {
            // reported as its own case so that the model comparison shows it
            ctx.case(&format!("file {}", hex(content)), &format!("P={} S={}", pf, sf));
        }
    }
    ctx.count(&format!("P:{}", p.split(':').next().unwrap()));
    ctx.count(&format!("S:{}", s.split(':').next().unwrap()));
    ctx.case(&format!("file {}", hex(content)), &format!("P={} S={}", p, s));
}

// ---------------------------------------------------------------- generator

const TYPES: &[&str] = &["A", "Order", "StockTick", "Temp_1", "BATCHED", "x", "Évén"];
const NAMES_F: &[&str] = &["id", "symbol", "price", "v", "user_id", "ts", "naïve"];
const WS: &[&str] = &[" ", " ", " ", "\t", "  ", "\u{a0}", "\u{3000}", "\u{2003}", "\u{b}"];

fn gen_value(ctx: &mut Ctx, depth: u32) -> String {
    match ctx.rng.below(if depth > 1 { 9 } else { 11 }) {
        0 => ctx.rng.range(-1000, 100000).to_string(),
        1 => format!("{}.{}", ctx.rng.range(-50, 500), ctx.rng.below(100)),
        2 => (*ctx.rng.pick(&["true", "false", "null", "nil", "1e3", "-0.0", "inf", "NaN", "+7", "9223372036854775808"])).to_string(),
        3 => format!("\"{}\"", ctx.rng.pick(&["AAPL", "a b", "x,y", "q{r}", "it's", "", "é", "a\\\"b", "tab\\tn\\n", "#no // comment", "@home", "semi;colon"])),
        4 => format!("'{}'", ctx.rng.pick(&["s", "two words", "d\"q"])),
        5 => (*ctx.rng.pick(&["abc", "GOOG", "a_b", "BATCH", "hello world", "x:y", "a'b", "1.", ".5", "1e", "TRUE", "[", "\"", "a\\", "{k: 1, l: [2, 3]}", "(1, 2)"])).to_string(),
        6 => ctx.rng.range(0, 9).to_string(),
        7 => format!("\"{}\"", ctx.rng.below(1000)),
        8 => format!("{}", (ctx.rng.next() as i64) >> 1),
        _ => {
            let n = ctx.rng.below(4);
            let items: Vec<String> = (0..n).map(|_| gen_value(ctx, depth + 1)).collect();
            format!("[{}]", items.join(", "))
        }
    }
}

fn gen_json_value(ctx: &mut Ctx, depth: u32) -> String {
    match ctx.rng.below(if depth > 1 { 6 } else { 8 }) {
        0 => ctx.rng.range(-1000, 100000).to_string(),
        1 => format!("{}.5", ctx.rng.range(-50, 500)),
        2 => (*ctx.rng.pick(&["true", "false", "null", "1e3", "18446744073709551615"])).to_string(),
        3 | 4 => format!("\"{}\"", ctx.rng.pick(&["AAPL", "a b", "x,y", "q{r}", "é", "a\\\"b", "\\u00e9\\n", "@x", "# c"])),
        5 => ctx.rng.range(0, 9).to_string(),
        6 => { let n = ctx.rng.below(3); let v: Vec<String> = (0..n).map(|_| gen_json_value(ctx, depth + 1)).collect(); format!("[{}]", v.join(",")) }
        _ => { let n = ctx.rng.below(3); let v: Vec<String> = (0..n).map(|i| format!("\"k{}\":{}", i, gen_json_value(ctx, depth + 1))).collect(); format!("{{{}}}", v.join(",")) }
    }
}

fn gen_payload(ctx: &mut Ctx) -> String {
    let ty = *ctx.rng.pick(TYPES);
    match ctx.rng.below(10) {
        0..=4 => {
            let n = ctx.rng.below(4);
            let fs: Vec<String> = (0..n).map(|_| { let k = *ctx.rng.pick(NAMES_F); format!("{}: {}", k, gen_value(ctx, 0)) }).collect();
            ctx.count("form:evt-braces");
            let semi = if ctx.rng.chance(1, 5) { ";" } else { "" };
            if fs.is_empty() { format!("{} {{ }}{}", ty, semi) } else { format!("{} {{ {} }}{}", ty, fs.join(", "), semi) }
        }
        5 | 6 => {
            let n = ctx.rng.below(4);
            let fs: Vec<String> = (0..n).map(|_| gen_value(ctx, 0)).collect();
            ctx.count("form:evt-positional");
            format!("{}({}){}", ty, fs.join(", "), if ctx.rng.chance(1, 5) { ";" } else { "" })
        }
        _ => {
            let n = ctx.rng.below(4);
            let fs: Vec<String> = (0..n).map(|_| { let k = *ctx.rng.pick(NAMES_F); format!("\"{}\": {}", k, gen_json_value(ctx, 0)) }).collect();
            ctx.count("form:jsonl");
            match ctx.rng.below(8) {
                0 => format!("{{\"event_type\": \"{}\"}}", ty),
                1 => format!("{{\"data\": {{{}}}, \"event_type\": \"{}\", \"extra\": 1}}", fs.join(", "), ty),
                _ => format!("{{\"event_type\": \"{}\", \"data\": {{{}}}}}", ty, fs.join(", ")),
            }
        }
    }
}

fn gen_bad_payload(ctx: &mut Ctx) -> String {
    ctx.count("form:bad-payload");
    (*ctx.rng.pick(&["JustAName", "A { x }", "A { x: [1, 2 }", "{\"data\": {}}", "{not json", "{\"event_type\": 5}", "batch 5", "A { : }", "(1, 2)", "= 3"])).to_string()
}

fn gen_line(ctx: &mut Ctx, allow_bad: bool) -> String {
    let k = ctx.rng.below(100);
    let line = match k {
        0..=7 => { ctx.count("line:comment#"); format!("# {}", ctx.rng.pick(&["note", "BATCH 5", "@1s A {}", ""])) }
        8..=12 => { ctx.count("line:comment//"); format!("//{}", ctx.rng.pick(&[" c", "A { x: 1 }", ""])) }
        13..=20 => { ctx.count("line:blank"); (*ctx.rng.pick(&["", " ", "\t", "\u{a0}", "  \u{3000} "])).to_string() }
        21..=32 => {
            ctx.count("line:batch");
            match ctx.rng.below(12) {
                0 => "BATCH".to_string(),
                1 => format!("BATCH {} trailing words", ctx.rng.below(1000)),
                2 => format!("BATCH\t{}", ctx.rng.below(1000)),
                3 => format!("BATCH +{}", ctx.rng.below(1000)),
                4 => "BATCH 18446744073709551615".to_string(),
                5 => format!("BATCH{}", ctx.rng.below(100)),
                _ => format!("BATCH {}", ctx.rng.below(100000)),
            }
        }
        33..=60 => {
            ctx.count("line:timed");
            let n = match ctx.rng.below(6) { 0 => 0, 1 => ctx.rng.below(10), 2 => 18446744073709551u64, _ => ctx.rng.below(100000) };
            let unit = *ctx.rng.pick(&["s", "s", "ms", "ms", "", "m", "ss", "msms"]);
            let ats = if ctx.rng.chance(1, 20) { "@@" } else { "@" };
            let sep = *ctx.rng.pick(WS);
            format!("{}{}{}{}{}", ats, n, unit, sep, gen_payload(ctx))
        }
        61..=93 => { ctx.count("line:plain"); gen_payload(ctx) }
        _ => {
            if !allow_bad { ctx.count("line:plain"); gen_payload(ctx) } else {
                match ctx.rng.below(12) {
                    0 => { ctx.count("line:bad-batch"); format!("BATCH {}", ctx.rng.pick(&["soon", "-1", "1.5", "18446744073709551616", "{", "5ms"])) }
                    1 => { ctx.count("line:bad-batch"); "BATCHED { x: 1 }".to_string() }
                    2 => { ctx.count("line:bad-timing"); format!("@{} {}", ctx.rng.pick(&["soon", "5h", "-3s", "1.5s", "s", "ms", "", "5 s"]), gen_payload(ctx)) }
                    3 => { ctx.count("line:bad-timing"); format!("@{}s", ctx.rng.below(100)) }
                    4 => { ctx.count("line:timing-overflow"); format!("@{} {}", ctx.rng.pick(&["18446744073709551615s", "18446744073709552s", "307445734561825861m", "18446744073709551615m"]), gen_payload(ctx)) }
                    5 => { ctx.count("line:timing-max"); format!("@{} {}", ctx.rng.pick(&["18446744073709551615ms", "18446744073709551s", "18446744073709551615"]), gen_payload(ctx)) }
                    6 => { ctx.count("line:timed-bad-payload"); format!("@5s {}", gen_bad_payload(ctx)) }
                    7 => { ctx.count("line:timed-marker-payload"); format!("@5s {}", ctx.rng.pick(&["# c", "BATCH 7", "@3s A { x: 1 }", "// c"])) }
                    _ => gen_bad_payload(ctx),
                }
            }
        }
    };
    // padding with (possibly exotic) whitespace
    let lead = if ctx.rng.chance(1, 4) { *ctx.rng.pick(WS) } else { "" };
    let trail = if ctx.rng.chance(1, 4) { *ctx.rng.pick(WS) } else { "" };
    format!("{}{}{}", lead, line, trail)
}

fn gen_file(ctx: &mut Ctx) -> String {
    let nlines = match ctx.rng.below(10) { 0 => 0, 1 => 1, _ => 2 + ctx.rng.below(10) };
    let allow_bad = ctx.rng.chance(1, 4);
    let crlf = ctx.rng.chance(1, 6);
    let mut s = String::new();
    for i in 0..nlines {
        s.push_str(&gen_line(ctx, allow_bad));
        let last = i + 1 == nlines;
        if !(last && ctx.rng.chance(1, 3)) { s.push_str(if crlf || ctx.rng.chance(1, 30) { "\r\n" } else { "\n" }); }
    }
    if allow_bad { ctx.count("file:may-contain-bad-lines"); } else { ctx.count("file:valid-forms-only"); }
    s
}

/// payloads aimed at the corners of the `.evt` grammar (parse_event_line / split_fields / parse_value)
fn grammar_corners() -> Vec<String> {
    let deep = |n: usize| format!("A {{ x: {}1{} }}", "[".repeat(n), "]".repeat(n));
    vec![
        deep(31), deep(32), deep(33), deep(34),
        "A { x: 1 } ;".into(), "A { x: 1 };;;".into(), "A {{ x: 1 }}".into(), "A { x: 1".into(), "A x: 1 }".into(),
        "A { x: 1, x: 2, y: 3, x: [4] }".into(), "A { : 5 }".into(), "A { x: }".into(), "A { x:: 1 }".into(),
        "A { s: \"a, b\", t: 'c, d' }".into(), "A { s: \"a\\\"b, c\", n: 2 }".into(), "A { s: \"tail\\\\\", n: 2 }".into(),
        "A { s: \"\\é, x\", n: 2 }".into(), "A { s: \"open, n: 2 }".into(), "A { s: 'it's', n: 2 }".into(),
        "A { a: [1, [2, 3], \"x]\", (4, 5)], b: {k: 1, l: 2} }".into(), "A { a: ], b: 1 }".into(), "A { a: [1, 2 }".into(),
        "A { v: +7, w: -0, x: 9223372036854775807, y: 9223372036854775808, z: -9223372036854775808 }".into(),
        "A { v: 1., w: .5, x: 1.e3, y: 1e, z: e5, u: 1_000, t: 0x10, s: -inf, r: +NaN, q: Infinity, p: . }".into(),
        "A { v: \"\", w: '', x: \", y: ', z: \"a\" }".into(), "A { v: TRUE, w: Null, x: nil, y: true , z:false }".into(),
        "A(1, , 2,, 3)".into(), "A(1, (2, 3), [4, 5])".into(), "A()".into(), "A(".into(), "A) (".into(), "(1)".into(), "{ x: 1 }x".into(),
        "Foo(1, {2})".into(), "A [1] { x: 1 }".into(), "  Spaced   Name  { x : 1 }".into(), "A { naïve: é, \u{3000}k\u{a0}: \u{2003}v }".into(),
    ]
}

pub fn run(ctx: &mut Ctx, _name: &str) {
    {
        let corners = grammar_corners();
        ctx.count_n("grammar-corner", corners.len() as u64);
        emit_file(ctx, &corners.join("\n"), false);
        for c in &corners { emit_file(ctx, &format!("@5s {}\n{};\n", c, c), false); }
    }
    // recorded witnesses of the two repaired defects and of the known finding
    emit_file(ctx, "@0s A { x: 1 }\n@1s B { x: 2 }\nC { x: 3 }\n", true);
    emit_file(ctx, "BATCH soon\nA { x: 1 }\n", true);
    emit_file(ctx, "# header\n\nBATCH 100\n  A { x: 1 };\n// note\n@2s B { y: \"q\" }\n@250ms C(1, 2)\n@7 D { }\n{\"event_type\": \"E\", \"data\": {\"k\": [1, 2.5, \"s\"]}}\n", true);
    {
        // known finding C46-oversized-line: one line of more than MAX_LINE_LENGTH bytes
        let big = format!("A {{ pad: \"{}\" }}\nB {{ x: 1 }}\n", "x".repeat(1_048_576));
        ctx.count("oversized-line");
        emit_file(ctx, &big, false);
        let exact = format!("A {{ pad: \"{}\" }}\nB {{ x: 1 }}\n", "x".repeat(1_048_576 - 14));
        ctx.count("line-of-exactly-max-bytes");
        emit_file(ctx, &exact, false);
    }
    let n = if ctx.thorough { 60000 } else { 1500 };
    for i in 0..n {
        let f = gen_file(ctx);
        emit_file(ctx, &f, i % 10 == 0);
    }
}
