//! C12 / C13: windows (tumbling, count, session, sliding, count-sliding; plain and partitioned)
//! driven through the public window API and through the real front end
//! (`varpulis_parser::parse` + `Engine::load`, events with explicit timestamps).
//! Line protocol: see lean/Varpulis/Driver/Window.lean.
use crate::util::{catch, Ctx, Rng};
use chrono::{DateTime, Duration, Utc};
use std::collections::BTreeMap;
use std::sync::Arc;
use tokio::sync::mpsc;
use varpulis_core::Value;
use varpulis_runtime::engine::Engine;
use varpulis_runtime::event::{Event, SharedEvent};
use varpulis_runtime::window::{
    CountWindow, PartitionedSessionWindow, PartitionedSlidingWindow, PartitionedTumblingWindow,
    SessionWindow, SlidingCountWindow, SlidingWindow, TumblingWindow,
};

pub const NAMES: &[&str] = &["C12", "C13"];

#[derive(Clone, Copy, Debug, PartialEq)]
pub enum Kind {
    Tumbling(i64),
    Count(usize),
    Session(i64),
    Sliding(i64, i64),
    SCount(usize, usize),
}

impl Kind {
    pub fn text(&self) -> String {
        match self {
            Kind::Tumbling(d) => format!("tumbling {d}"),
            Kind::Count(n) => format!("count {n}"),
            Kind::Session(g) => format!("session {g}"),
            Kind::Sliding(a, b) => format!("sliding {a} {b}"),
            Kind::SCount(a, b) => format!("scount {a} {b}"),
        }
    }
    pub fn vpl_window(&self) -> String {
        match self {
            Kind::Tumbling(d) => format!(".window({d}ms)"),
            Kind::Count(n) => format!(".window({n})"),
            Kind::Session(g) => format!(".window(session: {g}ms)"),
            Kind::Sliding(a, b) => format!(".window({a}ms, sliding: {b}ms)"),
            Kind::SCount(a, b) => format!(".window({a}, sliding: {b})"),
        }
    }
    pub fn timed(&self) -> bool { !matches!(self, Kind::Count(_) | Kind::SCount(_, _)) }
}

#[derive(Clone, Debug, PartialEq)]
pub enum Key {
    Missing,
    Str(String),
    Int(i64),
}

impl Key {
    pub fn text(&self) -> String {
        match self {
            Key::Missing => "-".into(),
            Key::Str(s) => format!("s:{s}"),
            Key::Int(i) => format!("i:{i}"),
        }
    }
    pub fn value(&self) -> Option<Value> {
        match self {
            Key::Missing => None,
            Key::Str(s) => Some(Value::Str(s.clone().into_boxed_str())),
            Key::Int(i) => Some(Value::Int(*i)),
        }
    }
}

#[derive(Clone, Debug)]
pub struct Ev {
    pub id: u32,
    pub ts: i64,
    pub key: Key,
}

#[derive(Clone, Debug)]
pub enum Op {
    Add(Ev),
    Wm(i64),
    Flush,
    Expire(i64),
    Cur,
    Len,
}

impl Op {
    pub fn text(&self) -> String {
        match self {
            Op::Add(e) => format!("add {} {} {}", e.id, e.ts, e.key.text()),
            Op::Wm(t) => format!("wm {t}"),
            Op::Flush => "flush".into(),
            Op::Expire(t) => format!("expire {t}"),
            Op::Cur => "cur".into(),
            Op::Len => "len".into(),
        }
    }
}

pub const BASE_MS: i64 = 1_000_000_000;
pub fn at(ts: i64) -> DateTime<Utc> { DateTime::from_timestamp_millis(BASE_MS + ts).unwrap() }

pub fn mk_event(e: &Ev) -> Event {
    let mut ev = Event::new_at("T", at(e.ts))
        .with_field("id", e.id as i64)
        .with_field("v", (1i64 << e.id.min(62)) as i64);
    if let Some(v) = e.key.value() { ev = ev.with_field("k", v); }
    ev
}

/// the partition key the real code derives (`Value::to_partition_key`, missing field -> "default")
pub fn real_key(e: &Event) -> String {
    e.get("k").map(|v| v.to_partition_key().into_owned()).unwrap_or_else(|| "default".to_string())
}

fn ids(v: &[SharedEvent]) -> Vec<i64> { v.iter().map(|e| e.get_int("id").unwrap_or(-1)).collect() }
pub fn fmt_ids(v: &[i64]) -> String { format!("[{}]", v.iter().map(|i| i.to_string()).collect::<Vec<_>>().join(",")) }

/// canonical form of tagged emissions: sorted by key, `key:[ids]` (`[ids]` for the empty key), `-` if none
pub fn fmt_tagged(mut l: Vec<(String, Vec<i64>)>) -> String {
    if l.is_empty() { return "-".into(); }
    l.sort_by(|a, b| a.0.cmp(&b.0));
    l.iter().map(|(k, v)| if k.is_empty() { fmt_ids(v) } else { format!("{}:{}", k, fmt_ids(v)) }).collect::<Vec<_>>().join(" ")
}

/// group a flat event list by the real partition key (stable), for `flush_shared` / `current_all_shared`
fn group_by_key(v: &[SharedEvent]) -> Vec<(String, Vec<i64>)> {
    let mut m: BTreeMap<String, Vec<i64>> = BTreeMap::new();
    for e in v { m.entry(real_key(e)).or_default().push(e.get_int("id").unwrap_or(-1)); }
    m.into_iter().collect()
}

pub enum ApiWin {
    T(TumblingWindow),
    C(CountWindow),
    S(SessionWindow),
    Sl(SlidingWindow),
    Sc(SlidingCountWindow),
    PT(PartitionedTumblingWindow),
    PS(PartitionedSessionWindow),
    PSl(PartitionedSlidingWindow),
}

impl ApiWin {
    pub fn new(kind: Kind, part: bool) -> Option<ApiWin> {
        let ms = Duration::milliseconds;
        Some(match (kind, part) {
            (Kind::Tumbling(d), false) => ApiWin::T(TumblingWindow::new(ms(d))),
            (Kind::Count(n), false) => ApiWin::C(CountWindow::new(n)),
            (Kind::Session(g), false) => ApiWin::S(SessionWindow::new(ms(g))),
            (Kind::Sliding(a, b), false) => ApiWin::Sl(SlidingWindow::new(ms(a), ms(b))),
            (Kind::SCount(a, b), false) => ApiWin::Sc(SlidingCountWindow::new(a, b)),
            (Kind::Tumbling(d), true) => ApiWin::PT(PartitionedTumblingWindow::new("k".into(), ms(d))),
            (Kind::Session(g), true) => ApiWin::PS(PartitionedSessionWindow::new("k".into(), ms(g))),
            (Kind::Sliding(a, b), true) => ApiWin::PSl(PartitionedSlidingWindow::new("k".into(), ms(a), ms(b))),
            _ => return None, // partitioned count windows are engine-internal types
        })
    }

    /// apply one operation, return the canonical answer; None = operation not offered by this window
    pub fn apply(&mut self, op: &Op) -> Option<String> {
        let opt = |k: String, r: Option<Vec<SharedEvent>>| match r {
            None => "-".to_string(),
            Some(v) => fmt_tagged(vec![(k, ids(&v))]),
        };
        let vecr = |v: Vec<SharedEvent>| if v.is_empty() { "-".to_string() } else { fmt_tagged(vec![(String::new(), ids(&v))]) };
        let parts = |v: Vec<(String, Vec<SharedEvent>)>| fmt_tagged(v.into_iter().map(|(k, e)| (k, ids(&e))).collect());
        Some(match (self, op) {
            (ApiWin::T(w), Op::Add(e)) => opt(String::new(), w.add_shared(Arc::new(mk_event(e)))),
            (ApiWin::T(w), Op::Wm(t)) => opt(String::new(), w.advance_watermark(at(*t))),
            (ApiWin::T(w), Op::Flush) => vecr(w.flush_shared()),
            (ApiWin::T(w), Op::Len) => w.len().to_string(),
            (ApiWin::C(w), Op::Add(e)) => opt(String::new(), w.add_shared(Arc::new(mk_event(e)))),
            (ApiWin::C(w), Op::Flush) => vecr(w.flush_shared()),
            (ApiWin::C(w), Op::Len) => w.current_count().to_string(),
            (ApiWin::S(w), Op::Add(e)) => opt(String::new(), w.add_shared(Arc::new(mk_event(e)))),
            (ApiWin::S(w), Op::Wm(t)) => opt(String::new(), w.advance_watermark(at(*t))),
            (ApiWin::S(w), Op::Expire(t)) => opt(String::new(), w.check_expired(at(*t))),
            (ApiWin::S(w), Op::Flush) => vecr(w.flush_shared()),
            (ApiWin::Sl(w), Op::Add(e)) => opt(String::new(), w.add_shared(Arc::new(mk_event(e)))),
            (ApiWin::Sl(w), Op::Wm(t)) => opt(String::new(), w.advance_watermark(at(*t))),
            (ApiWin::Sl(w), Op::Cur) => vecr(w.current_shared()),
            (ApiWin::Sc(w), Op::Add(e)) => opt(String::new(), w.add_shared(Arc::new(mk_event(e)))),
            (ApiWin::Sc(w), Op::Len) => w.current_count().to_string(),
            (ApiWin::PT(w), Op::Add(e)) => { let ev = mk_event(e); let k = real_key(&ev); opt(k, w.add_shared(Arc::new(ev))) }
            (ApiWin::PT(w), Op::Wm(t)) => parts(w.advance_watermark(at(*t))),
            (ApiWin::PT(w), Op::Flush) => fmt_tagged(group_by_key(&w.flush_shared())),
            (ApiWin::PS(w), Op::Add(e)) => { let ev = mk_event(e); let k = real_key(&ev); opt(k, w.add_shared(Arc::new(ev))) }
            (ApiWin::PS(w), Op::Wm(t)) => parts(w.advance_watermark(at(*t))),
            (ApiWin::PS(w), Op::Expire(t)) => parts(w.check_expired(at(*t))),
            (ApiWin::PS(w), Op::Flush) => fmt_tagged(group_by_key(&w.flush_shared())),
            (ApiWin::PSl(w), Op::Add(e)) => { let ev = mk_event(e); let k = real_key(&ev); opt(k, w.add_shared(Arc::new(ev))) }
            (ApiWin::PSl(w), Op::Wm(t)) => parts(w.advance_watermark(at(*t))),
            (ApiWin::PSl(w), Op::Cur) => fmt_tagged(group_by_key(&w.current_all_shared())),
            _ => return None,
        })
    }
}

/// the real engine with two streams over the same window: A emits the content, B the aggregate
/// `varpulis_parser::parse` spawns a thread with a large stack per call; parse each distinct program once
pub fn parse_cached(src: &str) -> std::sync::Arc<varpulis_core::ast::Program> {
    thread_local! { static CACHE: std::cell::RefCell<std::collections::HashMap<String, std::sync::Arc<varpulis_core::ast::Program>>> = std::cell::RefCell::new(std::collections::HashMap::new()); }
    CACHE.with(|c| {
        if let Some(p) = c.borrow().get(src) { return p.clone(); }
        let prog = match varpulis_parser::parse(src) {
            Ok(p) => std::sync::Arc::new(p),
            Err(e) => { eprintln!("generator error: program does not parse: {e:?}\n{src}"); std::process::exit(3); }
        };
        c.borrow_mut().insert(src.to_string(), prog.clone());
        prog
    })
}

/// one tokio runtime for all engine calls of the run (building one per scenario dominates the run time)
pub fn rt() -> &'static tokio::runtime::Runtime {
    static RT: std::sync::OnceLock<tokio::runtime::Runtime> = std::sync::OnceLock::new();
    RT.get_or_init(|| tokio::runtime::Builder::new_current_thread().enable_all().build().unwrap())
}

pub struct EngineRun {
    pub rt: &'static tokio::runtime::Runtime,
    pub engine: Engine,
    pub rx: mpsc::Receiver<Event>,
    pub part: bool,
    pub keys: BTreeMap<i64, String>, // id -> real partition key
}

pub fn program(kind: Kind, part: bool) -> String {
    let p = if part { "\n    .partition_by(k)" } else { "" };
    let w = kind.vpl_window();
    let bk = if part { "k: _partition, " } else { "" };
    format!("stream A = T{p}\n    {w}\n    .emit(id: id)\nstream B = T{p}\n    {w}\n    .aggregate(n: count(), s: sum(v))\n    .emit({bk}n: n, s: s)\n")
}

impl EngineRun {
    pub fn new(src: &str, part: bool) -> EngineRun {
        let prog = parse_cached(src);
        let (tx, rx) = mpsc::channel::<Event>(4096);
        let mut engine = Engine::new(tx);
        if let Err(e) = engine.load(&prog) { eprintln!("generator error: program does not load: {e}\n{src}"); std::process::exit(3); }
        engine.enable_watermark_tracking();
        engine.register_watermark_source("ext", Duration::zero());
        EngineRun { rt: rt(), engine, rx, part, keys: BTreeMap::new() }
    }

    fn drain(&mut self) -> String {
        let mut a: Vec<(String, Vec<i64>)> = Vec::new();
        let mut b: Vec<String> = Vec::new();
        while let Ok(ev) = self.rx.try_recv() {
            match &*ev.event_type {
                "A" => {
                    let id = ev.get_int("id").unwrap_or(-1);
                    let k = if self.part { self.keys.get(&id).cloned().unwrap_or_else(|| "?".into()) } else { String::new() };
                    if let Some(g) = a.iter_mut().find(|g| g.0 == k) { g.1.push(id); } else { a.push((k, vec![id])); }
                }
                "B" => {
                    let n = ev.get_int("n").unwrap_or(-1);
                    let s = match ev.get("s") { Some(Value::Float(f)) if f.fract() == 0.0 && *f >= 0.0 => format!("{}", *f as u64), Some(v) => format!("{v}"), None => "?".into() };
                    let k = match ev.get("k") { Some(Value::Str(s)) => format!("k={},", s), Some(v) => format!("k={v},"), None => String::new() };
                    b.push(format!("{k}n={n},s={s}"));
                }
                other => b.push(format!("?{other}")),
            }
        }
        b.sort();
        format!("{} | {}", fmt_tagged(a), if b.is_empty() { "-".to_string() } else { b.join(";") })
    }

    pub fn apply(&mut self, op: &Op) -> Option<String> {
        match op {
            Op::Add(e) => {
                let ev = mk_event(e);
                self.keys.insert(e.id as i64, real_key(&ev));
                let r = self.rt.block_on(self.engine.process(ev));
                if let Err(err) = r { return Some(format!("error {err}")); }
                Some(self.drain())
            }
            Op::Wm(t) => {
                let r = self.rt.block_on(self.engine.advance_external_watermark("ext", BASE_MS + *t));
                if let Err(err) = r { return Some(format!("error {err}")); }
                Some(self.drain())
            }
            _ => None,
        }
    }
}

pub fn engine_op_text(op: &Op) -> String {
    match op { Op::Wm(t) => format!("ewm {t}"), o => o.text() }
}

/// run one scenario through the window API
pub fn run_api(ctx: &mut Ctx, kind: Kind, part: bool, ops: &[Op]) {
    let Some(mut w) = ApiWin::new(kind, part) else { return };
    ctx.directive(&format!("new api {} {}", kind.text(), if part { "part" } else { "plain" }));
    ctx.count(&format!("scenario api {}{}", kind.text().split(' ').next().unwrap(), if part { " part" } else { "" }));
    for op in ops {
        let r = catch(std::panic::AssertUnwindSafe(|| w.apply(op)));
        match r {
            Ok(Some(res)) => {
                count_op(ctx, op, &res);
                ctx.case(&op.text(), &res);
            }
            Ok(None) => {}
            Err(_) => { ctx.count("panic"); ctx.case(&op.text(), "panic"); return; }
        }
    }
}

/// run one scenario through parse + Engine::load + process / advance_external_watermark
pub fn run_engine(ctx: &mut Ctx, kind: Kind, part: bool, ops: &[Op]) {
    let src = program(kind, part);
    let mut er = EngineRun::new(&src, part);
    ctx.directive(&format!("new engine {} {}", kind.text(), if part { "part" } else { "plain" }));
    ctx.directive(&format!("vpl {}", src.replace('\n', " ")));
    ctx.count(&format!("scenario engine {}{}", kind.text().split(' ').next().unwrap(), if part { " part" } else { "" }));
    for op in ops {
        let r = catch(std::panic::AssertUnwindSafe(|| er.apply(op)));
        match r {
            Ok(Some(res)) => {
                count_op(ctx, op, &res);
                ctx.case(&engine_op_text(op), &res);
            }
            Ok(None) => {}
            Err(_) => { ctx.count("panic"); ctx.case(&engine_op_text(op), "panic"); return; }
        }
    }
}

fn count_op(ctx: &mut Ctx, op: &Op, res: &str) {
    let name = match op { Op::Add(_) => "add", Op::Wm(_) => "wm", Op::Flush => "flush", Op::Expire(_) => "expire", Op::Cur => "cur", Op::Len => "len" };
    let emitted = !(res == "-" || res == "- | -");
    ctx.count(&format!("op {name}{}", if emitted && !matches!(op, Op::Cur | Op::Len) { " emits" } else { "" }));
    if res.contains("[]") { ctx.count("empty window Some([])"); }
}

// ---------------------------------------------------------------------------------------------
// generators

pub const STR_KEYS: &[&str] = &["a", "b", "c", "A", "defaul", "Default", "x1", "7"];
pub const INT_KEYS: &[i64] = &[0, 1, -1, 7, 10, -10, 1234567890123, i64::MAX, i64::MIN];

pub fn gen_keys(rng: &mut Rng, part: bool) -> Vec<Key> {
    if !part { return vec![Key::Missing]; }
    let n = rng.range(1, 6) as usize;
    let ints = rng.chance(1, 2);
    let mut ks: Vec<Key> = Vec::new();
    while ks.len() < n {
        let k = if ints { Key::Int(*rng.pick(INT_KEYS)) } else { Key::Str(rng.pick(STR_KEYS).to_string()) };
        if !ks.contains(&k) { ks.push(k); }
    }
    if rng.chance(1, 2) { ks.push(Key::Missing); }
    ks
}

/// random operation sequence. `inorder`: event and watermark times merged monotonically (ties allowed)
pub fn gen_ops(rng: &mut Rng, kind: Kind, part: bool, inorder: bool, len: usize, engine: bool) -> Vec<Op> {
    let keys = gen_keys(rng, part);
    let unit = match kind { Kind::Tumbling(d) => d, Kind::Session(g) => g, Kind::Sliding(a, b) => if rng.chance(1, 2) { a } else { b }, _ => 2 };
    let mut cur: i64 = rng.range(0, 3);
    let mut ops = Vec::new();
    let mut id = 0u32;
    let steps: Vec<i64> = vec![0, 0, 1, 1, 2, unit - 1, unit, unit, unit + 1, 2 * unit, 2 * unit + 1];
    for _ in 0..len {
        let r = rng.below(100);
        let next_t = |rng: &mut Rng, cur: i64| -> i64 {
            if inorder { cur + (*rng.pick(&steps)).max(0) }
            else if rng.chance(1, 3) { (cur - rng.range(1, 2 * unit + 2)).max(0) }
            else { cur + (*rng.pick(&steps)).max(0) }
        };
        if r < 72 || !kind.timed() && r < 90 {
            let t = next_t(rng, cur);
            if inorder || t > cur { cur = t; }
            let key = rng.pick(&keys).clone();
            ops.push(Op::Add(Ev { id, ts: t, key }));
            id += 1;
            if engine && id >= 40 { break; }
        } else if r < 86 {
            let t = next_t(rng, cur);
            if inorder { cur = t; }
            ops.push(Op::Wm(t));
        } else if r < 90 {
            if matches!(kind, Kind::Session(_)) && !engine {
                let t = next_t(rng, cur);
                if inorder { cur = t; }
                ops.push(Op::Expire(t));
            } else { ops.push(Op::Len); }
        } else if r < 95 {
            ops.push(Op::Flush);
        } else if r < 98 {
            ops.push(Op::Cur);
        } else {
            ops.push(Op::Len);
        }
    }
    if !engine { ops.push(Op::Flush); }
    ops
}

/// exhaustive small scope: all sequences of `len` symbols over adds with the given time steps
/// (incl. a late arrival), watermarks and a flush
fn enumerate(len: usize, alphabet: &[Sym], f: &mut dyn FnMut(&[Sym])) {
    let mut idx = vec![0usize; len];
    loop {
        let seq: Vec<Sym> = idx.iter().map(|i| alphabet[*i]).collect();
        f(&seq);
        let mut p = 0;
        loop {
            if p == len { return; }
            idx[p] += 1;
            if idx[p] < alphabet.len() { break; }
            idx[p] = 0;
            p += 1;
        }
    }
}

#[derive(Clone, Copy, Debug)]
pub enum Sym { Add(i64), Late(i64), Wm(i64), Flush, AddKey(i64, u8) }

pub fn realise(seq: &[Sym]) -> Vec<Op> {
    let mut cur = 0i64;
    let mut id = 0u32;
    let mut ops = Vec::new();
    for s in seq {
        match *s {
            Sym::Add(dt) => { cur += dt; ops.push(Op::Add(Ev { id, ts: cur, key: Key::Missing })); id += 1; }
            Sym::AddKey(dt, k) => {
                cur += dt;
                let key = match k { 0 => Key::Missing, 1 => Key::Str("a".into()), _ => Key::Str("b".into()) };
                ops.push(Op::Add(Ev { id, ts: cur, key })); id += 1;
            }
            Sym::Late(back) => { ops.push(Op::Add(Ev { id, ts: (cur - back).max(0), key: Key::Missing })); id += 1; }
            Sym::Wm(dt) => { cur += dt; ops.push(Op::Wm(cur)); }
            Sym::Flush => ops.push(Op::Flush),
        }
    }
    ops
}

fn c12(ctx: &mut Ctx) {
    // corpus: the recorded observation — watermark close, then an event beyond the next boundary => Some([])
    let ops = vec![
        Op::Add(Ev { id: 0, ts: 0, key: Key::Missing }), Op::Wm(3), Op::Add(Ev { id: 1, ts: 10, key: Key::Missing }), Op::Flush,
    ];
    run_api(ctx, Kind::Tumbling(3), false, &ops);
    run_engine(ctx, Kind::Tumbling(3), false, &ops);
    // boundary ties: exactly start + d, gap exactly g
    for d in 1..=5i64 {
        let ops: Vec<Op> = vec![
            Op::Add(Ev { id: 0, ts: 1, key: Key::Missing }), Op::Add(Ev { id: 1, ts: d, key: Key::Missing }),
            Op::Add(Ev { id: 2, ts: 1 + d, key: Key::Missing }), Op::Add(Ev { id: 3, ts: 1 + d, key: Key::Missing }),
            Op::Wm(1 + 2 * d), Op::Add(Ev { id: 4, ts: 1 + 2 * d, key: Key::Missing }), Op::Wm(2 + 3 * d), Op::Flush,
        ];
        run_api(ctx, Kind::Tumbling(d), false, &ops);
        run_api(ctx, Kind::Session(d), false, &ops);
        run_engine(ctx, Kind::Tumbling(d), false, &ops);
        run_engine(ctx, Kind::Session(d), false, &ops);
    }
    // exhaustive small scope
    let (maxd, len) = if ctx.thorough { (3i64, 5usize) } else { (3i64, 3usize) };
    for d in 1..=maxd {
        let alphabet = [Sym::Add(0), Sym::Add(1), Sym::Add(d), Sym::Add(d + 1), Sym::Late(1), Sym::Late(d), Sym::Wm(0), Sym::Wm(d), Sym::Wm(d + 1), Sym::Flush];
        for l in 1..=len {
            let mut seqs: Vec<Vec<Op>> = Vec::new();
            enumerate(l, &alphabet, &mut |s| { let mut o = realise(s); o.push(Op::Flush); seqs.push(o); });
            for ops in &seqs {
                run_api(ctx, Kind::Tumbling(d), false, ops);
                run_api(ctx, Kind::Session(d), false, ops);
            }
            ctx.count_n("exhaustive sequences", 2 * seqs.len() as u64);
        }
    }
    // count windows: sizes 1..5, streams up to 3n+1 with flushes in between
    for n in 1..=5usize {
        let mut ops = Vec::new();
        for id in 0..(3 * n as u32 + 2) {
            ops.push(Op::Add(Ev { id, ts: id as i64, key: Key::Missing }));
            if id as usize == n + 1 { ops.push(Op::Flush); }
            ops.push(Op::Len);
        }
        ops.push(Op::Flush);
        run_api(ctx, Kind::Count(n), false, &ops);
        run_engine(ctx, Kind::Count(n), false, &ops);
    }
    // random scenarios
    let (napi, neng) = if ctx.thorough { (20000, 6000) } else { (1500, 400) };
    for i in 0..napi {
        let mut rng = Rng(ctx.rng.next());
        let p = rng.range(1, 5);
        let kind = match i % 3 { 0 => Kind::Tumbling(p), 1 => Kind::Session(p), _ => Kind::Count(p as usize) };
        let part = rng.chance(1, 3) && !matches!(kind, Kind::Count(_));
        let inorder = rng.chance(1, 2);
        let len = rng.range(4, if ctx.thorough { 40 } else { 24 }) as usize;
        let ops = gen_ops(&mut rng, kind, part, inorder, len, false);
        ctx.count(if inorder { "timeline in-order" } else { "timeline out-of-order" });
        run_api(ctx, kind, part, &ops);
    }
    for i in 0..neng {
        let mut rng = Rng(ctx.rng.next());
        let p = rng.range(1, 5);
        let kind = match i % 3 { 0 => Kind::Tumbling(p), 1 => Kind::Session(p), _ => Kind::Count(p as usize) };
        let part = rng.chance(1, 2);
        let inorder = rng.chance(1, 2);
        let len = rng.range(4, 30) as usize;
        let ops = gen_ops(&mut rng, kind, part, inorder, len, true);
        ctx.count(if inorder { "timeline in-order" } else { "timeline out-of-order" });
        run_engine(ctx, kind, part, &ops);
    }
}

fn c13(ctx: &mut Ctx) {
    // corpus: the repaired defect — size 2 sliding by 3 must first emit when first full
    let ops: Vec<Op> = (0..9u32).map(|id| Op::Add(Ev { id, ts: id as i64, key: Key::Missing })).collect();
    run_api(ctx, Kind::SCount(2, 3), false, &ops);
    run_engine(ctx, Kind::SCount(2, 3), false, &ops);
    // count-sliding: all (size, slide) in 1..5^2, 22 events, both APIs, plain and partitioned (engine)
    for size in 1..=5usize {
        for slide in 1..=5usize {
            let ops: Vec<Op> = (0..22u32).flat_map(|id| vec![Op::Add(Ev { id, ts: id as i64, key: Key::Missing }), Op::Len]).collect();
            run_api(ctx, Kind::SCount(size, slide), false, &ops);
            run_engine(ctx, Kind::SCount(size, slide), false, &ops);
            let mut rng = Rng(ctx.rng.next());
            let pops = gen_ops(&mut rng, Kind::SCount(size, slide), true, true, 36, true);
            run_engine(ctx, Kind::SCount(size, slide), true, &pops);
        }
    }
    // time-sliding: exhaustive in-order streams with ties for all (size, slide) in 1..5^2
    let len = if ctx.thorough { 6 } else { 4 };
    let alphabet = [Sym::Add(0), Sym::Add(1), Sym::Add(2), Sym::Add(4)];
    let mut seqs: Vec<Vec<Op>> = Vec::new();
    for l in [len, len - 1] {
        enumerate(l, &alphabet, &mut |s| { seqs.push(realise(s)); });
    }
    for size in 1..=5i64 {
        for slide in 1..=5i64 {
            for ops in &seqs { run_api(ctx, Kind::Sliding(size, slide), false, ops); }
            ctx.count_n("exhaustive sequences", seqs.len() as u64);
        }
    }
    // in-order streams with watermarks and partitions, up to 10+ events, both APIs
    let (napi, neng) = if ctx.thorough { (20000, 6000) } else { (1000, 300) };
    for _ in 0..napi {
        let mut rng = Rng(ctx.rng.next());
        let kind = Kind::Sliding(rng.range(1, 5), rng.range(1, 5));
        let part = rng.chance(1, 3);
        let inorder = rng.chance(4, 5);
        let len = rng.range(4, if ctx.thorough { 40 } else { 20 }) as usize;
        let mut ops = gen_ops(&mut rng, kind, part, inorder, len, false);
        ops.retain(|o| !matches!(o, Op::Flush | Op::Len | Op::Expire(_)));
        ctx.count(if inorder { "timeline in-order" } else { "timeline out-of-order" });
        run_api(ctx, kind, part, &ops);
    }
    for i in 0..neng {
        let mut rng = Rng(ctx.rng.next());
        let kind = if i % 4 == 3 { Kind::SCount(rng.range(1, 5) as usize, rng.range(1, 5) as usize) } else { Kind::Sliding(rng.range(1, 5), rng.range(1, 5)) };
        let part = rng.chance(1, 2);
        let inorder = rng.chance(4, 5);
        let len = rng.range(4, 30) as usize;
        let ops = gen_ops(&mut rng, kind, part, inorder, len, true);
        ctx.count(if inorder { "timeline in-order" } else { "timeline out-of-order" });
        run_engine(ctx, kind, part, &ops);
    }
}

pub fn run(ctx: &mut Ctx, name: &str) {
    match name {
        "C12" => c12(ctx),
        _ => c13(ctx),
    }
}
