//! C04: partitioned windows, aggregates and sequence patterns act as independent per-key runs.
//! The real code is run once on the whole stream and once per key on that key's sub-sequence
//! (plain window / program without `.partition_by`), and both are compared with the Lean model
//! (lean/Varpulis/Driver/Partition.lean). `to_partition_key` is tied separately.
use crate::p_window::{
    at, engine_op_text, fmt_ids, gen_ops, mk_event, program, real_key, ApiWin, EngineRun, Ev, Key, Kind, Op,
    INT_KEYS, STR_KEYS,
};
use crate::util::{catch, Ctx, Rng};
use tokio::sync::mpsc;
use varpulis_core::Value;
use varpulis_runtime::engine::Engine;
use varpulis_runtime::event::Event;

pub const NAMES: &[&str] = &["C04"];

fn keys_of(ops: &[Op]) -> Vec<Key> {
    let mut ks: Vec<Key> = Vec::new();
    for op in ops { if let Op::Add(e) = op { if !ks.contains(&e.key) { ks.push(e.key.clone()); } } }
    ks
}

fn sub_sequence(ops: &[Op], key: &Key, broadcasts: bool) -> Vec<Op> {
    ops.iter().filter(|op| match op {
        Op::Add(e) => &e.key == key,
        Op::Wm(_) | Op::Flush | Op::Expire(_) => broadcasts,
        _ => false,
    }).cloned().collect()
}

/// whole run on the partitioned window API + per-key runs on the plain window
fn api_scenario(ctx: &mut Ctx, kind: Kind, ops: &[Op]) {
    let Some(mut w) = ApiWin::new(kind, true) else { return };
    ctx.directive(&format!("new api {} part", kind.text()));
    ctx.count(&format!("scenario api {}", kind.text().split(' ').next().unwrap()));
    for op in ops {
        match catch(std::panic::AssertUnwindSafe(|| w.apply(op))) {
            Ok(Some(res)) => { if res != "-" { ctx.count("whole-run emission"); } ctx.case(&op.text(), &res) }
            Ok(None) => {}
            Err(_) => { ctx.case(&op.text(), "panic"); return; }
        }
    }
    let keys = keys_of(ops);
    ctx.count(&format!("keys {}", keys.len()));
    if keys.contains(&Key::Missing) { ctx.count("scenario with missing key"); }
    for key in keys {
        let sub = sub_sequence(ops, &key, true);
        let mut pw = ApiWin::new(kind, false).unwrap();
        let mut wins: Vec<String> = Vec::new();
        for op in &sub {
            if let Ok(Some(res)) = catch(std::panic::AssertUnwindSafe(|| pw.apply(op))) { if res != "-" { wins.push(res); } }
        }
        ctx.count("per-key replay");
        ctx.case(&format!("perkey {}", key.text()), &if wins.is_empty() { "-".to_string() } else { wins.join(";") });
    }
}

fn pow2sum(ids: &str) -> (usize, u64) {
    let body = ids.trim_start_matches('[').trim_end_matches(']');
    if body.is_empty() { return (0, 0); }
    let v: Vec<u32> = body.split(',').filter_map(|x| x.parse().ok()).collect();
    (v.len(), v.iter().map(|i| 1u64 << i).sum())
}

/// whole run on the partitioned program + per-key runs on the program without `.partition_by`
fn engine_scenario(ctx: &mut Ctx, kind: Kind, ops: &[Op]) {
    let ops: Vec<Op> = ops.iter().filter(|o| matches!(o, Op::Add(_))).cloned().collect();
    let src = program(kind, true);
    let mut er = EngineRun::new(&src, true);
    ctx.directive(&format!("new engine {} part", kind.text()));
    ctx.directive(&format!("vpl {}", src.replace('\n', " ")));
    ctx.count(&format!("scenario engine {}", kind.text().split(' ').next().unwrap()));
    for op in &ops {
        match catch(std::panic::AssertUnwindSafe(|| er.apply(op))) {
            Ok(Some(res)) => { if res != "- | -" { ctx.count("whole-run emission"); } ctx.case(&engine_op_text(op), &res) }
            Ok(None) => {}
            Err(_) => { ctx.case(&engine_op_text(op), "panic"); return; }
        }
    }
    let keys = keys_of(&ops);
    ctx.count(&format!("keys {}", keys.len()));
    if keys.contains(&Key::Missing) { ctx.count("scenario with missing key"); }
    let plain = program(kind, false);
    for key in keys {
        let sub = sub_sequence(&ops, &key, false);
        let mut pe = EngineRun::new(&plain, false);
        let mut wins: Vec<String> = Vec::new();
        for op in &sub {
            if let Ok(Some(res)) = catch(std::panic::AssertUnwindSafe(|| pe.apply(op))) {
                if res != "- | -" {
                    let mut it = res.split(" | ");
                    let a = it.next().unwrap_or("").to_string();
                    let b = it.next().unwrap_or("");
                    let (n, s) = pow2sum(&a);
                    // the aggregate stream of the per-key run must describe the same window
                    if b != format!("n={n},s={s}") { wins.push(format!("{a}!B={b}")); } else { wins.push(a); }
                }
            }
        }
        ctx.count("per-key replay");
        ctx.case(&format!("perkey {}", key.text()), &if wins.is_empty() { "-".to_string() } else { wins.join(";") });
    }
}

/// a count window followed by `.partition_by(k).aggregate(..)`: mixed-key batches through PartitionedAggregatorState
fn agg_scenario(ctx: &mut Ctx, n: usize, ops: &[Op]) {
    let src = format!("stream P = T\n    .window({n})\n    .partition_by(k)\n    .aggregate(n: count(), s: sum(v))\n    .emit(k: _partition, n: n, s: s)\n");
    let mut er = EngineRun::new(&src, true);
    ctx.directive(&format!("new agg {n}"));
    ctx.directive(&format!("vpl {}", src.replace('\n', " ")));
    ctx.count("scenario aggregate");
    for op in ops {
        let Op::Add(e) = op else { continue };
        let ev = mk_event(e);
        if er.rt.block_on(er.engine.process(ev)).is_err() { ctx.case(&op.text(), "error"); return; }
        let mut res: Vec<String> = Vec::new();
        while let Ok(out) = er.rx.try_recv() {
            let n = out.get_int("n").unwrap_or(-1);
            let s = match out.get("s") { Some(Value::Float(f)) if f.fract() == 0.0 && *f >= 0.0 => format!("{}", *f as u64), Some(v) => format!("{v}"), None => "?".into() };
            let k = match out.get("k") { Some(Value::Str(s)) => s.to_string(), Some(v) => format!("{v}"), None => "?".into() };
            res.push(format!("k={k},n={n},s={s}"));
        }
        res.sort();
        if res.len() > 1 { ctx.count("aggregate batch with several keys"); }
        ctx.case(&op.text(), &if res.is_empty() { "-".to_string() } else { res.join(";") });
    }
}

fn keyset(ctx: &mut Ctx, keys: &[Key]) {
    let toks: Vec<String> = keys.iter().map(|k| k.text()).collect();
    let got: Vec<String> = keys.iter().map(|k| {
        let mut ev = Event::new_at("T", at(0));
        if let Some(v) = k.value() { ev = ev.with_field("k", v); }
        real_key(&ev)
    }).collect();
    ctx.count("keyset");
    ctx.case(&format!("keyset {}", toks.join(" ")), &got.join(" "));
}

// ---------------------------------------------------------------------------------------------
// partitioned sequence patterns: the real engine against itself (no Lean model of SASE here)

#[derive(Clone, Debug)]
struct SEv { ty: &'static str, id: i64, key: Key }

fn run_pattern(src: &str, evs: &[SEv]) -> Vec<String> {
    let prog = crate::p_window::parse_cached(src);
    let (tx, mut rx) = mpsc::channel::<Event>(65536);
    let mut engine = Engine::new(tx);
    if let Err(e) = engine.load(&prog) { eprintln!("generator error: program does not load: {e}\n{src}"); std::process::exit(3); }
    let rt = crate::p_window::rt();
    let mut out = Vec::new();
    for (i, e) in evs.iter().enumerate() {
        let mut ev = Event::new_at(e.ty, at(i as i64)).with_field("id", e.id);
        if let Some(v) = e.key.value() { ev = ev.with_field("k", v); }
        let _ = rt.block_on(engine.process(ev));
        while let Ok(m) = rx.try_recv() {
            let f = |n: &str| m.get(n).map(|v| format!("{v}")).unwrap_or_else(|| "_".into());
            out.push(format!("{}-{}-{}", f("x"), f("y"), f("z")));
        }
    }
    out
}

fn sase_scenario(ctx: &mut Ctx, rng: &mut Rng) {
    let shapes: [(&str, &str, &[&'static str]); 4] = [
        ("A as a -> B as b", ".emit(x: a.id, y: b.id)", &["A", "B"]),
        ("A as a -> B as b -> C as c", ".emit(x: a.id, y: b.id, z: c.id)", &["A", "B", "C"]),
        ("A as a -> A as b", ".emit(x: a.id, y: b.id)", &["A", "B"]),
        ("A as a -> all B as b", ".emit(x: a.id, y: b.id)", &["A", "B"]),
    ];
    let (pat, emit, types) = shapes[rng.below(shapes.len() as u64) as usize];
    let p_src = format!("stream S = {pat}\n    .partition_by(k)\n    {emit}\n");
    let u_src = format!("stream S = {pat}\n    {emit}\n");
    let nkeys = rng.range(1, 6) as usize;
    let ints = rng.chance(1, 2);
    let mut keys: Vec<Key> = Vec::new();
    while keys.len() < nkeys {
        let k = if ints { Key::Int(*rng.pick(INT_KEYS)) } else { Key::Str(rng.pick(STR_KEYS).to_string()) };
        if !keys.contains(&k) { keys.push(k); }
    }
    if rng.chance(1, 2) { keys.push(Key::Missing); }
    let n = rng.range(2, 18) as usize;
    let evs: Vec<SEv> = (0..n).map(|i| SEv { ty: *rng.pick(types), id: i as i64, key: rng.pick(&keys).clone() }).collect();
    ctx.directive(&format!("new sase {pat}"));
    ctx.directive(&format!("vpl {}", p_src.replace('\n', " ")));
    for e in &evs { ctx.directive(&format!("sev {} {} {}", e.ty, e.id, e.key.text())); }
    let mut whole = run_pattern(&p_src, &evs);
    let mut per_p: Vec<String> = Vec::new();
    let mut per_u: Vec<String> = Vec::new();
    for k in &keys {
        let sub: Vec<SEv> = evs.iter().filter(|e| &e.key == k).cloned().collect();
        per_p.extend(run_pattern(&p_src, &sub));
        per_u.extend(run_pattern(&u_src, &sub));
    }
    whole.sort(); per_p.sort(); per_u.sort();
    ctx.count("scenario pattern");
    ctx.count_n("pattern matches (whole stream)", whole.len() as u64);
    ctx.case("sase", &format!("W:{} | P:{} | U:{}", whole.join(","), per_p.join(","), per_u.join(",")));
}

pub fn run(ctx: &mut Ctx, _name: &str) {
    // keys: whole pools, one type per line
    keyset(ctx, &STR_KEYS.iter().map(|s| Key::Str(s.to_string())).chain([Key::Missing]).collect::<Vec<_>>());
    keyset(ctx, &INT_KEYS.iter().map(|i| Key::Int(*i)).chain([Key::Missing]).collect::<Vec<_>>());
    keyset(ctx, &["-1", "01", "1", "+1", "1.0", "true", "null", "défaut", "DEFAULT", " ", "9223372036854775808"].iter()
        .filter(|s| !s.contains(' ')).map(|s| Key::Str(s.to_string())).collect::<Vec<_>>());
    let nks = if ctx.thorough { 400 } else { 40 };
    for _ in 0..nks {
        let mut rng = Rng(ctx.rng.next());
        let ks: Vec<Key> = (0..rng.range(2, 8)).map(|_| Key::Int(match rng.below(4) { 0 => rng.range(-20, 20), 1 => rng.next() as i64, 2 => -(rng.below(1 << 40) as i64), _ => (rng.below(1 << 20) as i64) * 10 })).collect();
        keyset(ctx, &ks);
    }
    let (napi, neng, nagg, nsase) = if ctx.thorough { (10000, 4000, 2000, 8000) } else { (800, 300, 100, 600) };
    for i in 0..napi {
        let mut rng = Rng(ctx.rng.next());
        let p = rng.range(1, 5);
        let kind = match i % 3 { 0 => Kind::Tumbling(p), 1 => Kind::Session(p), _ => Kind::Sliding(p, rng.range(1, 5)) };
        let len = rng.range(4, if ctx.thorough { 40 } else { 26 }) as usize;
        let inorder = rng.chance(1, 2);
        let mut ops = gen_ops(&mut rng, kind, true, inorder, len, false);
        if matches!(kind, Kind::Sliding(_, _)) { ops.retain(|o| !matches!(o, Op::Flush | Op::Expire(_))); }
        api_scenario(ctx, kind, &ops);
    }
    for i in 0..neng {
        let mut rng = Rng(ctx.rng.next());
        let p = rng.range(1, 5);
        let q = rng.range(1, 5);
        let kind = match i % 5 { 0 => Kind::Tumbling(p), 1 => Kind::Session(p), 2 => Kind::Sliding(p, q), 3 => Kind::Count(p as usize), _ => Kind::SCount(p as usize, q as usize) };
        let len = rng.range(4, 36) as usize;
        let inorder = rng.chance(1, 2);
        let ops = gen_ops(&mut rng, kind, true, inorder, len, true);
        engine_scenario(ctx, kind, &ops);
    }
    for _ in 0..nagg {
        let mut rng = Rng(ctx.rng.next());
        let n = rng.range(1, 6) as usize;
        let ops = gen_ops(&mut rng, Kind::Count(n), true, true, 30, true);
        agg_scenario(ctx, n, &ops);
    }
    for _ in 0..nsase {
        let mut rng = Rng(ctx.rng.next());
        sase_scenario(ctx, &mut rng);
    }
    let _ = fmt_ids(&[]);
    let _ = Ev { id: 0, ts: 0, key: Key::Missing };
}
