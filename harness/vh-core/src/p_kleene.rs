//! C03: Kleene closures (`A -> all B -> C`, `A -> all B`) — capture, enumeration over the ZDD, caps.
//! Every scenario is rendered twice: as a `SasePattern` driven through `SaseEngine::process`
//! (caps set with `with_max_kleene_events` / `with_max_enumeration_results`) and as VPL text through
//! `varpulis_parser::parse` + `Engine::load` (default caps). The index set behind each enumerated
//! match is read through the `verif_kleene` hook.
use crate::util::{catch, Ctx, Rng};
use std::panic::AssertUnwindSafe;
use varpulis_core::Value;
use varpulis_runtime::engine::Engine;
use varpulis_runtime::event::Event;
use varpulis_runtime::sase::{verif_kleene, CompareOp, MatchResult, Predicate, SaseEngine, SasePattern};

pub const NAMES: &[&str] = &["C03"];

pub const DEFAULT_MAX_KLEENE: u32 = 20;
pub const DEFAULT_MAX_RESULTS: usize = 10_000;

#[derive(Clone, Copy, PartialEq)]
pub enum Op { Eq, Ne, Lt, Le, Gt, Ge }
pub const OPS: [Op; 6] = [Op::Eq, Op::Ne, Op::Lt, Op::Le, Op::Gt, Op::Ge];
impl Op {
    pub fn name(self) -> &'static str { match self { Op::Eq => "eq", Op::Ne => "ne", Op::Lt => "lt", Op::Le => "le", Op::Gt => "gt", Op::Ge => "ge" } }
    pub fn vpl(self) -> &'static str { match self { Op::Eq => "==", Op::Ne => "!=", Op::Lt => "<", Op::Le => "<=", Op::Gt => ">", Op::Ge => ">=" } }
    pub fn sase(self) -> CompareOp { match self { Op::Eq => CompareOp::Eq, Op::Ne => CompareOp::NotEq, Op::Lt => CompareOp::Lt, Op::Le => CompareOp::Le, Op::Gt => CompareOp::Gt, Op::Ge => CompareOp::Ge } }
}

/// numeric attribute in eighths; rendered as Int when it is whole and `as_float` is false
#[derive(Clone, Copy)]
pub struct Num { pub e: i64, pub as_float: bool }
impl Num {
    pub fn value(self) -> Value { if self.e % 8 == 0 && !self.as_float { Value::Int(self.e / 8) } else { Value::Float(self.e as f64 / 8.0) } }
    pub fn vpl(self) -> String { if self.e % 8 == 0 && !self.as_float { format!("{}", self.e / 8) } else { format!("{:?}", self.e as f64 / 8.0) } }
}

#[derive(Clone)]
pub enum P {
    Cmp(usize, Op, Num),
    Ref(usize, Op, usize, usize),
    And(Box<P>, Box<P>),
    Or(Box<P>, Box<P>),
    Not(Box<P>),
}
pub const FIELDS: [&str; 2] = ["x", "y"];
pub const ALIASES: [&str; 4] = ["a", "b", "c", "d"];

impl P {
    pub fn text(&self) -> String {
        match self {
            P::Cmp(f, op, n) => format!("c.{}.{}.{}", FIELDS[*f], op.name(), n.e),
            P::Ref(f, op, al, rf) => format!("r.{}.{}.{}.{}", FIELDS[*f], op.name(), ALIASES[*al], FIELDS[*rf]),
            P::And(p, q) => format!("and,{},{}", p.text(), q.text()),
            P::Or(p, q) => format!("or,{},{}", p.text(), q.text()),
            P::Not(p) => format!("not,{}", p.text()),
        }
    }
    pub fn sase(&self) -> Predicate {
        match self {
            P::Cmp(f, op, n) => Predicate::Compare { field: FIELDS[*f].into(), op: op.sase(), value: n.value() },
            P::Ref(f, op, al, rf) => Predicate::CompareRef { field: FIELDS[*f].into(), op: op.sase(), ref_alias: ALIASES[*al].into(), ref_field: FIELDS[*rf].into() },
            P::And(p, q) => Predicate::And(Box::new(p.sase()), Box::new(q.sase())),
            P::Or(p, q) => Predicate::Or(Box::new(p.sase()), Box::new(q.sase())),
            P::Not(p) => Predicate::Not(Box::new(p.sase())),
        }
    }
    pub fn vpl(&self) -> String {
        match self {
            P::Cmp(f, op, n) => format!("{} {} {}", FIELDS[*f], op.vpl(), n.vpl()),
            P::Ref(f, op, al, rf) => format!("{} {} {}.{}", FIELDS[*f], op.vpl(), ALIASES[*al], FIELDS[*rf]),
            P::And(p, q) => format!("({}) and ({})", p.vpl(), q.vpl()),
            P::Or(p, q) => format!("({}) or ({})", p.vpl(), q.vpl()),
            P::Not(p) => format!("not ({})", p.vpl()),
        }
    }
    pub fn has_not(&self) -> bool {
        match self {
            P::Not(_) => true,
            P::And(p, q) | P::Or(p, q) => p.has_not() || q.has_not(),
            _ => false,
        }
    }
    pub fn self_ref(&self, al: usize) -> bool {
        match self {
            P::Cmp(..) => false,
            P::Ref(_, _, a, _) => *a == al,
            P::And(p, q) | P::Or(p, q) => p.self_ref(al) || q.self_ref(al),
            P::Not(p) => p.self_ref(al),
        }
    }
}

pub fn opt_text(p: &Option<P>) -> String { p.as_ref().map(|p| p.text()).unwrap_or_else(|| "-".into()) }

pub fn num(rng: &mut Rng) -> Num {
    // small pool with many ties: 0..5 in eighths, mostly whole or halves
    let e = match rng.below(10) { 0..=5 => 8 * rng.range(0, 5), 6..=8 => 4 * rng.range(0, 10), _ => rng.range(0, 40) };
    Num { e, as_float: rng.chance(1, 4) }
}

fn leaf(rng: &mut Rng, refs: &[usize]) -> P {
    let f = rng.below(2) as usize;
    let op = *rng.pick(&OPS);
    if !refs.is_empty() && rng.chance(1, 2) {
        P::Ref(f, op, *rng.pick(refs), rng.below(2) as usize)
    } else {
        P::Cmp(f, op, num(rng))
    }
}

/// predicate over constants and the aliases in `refs`
pub fn gen_pred(rng: &mut Rng, refs: &[usize], depth: u32) -> P {
    if depth == 0 || rng.chance(1, 2) { return leaf(rng, refs); }
    match rng.below(3) {
        0 => P::And(Box::new(gen_pred(rng, refs, depth - 1)), Box::new(gen_pred(rng, refs, depth - 1))),
        1 => P::Or(Box::new(gen_pred(rng, refs, depth - 1)), Box::new(gen_pred(rng, refs, depth - 1))),
        _ => P::Not(Box::new(gen_pred(rng, refs, depth - 1))),
    }
}

/// self-referencing Kleene filter: mentions alias b at least once
pub fn gen_selfref_for(rng: &mut Rng, al: usize) -> P {
    let core = P::Ref(if rng.chance(3, 4) { 0 } else { 1 }, *rng.pick(&OPS), al, if rng.chance(3, 4) { 0 } else { 1 });
    match rng.below(10) {
        0..=5 => core,
        6 => P::And(Box::new(core), Box::new(gen_pred(rng, &[0], 1))),
        7 => P::And(Box::new(gen_pred(rng, &[0], 1)), Box::new(core)),
        8 => P::Or(Box::new(core), Box::new(gen_pred(rng, &[], 0))),
        _ => P::Not(Box::new(core)),
    }
}
fn gen_selfref(rng: &mut Rng) -> P { gen_selfref_for(rng, 1) }

#[derive(Clone)]
pub struct Ev { pub ty: usize, pub x: Option<Num>, pub y: Option<Num>, pub key: Option<u32> }
pub const TYPES: [&str; 4] = ["A", "B", "C", "D"];

impl Ev {
    pub fn text(&self) -> String {
        let f = |n: &Option<Num>| n.map(|n| n.e.to_string()).unwrap_or_else(|| "_".into());
        format!("ev {} {} {} {}", TYPES[self.ty], f(&self.x), f(&self.y), self.key.map(|k| k.to_string()).unwrap_or_else(|| "_".into()))
    }
    pub fn event(&self, id: usize) -> Event {
        let mut e = Event::new(TYPES[self.ty]).with_field("id", Value::Int(id as i64));
        if let Some(n) = self.x { e = e.with_field("x", n.value()); }
        if let Some(n) = self.y { e = e.with_field("y", n.value()); }
        if let Some(k) = self.key { e = e.with_field("k", Value::Int(k as i64)); }
        e
    }
}

pub fn gen_ev(rng: &mut Rng, ty: usize) -> Ev {
    let x = if rng.chance(1, 25) { None } else { Some(num(rng)) };
    let y = if rng.chance(1, 12) { None } else { Some(num(rng)) };
    Ev { ty, x, y, key: None }
}

pub struct Scenario { pub trail: bool, pub mk: u32, pub mr: usize, pub pa: Option<P>, pub pb: Option<P>, pub pc: Option<P>, pub evs: Vec<Ev> }

impl Scenario {
    fn header(&self, api: &str) -> String {
        let mut h = format!("new {} 10000 drop {} {} 0 A/e/a/{} B/k/b/{}", api, self.mk, self.mr, opt_text(&self.pa), opt_text(&self.pb));
        if !self.trail { h.push_str(&format!(" C/e/c/{}", opt_text(&self.pc))); }
        h
    }
    fn pattern(&self) -> SasePattern {
        let step = |t: usize, p: &Option<P>, al: usize| SasePattern::Event {
            event_type: TYPES[t].to_string(), predicate: p.as_ref().map(|p| p.sase()), alias: Some(ALIASES[al].to_string()) };
        let mut steps = vec![step(0, &self.pa, 0), SasePattern::KleenePlus(Box::new(step(1, &self.pb, 1)))];
        if !self.trail { steps.push(step(2, &self.pc, 2)); }
        SasePattern::Seq(steps)
    }
    fn vpl(&self) -> String {
        let w = |p: &Option<P>| p.as_ref().map(|p| format!(" where {}", p.vpl())).unwrap_or_default();
        // the first step of a stream takes its filter through a derived stream in VPL; the generator keeps `pa` for the direct API only
        let mut s = format!("stream S = A as a -> all B{} as b", w(&self.pb));
        if !self.trail { s.push_str(&format!(" -> C{} as c", w(&self.pc))); }
        if self.trail { s.push_str(" .emit(aid: a.id, bid: b.id)"); } else { s.push_str(" .emit(aid: a.id, bid: b.id, cid: c.id)"); }
        s
    }
}

fn id_of(e: &Event) -> String { e.get("id").and_then(|v| v.as_int()).map(|i| i.to_string()).unwrap_or_else(|| "?".into()) }

fn fmt_match(m: &MatchResult) -> String {
    let stack = m.stack.iter().map(|s| id_of(&s.event)).collect::<Vec<_>>().join(",");
    let mut cap: Vec<(String, String)> = m.captured.iter().map(|(k, v)| (k.clone(), id_of(v))).collect();
    cap.sort();
    format!("s:{}|{}", stack, cap.iter().map(|(k, v)| format!("{}:{}", k, v)).collect::<Vec<_>>().join(","))
}

pub fn fmt_sets(rec: &[(u64, usize, Vec<u32>)]) -> String {
    if rec.is_empty() { return "-".into(); }
    let base = rec[0].0;
    rec.iter().map(|(c, k, s)| format!("{}/{}:{{{}}}", c - base, k, s.iter().map(|x| x.to_string()).collect::<Vec<_>>().join(","))).collect::<Vec<_>>().join(";")
}

fn run_sase(ctx: &mut Ctx, sc: &Scenario) {
    ctx.directive(&sc.header("sase"));
    let mut eng = SaseEngine::new(sc.pattern()).with_max_kleene_events(sc.mk).with_max_enumeration_results(sc.mr);
    let _ = verif_kleene::take();
    for (i, ev) in sc.evs.iter().enumerate() {
        let e = ev.event(i);
        let r = catch(AssertUnwindSafe(|| eng.process(&e)));
        let rec = verif_kleene::take();
        let res = match r {
            Ok(ms) => {
                ctx.count_n("sase:matches", ms.len() as u64);
                if !rec.is_empty() { ctx.count("sase:enumerations"); }
                let m = if ms.is_empty() { "-".to_string() } else { ms.iter().map(fmt_match).collect::<Vec<_>>().join(";") };
                format!("m={} z={}", m, fmt_sets(&rec))
            }
            Err(_) => { ctx.count("sase:panic"); "panic".to_string() }
        };
        ctx.case(&ev.text(), &res);
    }
}

fn run_vpl(ctx: &mut Ctx, sc: &Scenario, rt: &tokio::runtime::Runtime) {
    let src = sc.vpl();
    let program = match varpulis_parser::parse(&src) {
        Ok(p) => p,
        Err(e) => { eprintln!("generator error: VPL rejected by the parser: {}\n{:?}", src, e); std::process::exit(3); }
    };
    let (tx, mut rx) = tokio::sync::mpsc::channel::<Event>(100_000);
    let mut engine = Engine::new(tx);
    if let Err(e) = engine.load(&program) { eprintln!("generator error: VPL rejected by Engine::load: {}\n{}", src, e); std::process::exit(3); }
    let mut hdr = sc.header("vpl");
    hdr.push_str(&format!("   # {}", src));
    ctx.directive(&hdr);
    let _ = verif_kleene::take();
    for (i, ev) in sc.evs.iter().enumerate() {
        let e = ev.event(i);
        let r = catch(AssertUnwindSafe(|| rt.block_on(engine.process(e))));
        let rec = verif_kleene::take();
        let mut outs = Vec::new();
        while let Ok(o) = rx.try_recv() { outs.push(o); }
        let res = match r {
            Ok(Ok(())) => {
                ctx.count_n("vpl:matches", outs.len() as u64);
                if !rec.is_empty() { ctx.count("vpl:enumerations"); }
                let one = |o: &Event| {
                    let mut parts = Vec::new();
                    for (al, k) in [("a", "aid"), ("b", "bid"), ("c", "cid")] {
                        if let Some(v) = o.get(k) { parts.push(format!("{}:{}", al, v.as_int().map(|i| i.to_string()).unwrap_or_else(|| format!("{:?}", v)))); }
                    }
                    format!("|{}", parts.join(","))
                };
                let m = if outs.is_empty() { "-".to_string() } else { outs.iter().map(one).collect::<Vec<_>>().join(";") };
                format!("m={} z={}", m, fmt_sets(&rec))
            }
            Ok(Err(e)) => format!("error {}", e.replace('\n', " ")),
            Err(_) => { ctx.count("vpl:panic"); "panic".to_string() }
        };
        ctx.case(&ev.text(), &res);
    }
}

/// `A B^n C` (the property's streams), optionally with noise: B events failing a consistent filter are part
/// of B^n anyway; `extra` appends events after the completion (second round, non-extending events after a trailing `all`).
fn gen_scenario(rng: &mut Rng, thorough: bool, hist: &mut Vec<String>) -> Scenario {
    let trail = rng.chance(1, 4);
    let selfref = if trail { false } else { rng.chance(3, 5) };
    let nmax = if thorough { 14 } else { 11 };
    let n = match rng.below(10) { 0 => rng.below(3), 1..=6 => 1 + rng.below(7), _ => 1 + rng.below(nmax) } as usize;
    let pb = if selfref { Some(gen_selfref(rng)) } else if rng.chance(1, 4) { None } else { Some(gen_pred(rng, &[0], 2)) };
    let pa = if rng.chance(1, 5) { Some(gen_pred(rng, &[], 0)) } else { None };
    let pc = if trail || rng.chance(1, 2) { None } else { Some(gen_pred(rng, &[0, 1], 1)) };
    // caps: 1 .. 2^n, biased to the interesting region (around n for events, around the number of admissible sets for results)
    let mk = match rng.below(6) { 0 => DEFAULT_MAX_KLEENE, 1 => 1, 2 => (n as u32).max(1), 3 => (n as u32 + 1), _ => 1 + rng.below(n as u64 + 2) as u32 };
    let full = 1u64 << n.min(14);
    let mr = match rng.below(6) { 0 => DEFAULT_MAX_RESULTS, 1 => 1, 2 => full as usize, 3 => 1 + rng.below(full) as usize, _ => 1 + rng.below(2 * n as u64 + 2) as usize };
    let mut evs = vec![gen_ev(rng, 0)];
    for _ in 0..n { evs.push(gen_ev(rng, 1)); }
    if !trail { evs.push(gen_ev(rng, 2)); }
    // tail: non-extending / further events
    let tail = match rng.below(4) { 0 => 0, 1 => 1, _ => rng.below(5) };
    for _ in 0..tail { let t = *rng.pick(&[0usize, 1, 1, 2, 3]); evs.push(gen_ev(rng, t)); }
    hist.push(format!("shape:{}", if trail { "trail" } else if selfref { "mid-selfref" } else { "mid-consistent" }));
    hist.push(format!("n:{}", n));
    Scenario { trail, mk, mr, pa, pb, pc, evs }
}

/// small scope, exhaustively: every stream A B^n C (n <= nmax) with B.x over {0,1,2}, every self-referencing
/// filter `x <op> b.x`, every Kleene cap 1..n+1 and every result cap 1..2^n
fn exhaustive(ctx: &mut Ctx, nmax: usize) {
    let nn = |v: i64| Some(Num { e: 8 * v, as_float: false });
    for n in 1..=nmax {
        let total = 3usize.pow(n as u32);
        for code in 0..total {
            let mut evs = vec![Ev { ty: 0, x: nn(0), y: nn(0), key: None }];
            let mut c = code;
            for _ in 0..n { evs.push(Ev { ty: 1, x: nn((c % 3) as i64), y: nn(0), key: None }); c /= 3; }
            evs.push(Ev { ty: 2, x: nn(0), y: nn(0), key: None });
            for op in OPS {
                for mk in 1..=(n as u32 + 1) {
                    for mr in 1..=(1usize << n) {
                        let sc = Scenario { trail: false, mk, mr, pa: None, pb: Some(P::Ref(0, op, 1, 0)), pc: None, evs: evs.clone() };
                        run_sase(ctx, &sc);
                        ctx.count("exhaustive:scenario");
                    }
                }
            }
        }
    }
}

pub fn run(ctx: &mut Ctx, _name: &str) {
    let rt = tokio::runtime::Builder::new_current_thread().enable_all().build().unwrap();
    // corpus: DESIGN.md probe B.x = 5,3,9 with x > b.x
    let probe = |trail: bool, tailty: Option<usize>| {
        let nn = |v: i64| Some(Num { e: 8 * v, as_float: false });
        let mut evs = vec![Ev { ty: 0, x: nn(1), y: nn(0), key: None }];
        for v in [5, 3, 9] { evs.push(Ev { ty: 1, x: nn(v), y: nn(0), key: None }); }
        if !trail { evs.push(Ev { ty: 2, x: nn(0), y: nn(0), key: None }); }
        if let Some(t) = tailty { evs.push(Ev { ty: t, x: nn(7), y: nn(0), key: None }); }
        evs
    };
    let selfref = Some(P::Ref(0, Op::Gt, 1, 0));
    for sc in [
        Scenario { trail: false, mk: 20, mr: 10_000, pa: None, pb: selfref.clone(), pc: None, evs: probe(false, None) },
        Scenario { trail: false, mk: 2, mr: 2, pa: None, pb: selfref.clone(), pc: None, evs: probe(false, Some(1)) },
        Scenario { trail: true, mk: 20, mr: 10_000, pa: None, pb: None, pc: None, evs: probe(true, Some(0)) },
        Scenario { trail: true, mk: 2, mr: 10_000, pa: None, pb: Some(P::Cmp(0, Op::Gt, Num { e: 32, as_float: false })), pc: None, evs: probe(true, Some(3)) },
    ] {
        run_sase(ctx, &sc);
        if sc.pa.is_none() && sc.mk == DEFAULT_MAX_KLEENE && sc.mr == DEFAULT_MAX_RESULTS { run_vpl(ctx, &sc, &rt); }
    }
    // the documented default caps, through VPL and through the plain constructor: 23 B events against
    // MAX_KLEENE_EVENTS = 20 (consistent filter), 14 equal B events against MAX_ENUMERATION_RESULTS = 10 000
    {
        let nn = |v: i64| Some(Num { e: 8 * v, as_float: false });
        let mut evs = vec![Ev { ty: 0, x: nn(0), y: nn(0), key: None }];
        for i in 0..23 { evs.push(Ev { ty: 1, x: nn(i % 4), y: nn(0), key: None }); }
        evs.push(Ev { ty: 2, x: nn(0), y: nn(0), key: None });
        let sc = Scenario { trail: false, mk: DEFAULT_MAX_KLEENE, mr: DEFAULT_MAX_RESULTS, pa: None, pb: None, pc: None, evs };
        run_vpl(ctx, &sc, &rt);
        let mut evs = vec![Ev { ty: 0, x: nn(0), y: nn(0), key: None }];
        for _ in 0..14 { evs.push(Ev { ty: 1, x: nn(1), y: nn(0), key: None }); }
        evs.push(Ev { ty: 2, x: nn(0), y: nn(0), key: None });
        let sc = Scenario { trail: false, mk: DEFAULT_MAX_KLEENE, mr: DEFAULT_MAX_RESULTS, pa: None, pb: Some(P::Ref(0, Op::Ge, 1, 0)), pc: None, evs };
        run_vpl(ctx, &sc, &rt);
        ctx.directive(&sc.header("sase"));
        let mut eng = SaseEngine::new(sc.pattern());
        let _ = verif_kleene::take();
        for (i, ev) in sc.evs.iter().enumerate() {
            let ms = eng.process(&ev.event(i));
            let rec = verif_kleene::take();
            let m = if ms.is_empty() { "-".to_string() } else { ms.iter().map(fmt_match).collect::<Vec<_>>().join(";") };
            ctx.case(&ev.text(), &format!("m={} z={}", m, fmt_sets(&rec)));
        }
    }
    exhaustive(ctx, if ctx.thorough { 4 } else { 2 });
    let nsc = if ctx.thorough { 6000 } else { 700 };
    for _ in 0..nsc {
        let mut h = Vec::new();
        let mut sc = gen_scenario(&mut ctx.rng, ctx.thorough, &mut h);
        for k in h { ctx.count(&k); }
        run_sase(ctx, &sc);
        // the same scenario through VPL: default caps, no filter on the first step
        // (`not` is kept out of the VPL rendering: the parser drops it in followed-by filters — reported, not a C03 matter)
        let no_not = |p: &Option<P>| p.as_ref().map(|p| !p.has_not()).unwrap_or(true);
        if ctx.rng.chance(1, 3) && no_not(&sc.pb) && no_not(&sc.pc) {
            sc.mk = DEFAULT_MAX_KLEENE; sc.mr = DEFAULT_MAX_RESULTS; sc.pa = None;
            run_vpl(ctx, &sc, &rt);
        }
    }
}
