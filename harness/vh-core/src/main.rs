//! vh-core: correspondence harness driving the real varpulis code in-process.
//! usage: vh-core <property> --seed N --tier quick|thorough --out <cases-file>
//! Writes one case per line (`<op> => <impl result>`) and `<out>.stats.json`.
mod util;
mod c06;

fn main() {
    let args: Vec<String> = std::env::args().collect();
    if args.len() < 2 {
        eprintln!("usage: vh-core <property> --seed N --tier quick|thorough --out FILE");
        std::process::exit(2);
    }
    let prop = args[1].clone();
    let mut seed: u64 = 1;
    let mut tier = "quick".to_string();
    let mut out = "cases.txt".to_string();
    let mut replay: Option<String> = None;
    let mut i = 2;
    while i < args.len() {
        match args[i].as_str() {
            "--seed" => { seed = args[i + 1].parse().unwrap_or(1); i += 1; }
            "--tier" => { tier = args[i + 1].clone(); i += 1; }
            "--out" => { out = args[i + 1].clone(); i += 1; }
            "--replay" => { replay = Some(args[i + 1].clone()); i += 1; }
            _ => {}
        }
        i += 1;
    }
    let mut ctx = util::Ctx::new(seed, &tier, &out, replay);
    match prop.as_str() {
        "C06" | "C07" | "zdd" => c06::run(&mut ctx),
        _ => { eprintln!("unknown property {prop}"); std::process::exit(2); }
    }
    ctx.finish();
}
