//! C09: the same filter in `.where(...)` and as the filter of a sequence step.
//! Every case is rendered three ways: as model tokens, as VPL text loaded through
//! `varpulis_parser::parse` + `Engine::load` (a filter stream and a two-step sequence stream
//! `Start as s -> T where <filter> as t`, plus a step on the derived stream `F = T.where(<filter>)`,
//! whose filter the compiler merges into the step), and as an AST handed directly to the VPL evaluator and to
//! `expr_to_sase_predicate` + `eval_predicate` (localises a disagreement to front end or evaluators).
use crate::util::Ctx;
use std::collections::BTreeSet;
use tokio::sync::mpsc;
use varpulis_core::ast::{BinOp, Expr, Stmt, StreamOp, UnaryOp};
use varpulis_core::Value;
use varpulis_runtime::engine::compiler::expr_to_sase_predicate;
use varpulis_runtime::engine::{eval_filter_expr, Engine};
use varpulis_runtime::event::Event;
use varpulis_runtime::sequence::SequenceContext;

#[derive(Clone, Debug, PartialEq)]
enum Lit { I(i64), F(u64), S(String), B(bool), Null, /// only as a field value, never as a literal operand
    Arr(Vec<Lit>) }

#[derive(Clone, Debug, PartialEq)]
enum Opd { Field(&'static str), Lit(Lit), Arith(Ar, Box<Opd>, Box<Opd>) }

/// arithmetic inside an operand
#[derive(Clone, Copy, Debug, PartialEq)]
enum Ar { Add, Sub, Mul, Div }
const ARS: [Ar; 4] = [Ar::Add, Ar::Sub, Ar::Mul, Ar::Div];

#[derive(Clone, Copy, Debug, PartialEq)]
enum Op { Eq, Ne, Lt, Le, Gt, Ge }
const OPS: [Op; 6] = [Op::Eq, Op::Ne, Op::Lt, Op::Le, Op::Gt, Op::Ge];

/// the other comparison operators of the grammar
#[derive(Clone, Copy, Debug, PartialEq)]
enum Oth { In, NotIn, Is }

#[derive(Clone, Debug, PartialEq)]
enum Fx { Cmp(Op, Opd, Opd), Other(Oth, Opd, Opd), Atom(Opd), And(Box<Fx>, Box<Fx>), Or(Box<Fx>, Box<Fx>), Not(Box<Fx>) }

fn hex(b: &[u8]) -> String { b.iter().map(|x| format!("{:02x}", x)).collect() }

impl Lit {
    fn tok(&self) -> String {
        match self {
            Lit::I(n) => format!("I{}", n), Lit::F(b) => format!("F{:016x}", b), Lit::S(s) => format!("S{}", hex(s.as_bytes())),
            Lit::B(b) => if *b { "B1".into() } else { "B0".into() }, Lit::Null => "N".into(),
            Lit::Arr(l) => format!("A({})", l.iter().map(|x| x.tok()).collect::<Vec<_>>().join(",")),
        }
    }
    fn vpl(&self) -> String {
        match self {
            Lit::I(n) => format!("{}", n),
            Lit::F(b) => format!("{:?}", f64::from_bits(*b)),
            Lit::S(s) => format!("\"{}\"", s),
            Lit::B(b) => format!("{}", b),
            Lit::Null => "null".into(),
            Lit::Arr(_) => unreachable!("arrays are field values only"),
        }
    }
    fn ast(&self) -> Expr {
        match self {
            Lit::I(n) => Expr::Int(*n), Lit::F(b) => Expr::Float(f64::from_bits(*b)), Lit::S(s) => Expr::Str(s.clone()),
            Lit::B(b) => Expr::Bool(*b), Lit::Null => Expr::Null,
            Lit::Arr(_) => unreachable!("arrays are field values only"),
        }
    }
    fn value(&self) -> Value {
        match self {
            Lit::I(n) => Value::Int(*n), Lit::F(b) => Value::Float(f64::from_bits(*b)), Lit::S(s) => Value::str(s),
            Lit::B(b) => Value::Bool(*b), Lit::Null => Value::Null,
            Lit::Arr(l) => Value::array(l.iter().map(|x| x.value()).collect()),
        }
    }
    fn kind(&self) -> &'static str {
        match self { Lit::I(_) => "int", Lit::F(_) => "float", Lit::S(_) => "str", Lit::B(_) => "bool", Lit::Null => "null", Lit::Arr(_) => "array" }
    }
}

impl Ar {
    fn tok(&self) -> &'static str { match self { Ar::Add => "add", Ar::Sub => "sub", Ar::Mul => "mul", Ar::Div => "div" } }
    fn vpl(&self) -> &'static str { match self { Ar::Add => "+", Ar::Sub => "-", Ar::Mul => "*", Ar::Div => "/" } }
    fn ast(&self) -> BinOp { match self { Ar::Add => BinOp::Add, Ar::Sub => BinOp::Sub, Ar::Mul => BinOp::Mul, Ar::Div => BinOp::Div } }
}

impl Opd {
    fn tok(&self) -> String {
        match self {
            Opd::Field(f) => format!("f:{}", f), Opd::Lit(l) => l.tok(),
            Opd::Arith(op, a, b) => format!("ar {} {} {}", op.tok(), a.tok(), b.tok()),
        }
    }
    fn vpl(&self) -> String {
        match self {
            Opd::Field(f) => f.to_string(), Opd::Lit(l) => l.vpl(),
            Opd::Arith(op, a, b) => format!("({} {} {})", a.vpl(), op.vpl(), b.vpl()),
        }
    }
    fn ast(&self) -> Expr {
        match self {
            Opd::Field(f) => Expr::Ident(f.to_string()), Opd::Lit(l) => l.ast(),
            Opd::Arith(op, a, b) => Expr::Binary { op: op.ast(), left: Box::new(a.ast()), right: Box::new(b.ast()) },
        }
    }
    fn fields(&self, out: &mut BTreeSet<&'static str>) {
        match self { Opd::Field(f) => { out.insert(*f); } Opd::Lit(_) => {} Opd::Arith(_, a, b) => { a.fields(out); b.fields(out); } }
    }
    fn kind(&self) -> String {
        match self { Opd::Field(_) => "field".into(), Opd::Lit(l) => l.kind().into(), Opd::Arith(..) => "arith".into() }
    }
}

impl Op {
    fn tok(&self) -> &'static str { match self { Op::Eq => "eq", Op::Ne => "ne", Op::Lt => "lt", Op::Le => "le", Op::Gt => "gt", Op::Ge => "ge" } }
    fn vpl(&self) -> &'static str { match self { Op::Eq => "==", Op::Ne => "!=", Op::Lt => "<", Op::Le => "<=", Op::Gt => ">", Op::Ge => ">=" } }
    fn ast(&self) -> BinOp { match self { Op::Eq => BinOp::Eq, Op::Ne => BinOp::NotEq, Op::Lt => BinOp::Lt, Op::Le => BinOp::Le, Op::Gt => BinOp::Gt, Op::Ge => BinOp::Ge } }
}

impl Oth {
    fn tok(&self) -> &'static str { match self { Oth::In => "in", Oth::NotIn => "nin", Oth::Is => "is" } }
    fn vpl(&self) -> &'static str { match self { Oth::In => "in", Oth::NotIn => "not in", Oth::Is => "is" } }
    fn ast(&self) -> BinOp { match self { Oth::In => BinOp::In, Oth::NotIn => BinOp::NotIn, Oth::Is => BinOp::Is } }
}

impl Fx {
    fn tok(&self) -> String {
        match self {
            Fx::Cmp(op, l, r) => format!("cmp {} {} {}", op.tok(), l.tok(), r.tok()),
            Fx::Other(op, l, r) => format!("oth {} {} {}", op.tok(), l.tok(), r.tok()),
            Fx::Atom(o) => format!("atom {}", o.tok()),
            Fx::And(a, b) => format!("and {} {}", a.tok(), b.tok()),
            Fx::Or(a, b) => format!("or {} {}", a.tok(), b.tok()),
            Fx::Not(a) => format!("not {}", a.tok()),
        }
    }
    /// VPL text; composite operands are parenthesised, atoms are not (the usual way to write them)
    fn vpl(&self) -> String {
        match self {
            Fx::Cmp(op, l, r) => format!("{} {} {}", l.vpl(), op.vpl(), r.vpl()),
            Fx::Other(op, l, r) => format!("{} {} {}", l.vpl(), op.vpl(), r.vpl()),
            Fx::Atom(o) => o.vpl(),
            Fx::And(a, b) => format!("({}) and ({})", a.vpl(), b.vpl()),
            Fx::Or(a, b) => format!("({}) or ({})", a.vpl(), b.vpl()),
            Fx::Not(a) => format!("not ({})", a.vpl()),
        }
    }
    fn ast(&self) -> Expr {
        match self {
            Fx::Cmp(op, l, r) => Expr::Binary { op: op.ast(), left: Box::new(l.ast()), right: Box::new(r.ast()) },
            Fx::Other(op, l, r) => Expr::Binary { op: op.ast(), left: Box::new(l.ast()), right: Box::new(r.ast()) },
            Fx::Atom(o) => o.ast(),
            Fx::And(a, b) => Expr::Binary { op: BinOp::And, left: Box::new(a.ast()), right: Box::new(b.ast()) },
            Fx::Or(a, b) => Expr::Binary { op: BinOp::Or, left: Box::new(a.ast()), right: Box::new(b.ast()) },
            Fx::Not(a) => Expr::Unary { op: UnaryOp::Not, expr: Box::new(a.ast()) },
        }
    }
    fn depth(&self) -> u32 {
        match self { Fx::Cmp(..) | Fx::Other(..) | Fx::Atom(_) => 1, Fx::And(a, b) | Fx::Or(a, b) => 1 + a.depth().max(b.depth()), Fx::Not(a) => 1 + a.depth() }
    }
    fn fields(&self, out: &mut BTreeSet<&'static str>) {
        match self {
            Fx::Cmp(_, l, r) | Fx::Other(_, l, r) => { l.fields(out); r.fields(out); }
            Fx::Atom(o) => o.fields(out),
            Fx::And(a, b) | Fx::Or(a, b) => { a.fields(out); b.fields(out); }
            Fx::Not(a) => a.fields(out),
        }
    }
    fn shape(&self) -> String {
        match self {
            Fx::Cmp(op, l, r) => {
                let side = |o: &Opd| o.kind();
                let cls = match op { Op::Eq | Op::Ne => "eq", _ => "ord" };
                format!("cmp-{}:{}-{}", cls, side(l), side(r))
            }
            Fx::Other(op, ..) => format!("other:{}", op.tok()),
            Fx::Atom(_) => "atom".into(), Fx::And(..) => "and".into(), Fx::Or(..) => "or".into(), Fx::Not(..) => "not".into(),
        }
    }
}

const F1: u64 = 0x3ff0000000000000; // 1.0
const F1_5: u64 = 0x3ff8000000000000; // 1.5
const F0_5: u64 = 0x3fe0000000000000; // 0.5
const F0_5_NEXT: u64 = 0x3fe0000000000001; // 0.5 + 2^-53
const F1_NEXT: u64 = 0x3ff0000000000001; // 1 + 2^-52 (exactly epsilon away from 1.0)
const F2: u64 = 0x4000000000000000;
const NAN: u64 = 0x7ff8000000000000;
const NEG_ZERO: u64 = 0x8000000000000000;
const INF: u64 = 0x7ff0000000000000;
const TINY: u64 = 0x3c670ef54646d497; // 1e-17
const TWO53: u64 = 0x4340000000000000; // 2^53

/// field values: `None` = the field is missing
fn value_pool(thorough: bool) -> Vec<Option<Lit>> {
    let mut p = vec![
        None,
        Some(Lit::I(0)), Some(Lit::I(1)), Some(Lit::I(2)),
        Some(Lit::F(F1)), Some(Lit::F(F1_5)), Some(Lit::F(F0_5_NEXT)), Some(Lit::F(F1_NEXT)), Some(Lit::F(NAN)),
        Some(Lit::S("a".into())), Some(Lit::S("m".into())), Some(Lit::S("z".into())),
        Some(Lit::B(true)), Some(Lit::B(false)),
        Some(Lit::Arr(vec![Lit::I(1), Lit::S("a".into())])),
        Some(Lit::Null), // present with value null — not the same as missing
    ];
    if thorough {
        p.extend([Some(Lit::I(-1)), Some(Lit::I(9007199254740993)), Some(Lit::I(i64::MIN)),
                  Some(Lit::F(F0_5)), Some(Lit::F(0)), Some(Lit::F(NEG_ZERO)), Some(Lit::F(TINY)),
                  Some(Lit::F(INF)), Some(Lit::F(TWO53)), Some(Lit::F(F2)), Some(Lit::S("".into())), Some(Lit::S("1".into())),
                  Some(Lit::Arr(vec![])), Some(Lit::Arr(vec![Lit::F(F1), Lit::F(NAN)]))]);
    }
    p
}

fn literal_pool(thorough: bool) -> Vec<Lit> {
    let mut p = vec![Lit::I(1), Lit::F(F1), Lit::F(F1_5), Lit::F(F0_5), Lit::S("m".into()), Lit::B(true), Lit::Null];
    if thorough { p.extend([Lit::I(0), Lit::I(2), Lit::I(9007199254740992), Lit::F(0), Lit::F(F2), Lit::S("a".into()), Lit::B(false)]); }
    p
}

const FIELDS: [&str; 3] = ["x", "y", "z"];

fn atoms_for(field: &'static str, lits: &[Lit]) -> Vec<Fx> {
    let mut v = Vec::new();
    for op in OPS { for l in lits { v.push(Fx::Cmp(op, Opd::Field(field), Opd::Lit(l.clone()))); } }
    v
}

/// atoms that do not take the `Ident op literal` shape (evaluated by the VPL evaluator in both contexts)
fn other_atoms() -> Vec<Fx> {
    let mut v = Vec::new();
    for op in OPS {
        v.push(Fx::Cmp(op, Opd::Lit(Lit::I(1)), Opd::Field("x")));
        v.push(Fx::Cmp(op, Opd::Field("x"), Opd::Field("y")));
        v.push(Fx::Cmp(op, Opd::Lit(Lit::F(F1_5)), Opd::Field("y")));
    }
    for op in [Oth::In, Oth::NotIn, Oth::Is] {
        v.push(Fx::Other(op, Opd::Field("x"), Opd::Field("y")));
        v.push(Fx::Other(op, Opd::Lit(Lit::S("a".into())), Opd::Field("y")));
        v.push(Fx::Other(op, Opd::Lit(Lit::I(1)), Opd::Field("y")));
        v.push(Fx::Other(op, Opd::Field("x"), Opd::Lit(Lit::S("ma".into()))));
    }
    for op in OPS {
        v.push(Fx::Cmp(op, Opd::Lit(Lit::Null), Opd::Field("x")));
        v.push(Fx::Cmp(op, Opd::Field("y"), Opd::Lit(Lit::Null)));
    }
    // arithmetic over the current event's fields on either side (always the `Predicate::Expr` path)
    let fx = |f: &'static str| Box::new(Opd::Field(f));
    let li = |n: i64| Box::new(Opd::Lit(Lit::I(n)));
    for ar in ARS {
        for op in OPS {
            v.push(Fx::Cmp(op, Opd::Arith(ar, fx("x"), li(1)), Opd::Field("y")));
            v.push(Fx::Cmp(op, Opd::Field("y"), Opd::Arith(ar, fx("x"), li(2))));
        }
        v.push(Fx::Cmp(Op::Eq, Opd::Arith(ar, fx("x"), Box::new(Opd::Lit(Lit::F(F1_5)))), Opd::Lit(Lit::F(F1_5))));
        v.push(Fx::Cmp(Op::Gt, Opd::Arith(ar, fx("x"), fx("y")), Opd::Lit(Lit::I(1))));
        v.push(Fx::Cmp(Op::Le, Opd::Arith(ar, Box::new(Opd::Arith(Ar::Mul, fx("x"), li(2))), fx("y")), Opd::Arith(Ar::Add, fx("y"), li(0))));
        v.push(Fx::Cmp(Op::Ne, Opd::Arith(ar, fx("x"), li(0)), Opd::Field("x")));
        v.push(Fx::Cmp(Op::Lt, Opd::Arith(ar, li(3), li(2)), Opd::Field("x")));
        v.push(Fx::Atom(Opd::Arith(ar, fx("x"), fx("y"))));
        v.push(Fx::Other(Oth::In, Opd::Arith(ar, fx("x"), Box::new(Opd::Lit(Lit::S("a".into())))), Opd::Field("y")));
    }
    v.push(Fx::Cmp(Op::Eq, Opd::Lit(Lit::Null), Opd::Lit(Lit::Null)));
    v.push(Fx::Atom(Opd::Lit(Lit::Null)));
    v.push(Fx::Cmp(Op::Lt, Opd::Lit(Lit::I(1)), Opd::Lit(Lit::I(2))));
    v.push(Fx::Atom(Opd::Field("x")));
    v.push(Fx::Atom(Opd::Field("y")));
    v.push(Fx::Atom(Opd::Lit(Lit::B(true))));
    v.push(Fx::Atom(Opd::Lit(Lit::B(false))));
    v
}

fn gen_atom(ctx: &mut Ctx, lits: &[Lit]) -> Fx {
    if ctx.rng.chance(1, 6) { return ctx.rng.pick(&other_atoms()).clone(); }
    let f = *ctx.rng.pick(&FIELDS);
    Fx::Cmp(*ctx.rng.pick(&OPS), Opd::Field(f), Opd::Lit(ctx.rng.pick(lits).clone()))
}

fn gen_expr(ctx: &mut Ctx, lits: &[Lit], depth: u32) -> Fx {
    if depth <= 1 { return gen_atom(ctx, lits); }
    match ctx.rng.below(10) {
        0 => gen_atom(ctx, lits),
        1..=3 => Fx::Not(Box::new(gen_expr(ctx, lits, depth - 1))),
        4..=6 => Fx::And(Box::new(gen_expr(ctx, lits, depth - 1)), Box::new(gen_expr(ctx, lits, depth - 1))),
        _ => Fx::Or(Box::new(gen_expr(ctx, lits, depth - 1)), Box::new(gen_expr(ctx, lits, depth - 1))),
    }
}

fn build_event(etype: &str, id: i64, fields: &[(&'static str, Option<Lit>)]) -> Event {
    let mut e = Event::new(etype).with_field("id", Value::Int(id));
    for (k, v) in fields { if let Some(l) = v { e = e.with_field(*k, l.value()); } }
    e
}

fn event_tok(fields: &[(&'static str, Option<Lit>)]) -> String {
    let parts: Vec<String> = fields.iter().filter_map(|(k, v)| v.as_ref().map(|l| format!("{}={}", k, l.tok()))).collect();
    if parts.is_empty() { "-".into() } else { parts.join(" ") }
}

struct Loaded { engine: Engine, rx: mpsc::Receiver<Event>, where_ast: Option<Expr>, step_ast: Option<Expr> }

/// the filter through the real front end: a filter stream and a two-step sequence stream
fn load(filter_vpl: &str) -> Result<Loaded, String> {
    let src = format!(
        "stream W = T\n    .where({f})\n    .emit(k: id)\n\nstream S = Start as s\n    -> T where {f} as t\n    .emit(k: t.id)\n\nstream F = T\n    .where({f})\n\nstream S2 = Start as s2\n    -> F as t2\n    .emit(k: t2.id)\n",
        f = filter_vpl
    );
    let program = varpulis_parser::parse(&src).map_err(|e| format!("parse: {:?} in {}", e, src))?;
    let mut where_ast = None;
    let mut step_ast = None;
    for st in &program.statements {
        if let Stmt::StreamDecl { name, ops, .. } = &st.node {
            for op in ops {
                match op {
                    StreamOp::Where(e) if name == "W" => where_ast = Some(e.clone()),
                    StreamOp::FollowedBy(c) if name == "S" => step_ast = c.filter.clone(),
                    _ => {}
                }
            }
        }
    }
    let (tx, rx) = mpsc::channel::<Event>(100_000);
    let mut engine = Engine::new(tx);
    engine.load(&program).map_err(|e| format!("load: {} in {}", e, src))?;
    Ok(Loaded { engine, rx, where_ast, step_ast })
}

fn b(x: bool) -> &'static str { if x { "1" } else { "0" } }

fn run_expr(ctx: &mut Ctx, rt: &tokio::runtime::Runtime, fx: &Fx, events: &[Vec<(&'static str, Option<Lit>)>]) {
    let vpl = fx.vpl();
    let mut ld = match load(&vpl) {
        Ok(l) => l,
        Err(e) => { eprintln!("generator error: the front end rejects a generated filter: {}", e); std::process::exit(3); }
    };
    let ast = fx.ast();
    // does the front end hand the evaluators the tree we meant?
    let same_where = ld.where_ast.as_ref() == Some(&ast);
    let same_step = ld.step_ast.as_ref() == Some(&ast);
    ctx.count(if same_where { "frontend:where-ast-as-written" } else { "frontend:where-ast-rewritten" });
    ctx.count(if same_step { "frontend:step-ast-as-written" } else { "frontend:step-ast-rewritten" });
    if (!same_where || !same_step) && ctx.notes.len() < 8 {
        ctx.notes.push(format!("front end rewrote `{}`: where={:?} step={:?}", vpl, ld.where_ast, ld.step_ast));
    }
    let pred = expr_to_sase_predicate(&ast);
    ctx.count(&format!("depth:{}", fx.depth()));
    ctx.count(&format!("shape:{}", fx.shape()));
    let etok = fx.tok();
    for (i, fields) in events.iter().enumerate() {
        let id = i as i64;
        let start = Event::new("Start").with_field("id", Value::Int(id));
        let ev = build_event("T", id, fields);
        rt.block_on(async {
            ld.engine.process(start).await.expect("process Start");
            ld.engine.process(ev.clone()).await.expect("process T");
        });
        let (mut w, mut s, mut s2) = (false, false, false);
        while let Ok(out) = ld.rx.try_recv() {
            if out.get("k") != Some(&Value::Int(id)) { continue; }
            match &*out.event_type { "W" => w = true, "S" => s = true, "S2" => s2 = true, _ => {} }
        }
        let dw = eval_filter_expr(&ast, &ev, SequenceContext::empty()).and_then(|v| v.as_bool()).unwrap_or(false);
        let ds = match &pred { Some(p) => varpulis_runtime::sase::verif_eval_predicate(p, &ev), None => true };
        ctx.case(&format!("flt {} | {}", etok, event_tok(fields)), &format!("{} {} {} {} {}", b(w), b(s), b(dw), b(ds), b(s2)));
        ctx.count(match (w, s) { (true, true) => "sel:both", (false, false) => "sel:neither", (true, false) => "sel:where-only", (false, true) => "sel:step-only" });
        if w != dw { ctx.count("frontend:where-differs-from-direct"); }
        if s != ds { ctx.count("frontend:step-differs-from-direct"); }
        if s2 != s { ctx.count("frontend:derived-stream-step-differs-from-step"); }
    }
}

/// all combinations of pool values for the fields the expression mentions (sampled above `cap`)
fn events_for(ctx: &mut Ctx, fx: &Fx, pool: &[Option<Lit>], cap: usize) -> Vec<Vec<(&'static str, Option<Lit>)>> {
    let mut fs = BTreeSet::new();
    fx.fields(&mut fs);
    let fs: Vec<&'static str> = fs.into_iter().collect();
    let total = pool.len().pow(fs.len() as u32);
    let mut out = Vec::new();
    if total <= cap {
        for mut n in 0..total {
            let mut ev = Vec::new();
            for f in &fs { ev.push((*f, pool[n % pool.len()].clone())); n /= pool.len(); }
            out.push(ev);
        }
    } else {
        for _ in 0..cap { out.push(fs.iter().map(|f| (*f, ctx.rng.pick(pool).clone())).collect()); }
    }
    out
}

pub const NAMES: &[&str] = &["C09", "filter"];

pub fn run(ctx: &mut Ctx, _name: &str) {
    let rt = tokio::runtime::Builder::new_current_thread().enable_all().build().expect("tokio runtime");
    ctx.directive("new filter");
    let pool = value_pool(ctx.thorough);
    let lits = literal_pool(ctx.thorough);
    let x = |l: Lit, op: Op| Fx::Cmp(op, Opd::Field("x"), Opd::Lit(l));

    // corpus: the witnesses of the known findings, then their neighbours
    let witnesses: Vec<(Fx, Vec<(&'static str, Option<Lit>)>)> = vec![
        (x(Lit::I(1), Op::Eq), vec![("x", Some(Lit::F(F1)))]),
        (x(Lit::F(F0_5), Op::Eq), vec![("x", Some(Lit::F(F0_5_NEXT)))]),
        (Fx::Cmp(Op::Lt, Opd::Field("x"), Opd::Lit(Lit::S("m".into()))), vec![("x", Some(Lit::S("a".into())))]),
        (Fx::Not(Box::new(x(Lit::I(1), Op::Gt))), vec![("x", None)]),
        (Fx::Or(Box::new(x(Lit::I(1), Op::Gt)), Box::new(Fx::Cmp(Op::Gt, Opd::Field("y"), Opd::Lit(Lit::I(1))))), vec![("x", None), ("y", Some(Lit::I(5)))]),
    ];
    for (fx, ev) in &witnesses { run_expr(ctx, &rt, fx, &[ev.clone()]); }
    // the null literal: `x == null` / `x != null` on x present-with-null, missing, and non-null; inside a conjunction
    for op in [Op::Eq, Op::Ne] {
        run_expr(ctx, &rt, &x(Lit::Null, op), &[vec![("x", Some(Lit::Null))], vec![("x", None)], vec![("x", Some(Lit::I(7)))]]);
    }
    run_expr(ctx, &rt,
        &Fx::And(Box::new(x(Lit::Null, Op::Eq)), Box::new(Fx::Cmp(Op::Eq, Opd::Field("y"), Opd::Lit(Lit::I(7))))),
        &[vec![("x", Some(Lit::Null)), ("y", Some(Lit::I(7)))], vec![("x", None), ("y", Some(Lit::I(7)))]]);
    // witness of the repaired "filter dropped" defect: `x > 1 and y in z` on x = 0
    run_expr(ctx, &rt,
        &Fx::And(Box::new(x(Lit::I(1), Op::Gt)), Box::new(Fx::Other(Oth::In, Opd::Field("y"), Opd::Field("z")))),
        &[vec![("x", Some(Lit::I(0))), ("y", Some(Lit::S("b".into()))), ("z", Some(Lit::S("abc".into())))]]);

    // 1. every atom `x op literal` and every other atom shape, against every value of its fields
    let mut atoms = atoms_for("x", &lits);
    atoms.extend(other_atoms());
    for a in &atoms { let evs = events_for(ctx, a, &pool, 4096); run_expr(ctx, &rt, a, &evs); }

    // 2. depth 2: not / and / or over a reduced atom set, all field-value combinations
    let red: Vec<Fx> = vec![
        x(Lit::I(1), Op::Eq), x(Lit::I(1), Op::Ne), x(Lit::F(F1_5), Op::Lt), x(Lit::F(F0_5), Op::Ge), x(Lit::S("m".into()), Op::Lt), x(Lit::B(true), Op::Eq),
        Fx::Cmp(Op::Gt, Opd::Field("y"), Opd::Lit(Lit::I(1))), Fx::Cmp(Op::Le, Opd::Field("y"), Opd::Lit(Lit::F(F1))), Fx::Cmp(Op::Eq, Opd::Field("y"), Opd::Lit(Lit::S("m".into()))),
        Fx::Cmp(Op::Lt, Opd::Field("x"), Opd::Field("y")), Fx::Atom(Opd::Field("y")), Fx::Cmp(Op::Ne, Opd::Lit(Lit::I(1)), Opd::Field("x")),
        Fx::Other(Oth::In, Opd::Field("x"), Opd::Field("y")), Fx::Other(Oth::NotIn, Opd::Lit(Lit::S("a".into())), Opd::Field("y")),
        x(Lit::Null, Op::Eq), Fx::Cmp(Op::Ne, Opd::Field("y"), Opd::Lit(Lit::Null)),
        Fx::Cmp(Op::Gt, Opd::Arith(Ar::Add, Box::new(Opd::Field("x")), Box::new(Opd::Lit(Lit::I(1)))), Opd::Field("y")),
        Fx::Cmp(Op::Eq, Opd::Arith(Ar::Mul, Box::new(Opd::Field("x")), Box::new(Opd::Lit(Lit::I(2)))), Opd::Field("y")),
    ];
    let mut d2: Vec<Fx> = Vec::new();
    for a in &red {
        d2.push(Fx::Not(Box::new(a.clone())));
        for c in &red { d2.push(Fx::And(Box::new(a.clone()), Box::new(c.clone()))); d2.push(Fx::Or(Box::new(a.clone()), Box::new(c.clone()))); }
    }
    let cap2 = if ctx.thorough { 1024 } else { 40 };
    for e in &d2 { let evs = events_for(ctx, e, &pool, cap2); run_expr(ctx, &rt, e, &evs); }

    // 3. depth 3 over 1-3 fields: exhaustive combinations of depth-2 shapes over a tiny atom set (thorough), random otherwise
    if ctx.thorough {
        let tiny: Vec<Fx> = vec![x(Lit::I(1), Op::Eq), x(Lit::F(F1_5), Op::Lt), Fx::Cmp(Op::Gt, Opd::Field("y"), Opd::Lit(Lit::I(1))), Fx::Cmp(Op::Lt, Opd::Field("z"), Opd::Lit(Lit::S("m".into())))];
        let mut t2: Vec<Fx> = tiny.clone();
        for a in &tiny {
            t2.push(Fx::Not(Box::new(a.clone())));
            for c in &tiny { t2.push(Fx::And(Box::new(a.clone()), Box::new(c.clone()))); t2.push(Fx::Or(Box::new(a.clone()), Box::new(c.clone()))); }
        }
        for a in &t2 {
            if a.depth() == 2 { let e = Fx::Not(Box::new(a.clone())); let evs = events_for(ctx, &e, &pool, 400); run_expr(ctx, &rt, &e, &evs); }
            for c in &t2 {
                if a.depth().max(c.depth()) != 2 { continue; }
                for e in [Fx::And(Box::new(a.clone()), Box::new(c.clone())), Fx::Or(Box::new(a.clone()), Box::new(c.clone()))] {
                    let evs = events_for(ctx, &e, &pool, 60); run_expr(ctx, &rt, &e, &evs);
                }
            }
        }
    }
    let n3 = if ctx.thorough { 6000 } else { 700 };
    for _ in 0..n3 {
        let e = gen_expr(ctx, &lits, 3);
        let evs = events_for(ctx, &e, &pool, if ctx.thorough { 60 } else { 24 });
        run_expr(ctx, &rt, &e, &evs);
    }
}
