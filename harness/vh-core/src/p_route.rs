//! C16 / C17 / C23: the engine's routing / queueing layer.
//!
//! Programs are generated from a grammar of stream kinds (filters, emits, windows, aggregates,
//! sequences, joins, merges, derived chains / diamonds / cycles, streams without emit, `.process`)
//! and rendered twice: as VPL text for `varpulis_parser::parse` + `Engine::load`, and as `stream`
//! lines (intended subscriptions, join / process flags) for the Lean model. The real streams are
//! treated as black boxes: the `varpulis_verif` hook records every stream invocation (stream,
//! input event, result) and the model replays its routing / queue logic with the recorded results
//! as the abstract step function (trace validation). C16 additionally compares the real entry
//! points with each other; C23 compares reloaded engines with never-reloaded and fresh ones.
use crate::util::{Ctx, Rng};
use std::collections::BTreeMap;
use std::sync::Arc;
use tokio::sync::mpsc;
use varpulis_core::Value;
use varpulis_runtime::engine::verif;
use varpulis_runtime::{Engine, Event};

pub const NAMES: &[&str] = &["C16", "C17", "C23"];

const INPUT_TYPES: &[&str] = &["A", "B", "C"];

// ---------------------------------------------------------------------------------------------
// program description
// ---------------------------------------------------------------------------------------------

#[derive(Clone, Debug)]
struct SDecl {
    name: String,
    /// declaration text after `stream <name> = `
    body: String,
    /// intended subscriptions (event types / stream names) in registration order
    subs: Vec<String>,
    /// the primary source only (what `Engine::reload` used to re-register)
    prim: Vec<String>,
    join: bool,
    proc_: bool,
    kind: String,
    /// number of pipeline operations (the old change heuristic compared only this)
    nops: usize,
    /// stateless kinds: output depends on the current input only
    stateless: bool,
    /// `RuntimeSource::EventType/Stream` name (what a later sequence step naming this stream resolves to)
    rsrc: Option<String>,
}

#[derive(Clone, Debug)]
struct Prog {
    streams: Vec<SDecl>,
}

const FNS: &str = "fn two():\n    emit Lo(k: k, x: x)\n    emit Hi(k: k, x: x + 1)\n\nfn one():\n    emit Mid(k: k, x: x + 2)\n\n";

impl Prog {
    fn vpl(&self) -> String {
        let mut s = String::new();
        if self.streams.iter().any(|d| d.proc_) {
            s.push_str(FNS);
        }
        for d in &self.streams {
            s.push_str(&format!("stream {} = {}\n\n", d.name, d.body));
        }
        s
    }
    fn one_line(&self) -> String {
        self.streams.iter().map(|d| format!("stream {} = {}", d.name, d.body.replace('\n', " "))).collect::<Vec<_>>().join(" ;; ")
    }
}

/// a threshold-style parameter drawn from a small pool
fn thr(rng: &mut Rng) -> i64 { rng.range(-1, 3) }

/// generate the body of one stream. `src_pool`: names usable as sources.
fn gen_body(rng: &mut Rng, name: &str, src: &[String], kind_hint: Option<&str>, decl_before: &[SDecl]) -> SDecl {
    let pick = |rng: &mut Rng| -> String { src[rng.below(src.len() as u64) as usize].clone() };
    let kinds: &[(&str, u64)] = &[
        ("filter", 10), ("femit", 14), ("emit", 12), ("pass", 4), ("cwin", 8), ("cwin_noemit", 4), ("twin", 5),
        ("swin", 3), ("pwin", 4), ("seq", 10), ("seq_noemit", 3), ("seq3", 3), ("join", 8), ("merge", 5), ("proc", 5), ("proc_emit", 2),
        ("proc1", 2), ("distinct", 3), ("limit", 3), ("select", 3), ("having", 3),
    ];
    let kind: String = match kind_hint {
        Some(k) => k.to_string(),
        None => {
            let total: u64 = kinds.iter().map(|k| k.1).sum();
            let mut r = rng.below(total);
            let mut k = kinds[0].0;
            for (n, w) in kinds { if r < *w { k = n; break; } r -= w; }
            k.to_string()
        }
    };
    let s0 = pick(rng);
    let mut d = SDecl { name: name.to_string(), body: String::new(), subs: vec![s0.clone()], prim: vec![s0.clone()],
        join: false, proc_: false, kind: kind.clone(), nops: 0, stateless: false, rsrc: Some(s0.clone()) };
    // `resolve_event_type` of `compile_ops_with_sequences`: a sequence step that names an already
    // registered stream is subscribed under that stream's own source (one level)
    let resolve = |n: &String| -> String {
        match decl_before.iter().rev().find(|p| &p.name == n) {
            Some(p) => p.rsrc.clone().unwrap_or_else(|| n.clone()),
            None => n.clone(),
        }
    };
    let c = thr(rng);
    match kind.as_str() {
        "filter" => { d.body = format!("{s0}\n    .where(x > {c})"); d.nops = 1; d.stateless = true; }
        "femit" => { d.body = format!("{s0}\n    .where(x > {c})\n    .emit(k: k, x: x)"); d.nops = 2; d.stateless = true; }
        "emit" => { d.body = format!("{s0}\n    .emit(k: k, x: x + {})", rng.range(0, 2)); d.nops = 1; d.stateless = true; }
        "pass" => { d.body = s0.to_string(); d.nops = 0; d.stateless = true; }
        "cwin" => { d.body = format!("{s0}\n    .window({})\n    .aggregate(n: count(), s: sum(x))\n    .emit(k: n, x: s)", rng.range(2, 3)); d.nops = 3; }
        "cwin_noemit" => { d.body = format!("{s0}\n    .window({})\n    .aggregate(k: count(), x: sum(x))", rng.range(2, 3)); d.nops = 2; }
        "twin" => { d.body = format!("{s0}\n    .window({}s)\n    .aggregate(n: count(), s: max(x))\n    .emit(k: n, x: s)", rng.range(2, 4)); d.nops = 3; }
        "swin" => { d.body = format!("{s0}\n    .window(3, sliding: 1)\n    .aggregate(n: count(), s: sum(x))\n    .emit(k: n, x: s)"); d.nops = 3; }
        "pwin" => { d.body = format!("{s0}\n    .partition_by(k)\n    .window(2)\n    .aggregate(n: count(), s: sum(x))\n    .emit(k: n, x: s)"); d.nops = 3; }
        "having" => { d.body = format!("{s0}\n    .window(2)\n    .aggregate(n: count(), s: sum(x))\n    .having(s > {c})\n    .emit(k: n, x: s)"); d.nops = 4; }
        "seq" | "seq_noemit" => {
            let s1 = pick(rng);
            let cond = if rng.chance(1, 2) { " where k == a.k".to_string() } else { String::new() };
            d.body = format!("{s0} as a\n    -> {s1}{cond} as b");
            d.nops = 1;
            if kind == "seq" { d.body.push_str("\n    .emit(k: a.k, x: b.x)"); d.nops = 2; }
            d.subs = vec![s0.clone(), resolve(&s0), resolve(&s1)];
        }
        "seq3" => {
            let s1 = pick(rng); let s2 = pick(rng);
            d.body = format!("{s0} as a\n    -> {s1} as b\n    -> {s2} where x > {c} as c\n    .emit(k: a.k, x: c.x)");
            d.nops = 2;
            d.subs = vec![s0.clone(), resolve(&s0), resolve(&s1), resolve(&s2)];
        }
        "join" => {
            let mut s1 = pick(rng);
            let mut guard = 0;
            while s1 == s0 && guard < 8 { s1 = pick(rng); guard += 1; }
            if s1 == s0 { // degenerate pool: fall back to a filter
                d.body = format!("{s0}\n    .where(x > {c})"); d.nops = 1; d.kind = "filter".into(); d.stateless = true;
            } else {
                d.body = format!("join({s0}, {s1})\n    .on({s0}.k == {s1}.k)\n    .window(10s)\n    .select(k: {s0}.k, x: {s0}.x + {s1}.x)\n    .emit(k: k, x: x)");
                d.nops = 3;
                d.join = true;
                // a join source that names an already declared stream without operations is subscribed under that stream's own source
                let under = |n: &String| -> String {
                    match decl_before.iter().find(|p| &p.name == n) {
                        Some(p) if p.kind == "pass" => p.subs[0].clone(),
                        _ => n.clone(),
                    }
                };
                d.subs = vec![under(&s0), under(&s1)];
                d.prim = vec![];
                d.rsrc = None;
            }
        }
        "merge" => {
            let s1 = pick(rng);
            d.body = format!("merge({s0}, {s1})\n    .emit(k: k, x: x)");
            d.nops = 1;
            d.subs = vec![s0.clone(), s1.clone()];
            d.prim = vec![s0.clone(), s1];
            d.stateless = true;
            d.rsrc = None;
        }
        "proc" => { d.body = format!("{s0}\n    .process(two())"); d.nops = 1; d.proc_ = true; d.stateless = true; }
        "proc1" => { d.body = format!("{s0}\n    .where(x > {c})\n    .process(one())"); d.nops = 2; d.proc_ = true; d.stateless = true; }
        "proc_emit" => { d.body = format!("{s0}\n    .process(two())\n    .emit(k: k, x: x)"); d.nops = 2; d.proc_ = true; d.stateless = true; }
        "distinct" => { d.body = format!("{s0}\n    .distinct(x)\n    .emit(k: k, x: x)"); d.nops = 2; }
        "limit" => { d.body = format!("{s0}\n    .limit({})\n    .emit(k: k, x: x)", rng.range(1, 3)); d.nops = 2; }
        "select" => { d.body = format!("{s0}\n    .select(k: k, x: x * 2)"); d.nops = 1; d.stateless = true; }
        _ => unreachable!(),
    }
    d
}

fn dedup(v: &[String]) -> Vec<String> {
    let mut out: Vec<String> = Vec::new();
    for x in v { if !out.contains(x) { out.push(x.clone()); } }
    out
}

fn gen_prog(rng: &mut Rng, ctx_thorough: bool) -> Prog {
    let n = 1 + rng.below(if ctx_thorough { 5 } else { 5 }) as usize;
    // stream names; rarely a stream is named like an input type ("self-named types")
    let mut names: Vec<String> = (0..n).map(|i| format!("S{}", i)).collect();
    if rng.chance(1, 12) { let i = rng.below(n as u64) as usize; names[i] = "C".to_string(); }
    let shape = rng.below(10); // 0..5 random dag, 6 chain, 7 diamond, 8 cyclic, 9 fan-out
    let mut streams: Vec<SDecl> = Vec::new();
    for i in 0..n {
        let inputs: Vec<String> = INPUT_TYPES.iter().map(|s| s.to_string()).collect();
        let earlier: Vec<String> = names[..i].to_vec();
        let src: Vec<String> = match shape {
            6 if i > 0 => vec![names[i - 1].clone()],
            7 if i > 0 && i + 1 < n => vec![names[0].clone()],
            7 if i > 0 => { let mut v = names[1..i].to_vec(); if v.is_empty() { v = vec![names[0].clone()]; } v }
            8 => { let mut v = names.clone(); v.push(inputs[rng.below(3) as usize].clone()); v }
            9 => vec![inputs[0].clone()],
            _ => {
                let mut v = Vec::new();
                for _ in 0..3 {
                    if !earlier.is_empty() && rng.chance(2, 5) { v.push(earlier[rng.below(earlier.len() as u64) as usize].clone()); }
                    else { v.push(inputs[rng.below(3) as usize].clone()); }
                }
                if rng.chance(1, 15) { v.push(names[rng.below(n as u64) as usize].clone()); }
                v
            }
        };
        let hint = match shape { 7 if i > 0 && i + 1 == n && n > 2 => Some(*rng.pick(&["seq", "join", "merge", "seq3"])), _ => None };
        let mut d = gen_body(rng, &names[i], &src, hint, &streams);
        d.subs = dedup(&d.subs);
        d.prim = dedup(&d.prim);
        streams.push(d);
    }
    Prog { streams }
}

// ---------------------------------------------------------------------------------------------
// events and canonical forms
// ---------------------------------------------------------------------------------------------

fn base_ts() -> chrono::DateTime<chrono::Utc> {
    chrono::DateTime::parse_from_rfc3339("2020-01-01T00:00:00Z").unwrap().with_timezone(&chrono::Utc)
}

fn gen_events(rng: &mut Rng, n: usize) -> Vec<Event> {
    let mut t = 0i64;
    (0..n).map(|_| {
        t += *rng.pick(&[0i64, 1000, 1000, 1000, 2500, 6000]);
        let ty = *rng.pick(INPUT_TYPES);
        Event::new_at(ty, base_ts() + chrono::Duration::milliseconds(t))
            .with_field("k", Value::Int(rng.range(0, 1)))
            .with_field("x", Value::Int(rng.range(-1, 4)))
    }).collect()
}

fn fmt_value(v: &Value) -> String {
    match v {
        Value::Float(f) => format!("f{:?}", f),
        Value::Str(s) => format!("'{}'", s),
        other => format!("{}", other),
    }
}

/// interning of type names and payloads, per scenario
#[derive(Default)]
struct Intern {
    types: Vec<String>,
    payloads: BTreeMap<String, usize>,
}
impl Intern {
    fn ty(&mut self, t: &str) -> usize {
        if let Some(i) = self.types.iter().position(|x| x == t) { return i; }
        self.types.push(t.to_string());
        self.types.len() - 1
    }
    /// payload = everything except the event type; wall-clock values are dropped
    fn payload(&mut self, e: &Event) -> usize {
        let ts = if e.timestamp < base_ts() + chrono::Duration::days(365) {
            format!("{}", (e.timestamp - base_ts()).num_milliseconds())
        } else { "now".to_string() };
        let mut fields: Vec<String> = e.data.iter()
            .filter(|(k, _)| &***k != "match_duration_ms")
            .map(|(k, v)| format!("{}={}", k, fmt_value(v))).collect();
        fields.sort();
        let s = format!("@{} {}", ts, fields.join(" "));
        let n = self.payloads.len();
        *self.payloads.entry(s).or_insert(n)
    }
    fn ev(&mut self, e: &Event) -> String {
        let t = self.ty(&e.event_type);
        let p = self.payload(e);
        format!("{}.{}", t, p)
    }
    fn evs<'a>(&mut self, es: impl Iterator<Item = &'a Event>) -> String {
        let v: Vec<String> = es.map(|e| self.ev(e)).collect();
        if v.is_empty() { "-".to_string() } else { v.join(",") }
    }
}

// ---------------------------------------------------------------------------------------------
// running the real engine
// ---------------------------------------------------------------------------------------------

#[derive(Clone, Copy, PartialEq, Debug)]
enum Path { Event, Batch, Sync, Shared }
impl Path {
    fn name(self) -> &'static str { match self { Path::Event => "event", Path::Batch => "batch", Path::Sync => "sync", Path::Shared => "shared" } }
}

struct Runner {
    rt: tokio::runtime::Runtime,
}

struct Live {
    engine: Engine,
    rx: mpsc::Receiver<Event>,
}

impl Runner {
    fn new() -> Self { Runner { rt: tokio::runtime::Builder::new_current_thread().enable_all().build().unwrap() } }

    fn load(&self, vpl: &str) -> Result<Live, String> {
        let program = varpulis_parser::parse(vpl).map_err(|e| format!("parse: {}", e))?;
        let (tx, rx) = mpsc::channel(200_000);
        let mut engine = Engine::new(tx);
        engine.load(&program).map_err(|e| format!("load: {}", e))?;
        Ok(Live { engine, rx })
    }

    /// feed one chunk through the given entry point; returns (outputs, calls)
    fn feed(&self, live: &mut Live, path: Path, chunk: Vec<Event>) -> Result<(Vec<Event>, Vec<verif::StreamCall>), String> {
        verif::start();
        let r: Result<(), String> = match path {
            Path::Event => {
                let mut r = Ok(());
                for e in chunk { r = self.rt.block_on(live.engine.process(e)); if r.is_err() { break; } }
                r
            }
            Path::Batch => self.rt.block_on(live.engine.process_batch(chunk)),
            Path::Sync => live.engine.process_batch_sync(chunk),
            Path::Shared => self.rt.block_on(live.engine.process_batch_shared(chunk.into_iter().map(Arc::new).collect())),
        };
        let calls = verif::take();
        r?;
        let mut out = Vec::new();
        while let Ok(e) = live.rx.try_recv() { out.push(e); }
        Ok((out, calls))
    }
}

fn split_chunks(events: &[Event], sizes: &[usize]) -> Vec<Vec<Event>> {
    let mut out = Vec::new();
    let mut i = 0;
    for s in sizes { out.push(events[i..i + s].to_vec()); i += s; }
    out
}

fn gen_split(rng: &mut Rng, n: usize) -> Vec<usize> {
    match rng.below(4) {
        0 => vec![n],
        1 => vec![1; n],
        _ => {
            let mut v = Vec::new();
            let mut left = n;
            while left > 0 { let s = 1 + rng.below(left.min(4) as u64) as usize; v.push(s); left -= s; }
            v
        }
    }
}

fn fmt_sizes(s: &[usize]) -> String { if s.is_empty() { "-".into() } else { s.iter().map(|x| x.to_string()).collect::<Vec<_>>().join(",") } }

fn fmt_calls(it: &mut Intern, calls: &[verif::StreamCall]) -> String {
    if calls.is_empty() { return "-".into(); }
    calls.iter().map(|c| {
        let s = it.ty(&c.stream);
        format!("{}@{}:{}>{}|{}", s, c.depth, it.ev(&c.input), it.evs(c.outputs.iter().map(|e| &**e)), it.evs(c.emitted.iter().map(|e| &**e)))
    }).collect::<Vec<_>>().join(";")
}

/// per-stream lists of handed events, in declaration order of `names`
fn fmt_handed(it: &mut Intern, names: &[String], calls: &[verif::StreamCall]) -> String {
    names.iter().map(|n| {
        let id = it.ty(n);
        let evs: Vec<String> = calls.iter().filter(|c| &c.stream == n).map(|c| it.ev(&c.input)).collect();
        format!("{}:{}", id, if evs.is_empty() { "-".to_string() } else { evs.join(",") })
    }).collect::<Vec<_>>().join(" ")
}

fn emit_prog_lines(ctx: &mut Ctx, it: &mut Intern, word: &str, prog: &Prog) {
    for d in &prog.streams {
        let id = it.ty(&d.name);
        let subs: Vec<String> = d.subs.iter().map(|s| it.ty(s).to_string()).collect();
        let prim: Vec<String> = d.prim.iter().map(|s| it.ty(s).to_string()).collect();
        let l = |v: Vec<String>| if v.is_empty() { "-".to_string() } else { v.join(",") };
        // def = a fingerprint of the declaration text (what a structural comparison sees)
        let mut h: u64 = 1469598103934665603;
        for b in d.body.bytes() { h = (h ^ b as u64).wrapping_mul(1099511628211); }
        ctx.directive(&format!("{} {} subs={} prim={} join={} proc={} nops={} def={}", word, id, l(subs), l(prim), d.join as u8, d.proc_ as u8, d.nops, h % 1_000_000_007));
    }
}

fn debug() -> bool { std::env::var("VERIF_ROUTE_DEBUG").is_ok() }

/// one C16/C17 scenario
fn scenario_paths(ctx: &mut Ctx, runner: &Runner, sc: usize, prop: &str) {
    let thorough = ctx.thorough;
    let prog = gen_prog(&mut ctx.rng, thorough);
    let nev = 3 + ctx.rng.below(if thorough { 14 } else { 9 }) as usize;
    let events = gen_events(&mut ctx.rng, nev);
    let vpl = prog.vpl();
    if debug() { eprintln!("--- scenario {}\n{}", sc, vpl); }
    let mut it = Intern::default();
    for t in INPUT_TYPES { it.ty(t); }
    ctx.directive(&format!("new {} # {}", sc, prog.one_line()));
    emit_prog_lines(ctx, &mut it, "stream", &prog);
    for d in &prog.streams { ctx.count(&format!("kind:{}", d.kind)); }
    ctx.count(&format!("streams:{}", prog.streams.len()));
    let names: Vec<String> = prog.streams.iter().map(|d| d.name.clone()).collect();
    // the router the engine built (C17: routing table, add_route dedup)
    match runner.load(&vpl) {
        Ok(live) => {
            let routes = live.engine.verif_routes();
            let s = routes.iter().map(|(t, ss)| format!("{}:{}", it.ty(t), ss.iter().map(|x| it.ty(x).to_string()).collect::<Vec<_>>().join(","))).collect::<Vec<_>>();
            let mut s2 = s.clone(); s2.sort();
            if prop == "C17" { ctx.case("router", &if s2.is_empty() { "-".to_string() } else { s2.join(" ") }); }
        }
        Err(e) => { eprintln!("generator error: front end rejects a generated program: {}\n{}", e, vpl); std::process::exit(3); }
    }
    let inputs = it.evs(events.iter());
    let mut outs_by_path: Vec<(Path, String)> = Vec::new();
    let paths = [Path::Event, Path::Batch, Path::Sync, Path::Shared];
    for path in paths {
        let sizes = if path == Path::Event { vec![events.len()] } else { gen_split(&mut ctx.rng, events.len()) };
        let mut live = runner.load(&vpl).unwrap();
        let mut all_out: Vec<Event> = Vec::new();
        let mut all_calls: Vec<verif::StreamCall> = Vec::new();
        let mut failed = None;
        for chunk in split_chunks(&events, &sizes) {
            match crate::util::catch(std::panic::AssertUnwindSafe(|| runner.feed(&mut live, path, chunk))) {
                Ok(Ok((o, c))) => { all_out.extend(o); all_calls.extend(c); }
                Ok(Err(e)) => { failed = Some(format!("error:{}", e.replace('\n', " "))); break; }
                Err(_) => { failed = Some("panic".to_string()); break; }
            }
        }
        let outs = match &failed { Some(f) => f.clone(), None => it.evs(all_out.iter()) };
        if debug() {
            eprintln!("path {} split {:?}: {} outputs, {} calls", path.name(), sizes, all_out.len(), all_calls.len());
            for o in &all_out { eprintln!("   out {} {:?}", o.event_type, o.data); }
        }
        ctx.count(&format!("calls:{}", match all_calls.len() { 0 => "0", 1..=5 => "1-5", 6..=20 => "6-20", 21..=100 => "21-100", _ => ">100" }));
        if all_calls.iter().any(|c| c.depth >= 9) { ctx.count("depth-limit-reached"); }
        if all_calls.iter().any(|c| c.depth >= 1) { ctx.count("derived-routing"); }
        ctx.directive(&format!("trace {} {}", path.name(), fmt_calls(&mut it, &all_calls)));
        let op_tail = format!("{} {} {}", path.name(), fmt_sizes(&sizes), inputs);
        if prop == "C17" {
            let handed = fmt_handed(&mut it, &names, &all_calls);
            ctx.case(&format!("handed {}", op_tail), &handed);
        } else {
            ctx.case(&format!("outs {}", op_tail), &outs);
        }
        outs_by_path.push((path, outs));
    }
    if prop == "C16" {
        let r = outs_by_path.iter().map(|(p, o)| format!("{}={}", p.name(), o)).collect::<Vec<_>>().join(" / ");
        ctx.case(&format!("agree {}", inputs), &r);
        if !outs_by_path.iter().all(|(_, o)| o == "-") { ctx.count("agree:nonempty-output"); }
    }
}

pub fn run(ctx: &mut Ctx, name: &str) {
    let runner = Runner::new();
    match name {
        "C16" | "C17" => {
            let n = if ctx.thorough { 6000 } else { 600 };
            for sc in 0..n { scenario_paths(ctx, &runner, sc, name); }
        }
        "C23" => {}
        _ => {}
    }
}
