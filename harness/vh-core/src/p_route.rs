//! C16 / C17 / C23: the engine's routing / queueing layer.
//!
//! Programs are generated from a grammar of stream kinds (filters, emits, windows, aggregates,
//! sequences, joins, merges, derived chains / diamonds / cycles, streams without emit, `.process`)
//! and rendered twice: as VPL text for `varpulis_parser::parse` + `Engine::load`, and as `stream`
//! lines (intended subscriptions, join / process flags) for the Lean model. The real streams are
//! treated as black boxes: the `varpulis_verif` hook records every stream invocation (stream,
//! input event, result) and the model replays its routing / queue logic with the recorded results
//! as the abstract step function (trace validation). C16 additionally compares the real entry
//! points with each other; C23 compares reloaded engines with never-reloaded and fresh ones.
use crate::util::{Ctx, Rng};
use std::collections::BTreeMap;
use std::sync::Arc;
use tokio::sync::mpsc;
use varpulis_core::Value;
use varpulis_runtime::engine::verif;
use varpulis_runtime::{Engine, Event};

pub const NAMES: &[&str] = &["C16", "C17", "C23"];

const INPUT_TYPES: &[&str] = &["A", "B", "C"];

// ---------------------------------------------------------------------------------------------
// program description
// ---------------------------------------------------------------------------------------------

#[derive(Clone, Debug)]
struct SDecl {
    name: String,
    /// declaration text after `stream <name> = `
    body: String,
    /// intended subscriptions (event types / stream names) in registration order
    subs: Vec<String>,
    /// the primary source only (what `Engine::reload` used to re-register)
    prim: Vec<String>,
    join: bool,
    proc_: bool,
    kind: String,
    /// number of pipeline operations (the old change heuristic compared only this)
    nops: usize,
    /// stateless kinds: output depends on the current input only
    stateless: bool,
    /// `RuntimeSource::EventType/Stream` name (what a later sequence step naming this stream resolves to)
    rsrc: Option<String>,
    /// the names the declaration refers to
    refs: Vec<String>,
    /// single source written `X as v` (no sequence operators); .. and X is an earlier declared stream
    aliased: bool,
    aliased_derived: bool,
    /// `.watermark(out_of_order: Ns)` [+ `.allowed_lateness(Ms)`]
    wm: Option<(i64, Option<i64>)>,
    /// per referenced name: declared (as a stream) before this declaration?
    resolved: Vec<bool>,
}

#[derive(Clone, Debug)]
struct Prog {
    streams: Vec<SDecl>,
}

const FNS: &str = "fn two():\n    emit Lo(k: k, x: x)\n    emit Hi(k: k, x: x + 1)\n\nfn one():\n    emit Mid(k: k, x: x + 2)\n\n";

impl Prog {
    fn vpl(&self) -> String {
        let mut s = String::new();
        if self.streams.iter().any(|d| d.proc_) {
            s.push_str(FNS);
        }
        for d in &self.streams {
            s.push_str(&format!("stream {} = {}\n\n", d.name, d.body));
        }
        s
    }
    fn one_line(&self) -> String {
        self.streams.iter().map(|d| format!("stream {} = {}", d.name, d.body.replace('\n', " "))).collect::<Vec<_>>().join(" ;; ")
    }
}

/// a threshold-style parameter drawn from a small pool
fn thr(rng: &mut Rng) -> i64 { rng.range(-1, 3) }

/// the parameters of one stream declaration (what the edit operations of C23 mutate)
#[derive(Clone, Debug, PartialEq)]
struct Spec {
    name: String,
    kind: String,
    /// up to three source names (event types or stream names)
    s: Vec<String>,
    /// threshold
    c: i64,
    /// window size / limit
    n: i64,
    /// emit increment
    d: i64,
    /// sequence correlation on k
    corr: bool,
    /// single-source kinds: the source is written with an alias (`X as v`), on raw types and on derived streams
    alias: bool,
}

const KINDS: &[(&str, u64)] = &[
    ("filter", 10), ("femit", 14), ("emit", 12), ("pass", 4), ("cwin", 8), ("cwin_noemit", 4), ("twin", 5),
    ("swin", 3), ("pwin", 4), ("seq", 10), ("seq_noemit", 3), ("seq3", 3), ("seq_plain", 3), ("wm", 7), ("wm_nolate", 2), ("join", 8), ("merge", 5), ("proc", 5), ("proc_emit", 2),
    ("proc1", 2), ("distinct", 3), ("limit", 3), ("select", 3), ("having", 3),
];

fn gen_spec(rng: &mut Rng, name: &str, src: &[String], kind_hint: Option<&str>) -> Spec {
    let kind: String = match kind_hint {
        Some(k) => k.to_string(),
        None => {
            let total: u64 = KINDS.iter().map(|k| k.1).sum();
            let mut r = rng.below(total);
            let mut k = KINDS[0].0;
            for (n, w) in KINDS { if r < *w { k = n; break; } r -= w; }
            k.to_string()
        }
    };
    let pick = |rng: &mut Rng| -> String { src[rng.below(src.len() as u64) as usize].clone() };
    let s0 = pick(rng);
    let mut s1 = pick(rng);
    let s2 = pick(rng);
    if kind == "join" {
        let mut guard = 0;
        while s1 == s0 && guard < 8 { s1 = pick(rng); guard += 1; }
        if s1 == s0 { s1 = INPUT_TYPES.iter().map(|t| t.to_string()).find(|t| *t != s0).unwrap(); }
    }
    Spec { name: name.to_string(), kind, s: vec![s0, s1, s2], c: thr(rng), n: rng.range(2, 3), d: rng.range(0, 2), corr: rng.chance(1, 2), alias: rng.chance(1, 3) }
}

/// render a declaration; `decl_before`: the declarations registered before this one
fn render(sp: &Spec, decl_before: &[SDecl]) -> SDecl {
    let (s0, s1, s2) = (sp.s[0].clone(), sp.s[1].clone(), sp.s[2].clone());
    let (c, n, dd) = (sp.c, sp.n, sp.d);
    let kind = sp.kind.clone();
    let mut d = SDecl { name: sp.name.clone(), body: String::new(), subs: vec![s0.clone()], prim: vec![s0.clone()],
        join: false, proc_: false, kind: kind.clone(), nops: 0, stateless: false, rsrc: Some(s0.clone()), refs: vec![s0.clone()], aliased: false, aliased_derived: false, wm: None, resolved: vec![] };
    // `resolve_event_type` of `compile_ops_with_sequences`: a sequence step that names an already
    // registered stream is subscribed under that stream's own source (one level)
    let resolve = |n: &String| -> String {
        match decl_before.iter().rev().find(|p| &p.name == n) {
            Some(p) => p.rsrc.clone().unwrap_or_else(|| n.clone()),
            None => n.clone(),
        }
    };
    // an aliased source without sequence operators: `X as v .where(..)`. The engine compiles it to
    // RuntimeSource::EventType(X) and registers it for X only - also when X is a derived stream.
    let a0 = if sp.alias { format!("{s0} as v") } else { s0.clone() };
    let s0src = s0.clone();
    let s0 = a0;
    match kind.as_str() {
        "filter" => { d.body = format!("{s0}\n    .where(x > {c})"); d.nops = 1; d.stateless = true; }
        "femit" => { d.body = format!("{s0}\n    .where(x > {c})\n    .emit(k: k, x: x)"); d.nops = 2; d.stateless = true; }
        "emit" => { d.body = format!("{s0}\n    .emit(k: k, x: x + {dd})"); d.nops = 1; d.stateless = true; }
        "pass" => { d.body = s0.to_string(); d.nops = 0; d.stateless = true; }
        // event-time settings: out-of-orderness of the source's watermark (n-2 = 0..) and allowed lateness (d) in seconds
        "wm" => { d.body = format!("{s0}\n    .watermark(out_of_order: {}s)\n    .allowed_lateness({}s)\n    .where(x > {c})\n    .emit(k: k, x: x)", (n - 2).max(0), dd.max(0)); d.nops = 2; d.stateless = true; d.wm = Some(((n - 2).max(0), Some(dd.max(0)))); }
        "wm_nolate" => { d.body = format!("{s0}\n    .watermark(out_of_order: {}s)\n    .emit(k: k, x: x)", (n - 2).max(0)); d.nops = 1; d.stateless = true; d.wm = Some(((n - 2).max(0), None)); }
        "cwin" => { d.body = format!("{s0}\n    .window({n})\n    .aggregate(n: count(), s: sum(x))\n    .emit(k: n, x: s)"); d.nops = 3; }
        "cwin_noemit" => { d.body = format!("{s0}\n    .window({n})\n    .aggregate(k: count(), x: sum(x))"); d.nops = 2; }
        "twin" => { d.body = format!("{s0}\n    .window({}s)\n    .aggregate(n: count(), s: max(x))\n    .emit(k: n, x: s)", n + 1); d.nops = 3; }
        "swin" => { d.body = format!("{s0}\n    .window({}, sliding: 1)\n    .aggregate(n: count(), s: sum(x))\n    .emit(k: n, x: s)", n + 1); d.nops = 3; }
        "pwin" => { d.body = format!("{s0}\n    .partition_by(k)\n    .window({n})\n    .aggregate(n: count(), s: sum(x))\n    .emit(k: n, x: s)"); d.nops = 3; }
        "having" => { d.body = format!("{s0}\n    .window({n})\n    .aggregate(n: count(), s: sum(x))\n    .having(s > {c})\n    .emit(k: n, x: s)"); d.nops = 4; }
        "seq_plain" => {
            // a sequence whose first step has no alias: StreamSource::Ident + FollowedBy
            let s0 = s0src.clone();
            d.body = format!("{s0}\n    -> {s1}\n    .emit(k: 1, x: 2)");
            d.nops = 2;
            d.subs = vec![s0.clone(), resolve(&s0), resolve(&s1)];
            d.refs = vec![s0.clone(), s1.clone()];
        }
        "seq" | "seq_noemit" => {
            let s0 = s0src.clone();
            let cond = if sp.corr { " where k == a.k".to_string() } else { String::new() };
            d.body = format!("{s0} as a\n    -> {s1}{cond} as b");
            d.nops = 1;
            if kind == "seq" { d.body.push_str("\n    .emit(k: a.k, x: b.x)"); d.nops = 2; }
            d.subs = vec![s0.clone(), resolve(&s0), resolve(&s1)];
            d.refs = vec![s0.clone(), s1.clone()];
        }
        "seq3" => {
            let s0 = s0src.clone();
            d.body = format!("{s0} as a\n    -> {s1} as b\n    -> {s2} where x > {c} as c\n    .emit(k: a.k, x: c.x)");
            d.nops = 2;
            d.subs = vec![s0.clone(), resolve(&s0), resolve(&s1), resolve(&s2)];
            d.refs = vec![s0.clone(), s1.clone(), s2.clone()];
        }
        "join" => {
            let s0 = s0src.clone();
            d.body = format!("join({s0}, {s1})\n    .on({s0}.k == {s1}.k)\n    .window(10s)\n    .select(k: {s0}.k, x: {s0}.x + {s1}.x)\n    .emit(k: k, x: x)");
            d.nops = 3;
            d.join = true;
            // a join source that names an already declared stream without operations is subscribed under that stream's own source
            let under = |n: &String| -> String {
                match decl_before.iter().rev().find(|p| &p.name == n) {
                    Some(p) if p.nops == 0 && p.kind == "pass" => p.subs[0].clone(),
                    _ => n.clone(),
                }
            };
            d.subs = vec![under(&s0), under(&s1)];
            d.refs = vec![s0.clone(), s1.clone()];
            d.prim = vec![];
            d.rsrc = None;
        }
        "merge" => {
            let s0 = s0src.clone();
            d.body = format!("merge({s0}, {s1})\n    .emit(k: k, x: x)");
            d.nops = 1;
            d.subs = vec![s0.clone(), s1.clone()];
            d.refs = vec![s0.clone(), s1.clone()];
            d.prim = vec![s0.clone(), s1];
            d.stateless = true;
            d.rsrc = None;
        }
        "proc" => { d.body = format!("{s0}\n    .process(two())"); d.nops = 1; d.proc_ = true; d.stateless = true; }
        "proc1" => { d.body = format!("{s0}\n    .where(x > {c})\n    .process(one())"); d.nops = 2; d.proc_ = true; d.stateless = true; }
        "proc_emit" => { d.body = format!("{s0}\n    .process(two())\n    .emit(k: k, x: x)"); d.nops = 2; d.proc_ = true; d.stateless = true; }
        "distinct" => { d.body = format!("{s0}\n    .distinct(x)\n    .emit(k: k, x: x)"); d.nops = 2; }
        "limit" => { d.body = format!("{s0}\n    .limit({n})\n    .emit(k: k, x: x)"); d.nops = 2; }
        "select" => { d.body = format!("{s0}\n    .select(k: k, x: x * 2)"); d.nops = 1; d.stateless = true; }
        _ => unreachable!(),
    }
    d.subs = dedup(&d.subs);
    d.prim = dedup(&d.prim);
    d.refs = dedup(&d.refs);
    d.resolved = d.refs.iter().map(|r| decl_before.iter().any(|p| &p.name == r)).collect();
    if sp.alias && !kind.starts_with("seq") && kind != "join" && kind != "merge" {
        d.aliased = true;
        d.aliased_derived = decl_before.iter().any(|p| p.name == s0src);
    }
    d
}

fn render_prog(specs: &[Spec]) -> Prog {
    let mut streams: Vec<SDecl> = Vec::new();
    for sp in specs { let d = render(sp, &streams); streams.push(d); }
    Prog { streams }
}

/// does some stream (transitively) consume its own outputs? (a stream named like an event type it consumes counts)
fn cyclic(p: &Prog) -> bool {
    let names: Vec<&String> = p.streams.iter().map(|d| &d.name).collect();
    for start in &p.streams {
        let mut seen: Vec<&String> = Vec::new();
        let mut todo: Vec<&String> = start.subs.iter().chain(start.refs.iter()).filter(|r| names.contains(r)).collect();
        while let Some(n) = todo.pop() {
            if *n == start.name { return true; }
            if seen.contains(&n) { continue; }
            seen.push(n);
            for d in p.streams.iter().filter(|d| &d.name == n) {
                todo.extend(d.subs.iter().chain(d.refs.iter()).filter(|r| names.contains(r)));
            }
        }
    }
    false
}

/// sequences inside a cycle multiply their matches at every depth level (10 levels): in cyclic programs
/// they are replaced by filters, so that every run stays small
fn tame(specs: &mut Vec<Spec>) {
    if cyclic(&render_prog(specs)) {
        for sp in specs.iter_mut() { if sp.kind.starts_with("seq") { sp.kind = "femit".to_string(); } }
    }
}

fn dedup_usize(v: &[usize]) -> Vec<usize> {
    let mut out: Vec<usize> = Vec::new();
    for x in v { if !out.contains(x) { out.push(*x); } }
    out
}

fn dedup(v: &[String]) -> Vec<String> {
    let mut out: Vec<String> = Vec::new();
    for x in v { if !out.contains(x) { out.push(x.clone()); } }
    out
}

const NAME_POOL: &[&str] = &["S0", "S1", "S2", "S3", "S4", "Hot", "Alert", "Warm", "Notify", "Ack", "Zulu", "Beta", "Q", "Xy", "Later", "Cold", "Pairs", "Session", "Flt", "Agg9"];

fn pick_names(rng: &mut Rng, n: usize) -> Vec<String> {
    let mut pool: Vec<&str> = NAME_POOL.to_vec();
    (0..n).map(|_| pool.remove(rng.below(pool.len() as u64) as usize).to_string()).collect()
}

/// C23: a derived stream with a filter and a sequence / join stream that names it (the engine inlines
/// the derived stream's filter into the sequence and resolves its routes through it), in both
/// declaration orders, plus up to two unrelated streams; returns the index of the derived stream
fn gen_dependent_specs(rng: &mut Rng) -> (Vec<Spec>, usize) {
    let n_extra = rng.below(3) as usize;
    let names = pick_names(rng, 2 + n_extra);
    let inputs: Vec<String> = INPUT_TYPES.iter().map(|s| s.to_string()).collect();
    let t = inputs[rng.below(3) as usize].clone();
    let other = inputs[rng.below(3) as usize].clone();
    let dk = *rng.pick(&["filter", "femit", "femit", "proc1"]);
    let mut derived = gen_spec(rng, &names[0], &[t.clone()], Some(dk));
    derived.alias = rng.chance(1, 4);
    let dep_kind = *rng.pick(&["seq", "seq", "seq_noemit", "seq3", "seq_plain", "join"]);
    let mut dep = gen_spec(rng, &names[1], &[names[0].clone()], Some(dep_kind));
    // the derived stream at a random step, another type at the others
    let pos = rng.below(if dep_kind == "seq3" { 3 } else { 2 }) as usize;
    for (i, x) in dep.s.iter_mut().enumerate() { *x = if i == pos { names[0].clone() } else { other.clone() }; }
    if dep_kind == "join" && dep.s[0] == dep.s[1] { dep.s[1] = inputs.iter().find(|x| **x != dep.s[0]).unwrap().clone(); }
    let mut specs = if rng.chance(3, 4) { vec![derived, dep] } else { vec![dep, derived] };
    for i in 0..n_extra {
        let mut pool = inputs.clone();
        pool.push(names[0].clone());
        let sp = gen_spec(rng, &names[2 + i], &pool, None);
        let at = rng.below(specs.len() as u64 + 1) as usize;
        specs.insert(at, sp);
    }
    tame(&mut specs);
    let di = specs.iter().position(|s| s.name == names[0]).unwrap();
    (specs, di)
}

fn gen_specs(rng: &mut Rng) -> Vec<Spec> {
    let n = 1 + rng.below(5) as usize;
    // stream names from a pool (hash-map iteration orders of the engine vary with the names);
    // rarely a stream is named like an input type ("self-named types")
    let mut names: Vec<String> = pick_names(rng, n);
    if rng.chance(1, 12) { let i = rng.below(n as u64) as usize; names[i] = "C".to_string(); }
    let shape = rng.below(10); // 0..5 random dag, 6 chain, 7 diamond, 8 cyclic, 9 fan-out
    let mut specs: Vec<Spec> = Vec::new();
    for i in 0..n {
        let inputs: Vec<String> = INPUT_TYPES.iter().map(|s| s.to_string()).collect();
        let earlier: Vec<String> = names[..i].to_vec();
        let src: Vec<String> = match shape {
            6 if i > 0 => vec![names[i - 1].clone()],
            7 if i > 0 && i + 1 < n => vec![names[0].clone()],
            7 if i > 0 => { let mut v = names[1..i].to_vec(); if v.is_empty() { v = vec![names[0].clone()]; } v }
            8 => { let mut v = names.clone(); v.push(inputs[rng.below(3) as usize].clone()); v }
            9 => vec![inputs[0].clone()],
            _ => {
                let mut v = Vec::new();
                for _ in 0..3 {
                    if !earlier.is_empty() && rng.chance(2, 5) { v.push(earlier[rng.below(earlier.len() as u64) as usize].clone()); }
                    else { v.push(inputs[rng.below(3) as usize].clone()); }
                }
                if rng.chance(1, 15) { v.push(names[rng.below(n as u64) as usize].clone()); }
                v
            }
        };
        let hint = match shape { 7 if i > 0 && i + 1 == n && n > 2 => Some(*rng.pick(&["seq", "join", "merge", "seq3"])), _ => None };
        specs.push(gen_spec(rng, &names[i], &src, hint));
    }
    tame(&mut specs);
    specs
}

fn gen_prog(rng: &mut Rng, _thorough: bool) -> Prog { render_prog(&gen_specs(rng)) }

// ---------------------------------------------------------------------------------------------
// events and canonical forms
// ---------------------------------------------------------------------------------------------

fn base_ts() -> chrono::DateTime<chrono::Utc> {
    chrono::DateTime::parse_from_rfc3339("2020-01-01T00:00:00Z").unwrap().with_timezone(&chrono::Utc)
}

fn gen_events(rng: &mut Rng, n: usize) -> Vec<Event> {
    let mut t = 0i64;
    (0..n).map(|_| {
        t += *rng.pick(&[0i64, 1000, 1000, 1000, 2500, 6000, 1000, 2500, -1500, -3000, -6000]);
        if t < 0 { t = 0; }
        let ty = *rng.pick(INPUT_TYPES);
        Event::new_at(ty, base_ts() + chrono::Duration::milliseconds(t))
            .with_field("k", Value::Int(rng.range(0, 1)))
            .with_field("x", Value::Int(rng.range(-1, 4)))
    }).collect()
}

fn fmt_value(v: &Value) -> String {
    match v {
        Value::Float(f) => format!("f{:?}", f),
        Value::Str(s) => format!("'{}'", s),
        other => format!("{}", other),
    }
}

/// interning of type names and payloads, per scenario
#[derive(Default)]
struct Intern {
    types: Vec<String>,
    payloads: BTreeMap<String, usize>,
}
impl Intern {
    fn ty(&mut self, t: &str) -> usize {
        if let Some(i) = self.types.iter().position(|x| x == t) { return i; }
        self.types.push(t.to_string());
        self.types.len() - 1
    }
    /// payload = everything except the event type; wall-clock values are dropped
    fn payload(&mut self, e: &Event) -> usize {
        let ts = if e.timestamp < base_ts() + chrono::Duration::days(365) {
            format!("{}", (e.timestamp - base_ts()).num_milliseconds())
        } else { "now".to_string() };
        let mut fields: Vec<String> = e.data.iter()
            .filter(|(k, _)| &***k != "match_duration_ms")
            .map(|(k, v)| format!("{}={}", k, fmt_value(v))).collect();
        fields.sort();
        let s = format!("@{} {}", ts, fields.join(" "));
        let n = self.payloads.len();
        *self.payloads.entry(s).or_insert(n)
    }
    fn ev(&mut self, e: &Event) -> String {
        let t = self.ty(&e.event_type);
        let p = self.payload(e);
        format!("{}.{}", t, p)
    }
    fn evs<'a>(&mut self, es: impl Iterator<Item = &'a Event>) -> String {
        let v: Vec<String> = es.map(|e| self.ev(e)).collect();
        if v.is_empty() { "-".to_string() } else { v.join(",") }
    }
}

// ---------------------------------------------------------------------------------------------
// running the real engine
// ---------------------------------------------------------------------------------------------

#[derive(Clone, Copy, PartialEq, Debug)]
enum Path { Event, Batch, Sync, Shared }
impl Path {
    fn name(self) -> &'static str { match self { Path::Event => "event", Path::Batch => "batch", Path::Sync => "sync", Path::Shared => "shared" } }
}

struct Runner {
    rt: tokio::runtime::Runtime,
    /// verdicts of the late-data gate (a/d/s per external event) since the last `take_gate`
    gate: std::cell::RefCell<String>,
}

struct Live {
    engine: Engine,
    rx: mpsc::Receiver<Event>,
}

impl Runner {
    fn new() -> Self { Runner { rt: tokio::runtime::Builder::new_current_thread().build().unwrap(), gate: Default::default() } }

    #[allow(dead_code)]
    fn take_gate(&self) -> String { std::mem::take(&mut *self.gate.borrow_mut()) }

    fn load(&self, vpl: &str) -> Result<Live, String> {
        let program = varpulis_parser::parse(vpl).map_err(|e| format!("parse: {}", e))?;
        self.load_program(&program)
    }

    fn load_program(&self, program: &varpulis_core::ast::Program) -> Result<Live, String> {
        let (tx, rx) = timed("channel", || mpsc::channel(200_000));
        let mut engine = Engine::new(tx);
        timed("load", || engine.load(program)).map_err(|e| format!("load: {}", e))?;
        Ok(Live { engine, rx })
    }

    /// feed one chunk through the given entry point; returns (outputs, calls)
    fn feed(&self, live: &mut Live, path: Path, chunk: Vec<Event>) -> Result<(Vec<Event>, Vec<verif::StreamCall>), String> {
        verif::start();
        let r: Result<(), String> = timed("feed", || match path {
            Path::Event => {
                let mut r = Ok(());
                for e in chunk { r = self.rt.block_on(live.engine.process(e)); if r.is_err() { break; } }
                r
            }
            Path::Batch => self.rt.block_on(live.engine.process_batch(chunk)),
            Path::Sync => live.engine.process_batch_sync(chunk),
            Path::Shared => self.rt.block_on(live.engine.process_batch_shared(chunk.into_iter().map(Arc::new).collect())),
        });
        self.gate.borrow_mut().push_str(&verif::take_gate());
        let calls = verif::take();
        r?;
        let mut out = Vec::new();
        while let Ok(e) = live.rx.try_recv() { out.push(e); }
        Ok((out, calls))
    }
}

/// the events the late-data gate admitted (verdict `a`); all of them if the verdict string does not fit
fn admitted(events: &[Event], gate: &str) -> Vec<Event> {
    if gate.chars().count() != events.len() { return events.to_vec(); }
    events.iter().zip(gate.chars()).filter(|(_, g)| *g == 'a').map(|(e, _)| e.clone()).collect()
}

/// `.watermark` registrations of a program: (source, out-of-orderness), in declaration order
fn wm_sources(p: &Prog) -> Vec<(String, i64)> {
    p.streams.iter().filter_map(|d| d.wm.map(|(ooo, _)| (d.prim.first().cloned().unwrap_or_default(), ooo))).collect()
}

fn split_chunks(events: &[Event], sizes: &[usize]) -> Vec<Vec<Event>> {
    let mut out = Vec::new();
    let mut i = 0;
    for s in sizes { out.push(events[i..i + s].to_vec()); i += s; }
    out
}

fn gen_split(rng: &mut Rng, n: usize) -> Vec<usize> {
    match rng.below(4) {
        0 => vec![n],
        1 => vec![1; n],
        _ => {
            let mut v = Vec::new();
            let mut left = n;
            while left > 0 { let s = 1 + rng.below(left.min(4) as u64) as usize; v.push(s); left -= s; }
            v
        }
    }
}

fn fmt_sizes(s: &[usize]) -> String { if s.is_empty() { "-".into() } else { s.iter().map(|x| x.to_string()).collect::<Vec<_>>().join(",") } }

fn fmt_calls(it: &mut Intern, calls: &[verif::StreamCall]) -> String {
    if calls.is_empty() { return "-".into(); }
    calls.iter().map(|c| {
        let s = it.ty(&c.stream);
        format!("{}@{}:{}>{}|{}", s, c.depth, it.ev(&c.input), it.evs(c.outputs.iter().map(|e| &**e)), it.evs(c.emitted.iter().map(|e| &**e)))
    }).collect::<Vec<_>>().join(";")
}

/// per-stream lists of handed events, in declaration order of `names`
fn fmt_handed(it: &mut Intern, names: &[String], calls: &[verif::StreamCall]) -> String {
    names.iter().map(|n| {
        let id = it.ty(n);
        let evs: Vec<String> = calls.iter().filter(|c| &c.stream == n).map(|c| it.ev(&c.input)).collect();
        format!("{}:{}", id, if evs.is_empty() { "-".to_string() } else { evs.join(",") })
    }).collect::<Vec<_>>().join(" ")
}

fn emit_prog_lines(ctx: &mut Ctx, it: &mut Intern, word: &str, prog: &Prog) {
    for d in &prog.streams {
        let id = it.ty(&d.name);
        let subs: Vec<String> = d.subs.iter().map(|s| it.ty(s).to_string()).collect();
        let prim: Vec<String> = d.prim.iter().map(|s| it.ty(s).to_string()).collect();
        let l = |v: Vec<String>| if v.is_empty() { "-".to_string() } else { v.join(",") };
        // def = a fingerprint of the declaration text (what a structural comparison sees)
        let mut h: u64 = 1469598103934665603;
        for b in d.body.bytes() { h = (h ^ b as u64).wrapping_mul(1099511628211); }
        let refs: Vec<String> = d.refs.iter().map(|s| it.ty(s).to_string()).collect();
        ctx.directive(&format!("{} {} subs={} prim={} join={} proc={} nops={} def={} refs={} res={}", word, id, l(subs), l(prim), d.join as u8, d.proc_ as u8, d.nops, h % 1_000_000_007, l(refs), l(d.resolved.iter().map(|b| (*b as u8).to_string()).collect())));
    }
}

thread_local! { static TIMERS: std::cell::RefCell<BTreeMap<&'static str, f64>> = std::cell::RefCell::new(BTreeMap::new()); }
fn timed<T>(key: &'static str, f: impl FnOnce() -> T) -> T {
    let t = std::time::Instant::now();
    let r = f();
    TIMERS.with(|m| *m.borrow_mut().entry(key).or_insert(0.0) += t.elapsed().as_secs_f64());
    r
}
fn print_timers() { if std::env::var("VERIF_ROUTE_TIMERS").is_ok() { TIMERS.with(|m| eprintln!("timers: {:?}", m.borrow())); } }

fn debug() -> bool { std::env::var("VERIF_ROUTE_DEBUG").is_ok() }

/// one C16/C17 scenario
fn scenario_paths(ctx: &mut Ctx, runner: &Runner, sc: usize, prop: &str) {
    let thorough = ctx.thorough;
    let prog = gen_prog(&mut ctx.rng, thorough);
    let nev = 3 + ctx.rng.below(if thorough { 14 } else { 9 }) as usize;
    let events = gen_events(&mut ctx.rng, nev);
    let vpl = prog.vpl();
    if debug() { eprintln!("--- scenario {}\n{}", sc, vpl); }
    let mut it = Intern::default();
    for t in INPUT_TYPES { it.ty(t); }
    ctx.directive(&format!("new {} # {}", sc, prog.one_line()));
    emit_prog_lines(ctx, &mut it, "stream", &prog);
    for d in &prog.streams {
        ctx.count(&format!("kind:{}", d.kind));
        if d.aliased { ctx.count(if d.aliased_derived { "source:aliased-derived-stream-no-seq-ops" } else { "source:aliased-raw-type-no-seq-ops" }); }
    }
    ctx.count(&format!("streams:{}", prog.streams.len()));
    let names: Vec<String> = prog.streams.iter().map(|d| d.name.clone()).collect();
    // the router the engine built (C17: routing table, add_route dedup)
    let program = match varpulis_parser::parse(&vpl) {
        Ok(p) => p,
        Err(e) => { eprintln!("generator error: front end rejects a generated program: {}\n{}", e, vpl); std::process::exit(3); }
    };
    match runner.load_program(&program) {
        Ok(live) => {
            let routes = live.engine.verif_routes();
            let s = routes.iter().map(|(t, ss)| format!("{}:{}", it.ty(t), ss.iter().map(|x| it.ty(x).to_string()).collect::<Vec<_>>().join(","))).collect::<Vec<_>>();
            let mut s2 = s.clone(); s2.sort();
            if prop == "C17" { ctx.case("router", &if s2.is_empty() { "-".to_string() } else { s2.join(" ") }); }
        }
        Err(e) => { eprintln!("generator error: front end rejects a generated program: {}\n{}", e, vpl); std::process::exit(3); }
    }
    let inputs = it.evs(events.iter());
    let mut outs_by_path: Vec<(Path, String)> = Vec::new();
    let mut gate_by_path: Vec<(Path, String)> = Vec::new();
    let paths = [Path::Event, Path::Batch, Path::Sync, Path::Shared];
    for path in paths {
        let sizes = if path == Path::Event { vec![events.len()] } else { gen_split(&mut ctx.rng, events.len()) };
        let mut live = runner.load_program(&program).unwrap();
        let mut all_out: Vec<Event> = Vec::new();
        let mut all_calls: Vec<verif::StreamCall> = Vec::new();
        let mut failed = None;
        runner.take_gate();
        for chunk in split_chunks(&events, &sizes) {
            match crate::util::catch(std::panic::AssertUnwindSafe(|| runner.feed(&mut live, path, chunk))) {
                Ok(Ok((o, c))) => { all_out.extend(o); all_calls.extend(c); }
                Ok(Err(e)) => { failed = Some(format!("error:{}", e.replace('\n', " "))); break; }
                Err(_) => { failed = Some("panic".to_string()); break; }
            }
        }
        let outs = match &failed { Some(f) => f.clone(), None => it.evs(all_out.iter()) };
        if debug() {
            eprintln!("path {} split {:?}: {} outputs, {} calls", path.name(), sizes, all_out.len(), all_calls.len());
            for o in &all_out { eprintln!("   out {} {:?}", o.event_type, o.data); }
        }
        ctx.count(&format!("calls:{}", match all_calls.len() { 0 => "0", 1..=5 => "1-5", 6..=20 => "6-20", 21..=100 => "21-100", _ => ">100" }));
        if all_calls.iter().any(|c| c.depth >= 9) { ctx.count("depth-limit-reached"); }
        if all_calls.iter().any(|c| c.depth >= 1) { ctx.count("derived-routing"); }
        ctx.directive(&format!("trace {} {}", path.name(), fmt_calls(&mut it, &all_calls)));
        // the routing model is replayed on the events the late-data gate admitted (chunk by chunk)
        let gate = runner.take_gate();
        if gate.contains('d') { ctx.count("gate:run-with-dropped-late-events"); }
        let (adm_inputs, adm_sizes) = if gate.chars().count() == events.len() {
            let g: Vec<char> = gate.chars().collect();
            let mut i = 0;
            let mut szs = Vec::new();
            for sz in &sizes { szs.push(g[i..i + sz].iter().filter(|c| **c == 'a').count()); i += sz; }
            (it.evs(admitted(&events, &gate).iter()), szs)
        } else { (inputs.clone(), sizes.clone()) };
        gate_by_path.push((path, gate));
        let op_tail = format!("{} {} {}", path.name(), fmt_sizes(&adm_sizes), adm_inputs);
        if prop == "C17" {
            let handed = fmt_handed(&mut it, &names, &all_calls);
            ctx.case(&format!("handed {}", op_tail), &handed);
        } else {
            ctx.case(&format!("outs {}", op_tail), &outs);
        }
        outs_by_path.push((path, outs));
    }
    if prop == "C16" {
        let r = outs_by_path.iter().map(|(p, o)| format!("{}={}", p.name(), o)).collect::<Vec<_>>().join(" / ");
        ctx.case(&format!("agree {}", inputs), &r);
        // every entry point applies the same late-data gate: the verdicts per external event must be equal
        let g = gate_by_path.iter().map(|(p, o)| format!("{}={}", p.name(), if o.is_empty() { "-" } else { o.as_str() })).collect::<Vec<_>>().join(" / ");
        ctx.case(&format!("gate {}", inputs), &g);
        if !outs_by_path.iter().all(|(_, o)| o == "-") { ctx.count("agree:nonempty-output"); }
    }
}

// ---------------------------------------------------------------------------------------------
// C23: hot reload
// ---------------------------------------------------------------------------------------------

fn swap_group(kind: &str) -> Option<&'static [&'static str]> {
    const G1: &[&str] = &["filter", "select", "emit", "proc"];
    const G2: &[&str] = &["femit", "distinct", "limit", "proc_emit", "proc1"];
    const G3: &[&str] = &["cwin", "twin", "swin", "pwin"];
    [G1, G2, G3].into_iter().find(|g| g.contains(&kind))
}

/// one random edit of a program; returns the edit's name
fn edit_once(rng: &mut Rng, specs: &mut Vec<Spec>) -> &'static str {
    let n = specs.len();
    let i = rng.below(n as u64) as usize;
    match rng.below(11) {
        0 => { // threshold change (same operation count)
            let j = (0..n).map(|o| (i + o) % n).find(|&j| ["filter", "femit", "having", "seq3", "proc1"].contains(&specs[j].kind.as_str()));
            match j {
                Some(j) => { specs[j].c += if rng.chance(1, 2) { 1 } else { -1 }; "threshold" }
                None => { specs[i].d += 1; specs[i].corr = !specs[i].corr; specs[i].n += 1; "param" }
            }
        }
        1 => { // another operation, same operation count
            let j = (0..n).map(|o| (i + o) % n).find(|&j| swap_group(&specs[j].kind).is_some());
            match j {
                Some(j) => {
                    let g = swap_group(&specs[j].kind).unwrap();
                    let others: Vec<&&str> = g.iter().filter(|k| **k != specs[j].kind).collect();
                    specs[j].kind = others[rng.below(others.len() as u64) as usize].to_string();
                    "swap-op-same-count"
                }
                None => { specs[i].corr = !specs[i].corr; specs[i].c += 1; "param" }
            }
        }
        2 => { // added / removed step
            let pairs = [("filter", "femit"), ("femit", "filter"), ("emit", "femit"), ("cwin_noemit", "cwin"), ("cwin", "cwin_noemit"),
                ("seq_noemit", "seq"), ("seq", "seq_noemit"), ("cwin", "having"), ("having", "cwin"), ("pass", "filter"), ("filter", "pass")];
            let j = (0..n).map(|o| (i + o) % n).find(|&j| pairs.iter().any(|p| p.0 == specs[j].kind));
            match j {
                Some(j) => {
                    let opts: Vec<&(&str, &str)> = pairs.iter().filter(|p| p.0 == specs[j].kind).collect();
                    specs[j].kind = opts[rng.below(opts.len() as u64) as usize].1.to_string();
                    "add-remove-step"
                }
                None => { specs[i].c += 1; specs[i].d += 1; specs[i].n += 1; specs[i].corr = !specs[i].corr; "param" }
            }
        }
        3 => { // changed window
            let j = (0..n).map(|o| (i + o) % n).find(|&j| ["cwin", "cwin_noemit", "twin", "swin", "pwin", "having", "limit"].contains(&specs[j].kind.as_str()));
            match j {
                Some(j) => { specs[j].n += 1; "window" }
                None => { specs[i].c += 1; specs[i].d += 1; specs[i].corr = !specs[i].corr; "param" }
            }
        }
        4 => { // renamed stream (references follow or not)
            let old = specs[i].name.clone();
            let newn = { let used: Vec<&String> = specs.iter().map(|s| &s.name).collect(); NAME_POOL.iter().map(|x| x.to_string()).filter(|x| !used.contains(&x)).nth(rng.below(8) as usize).unwrap() };
            specs[i].name = newn.clone();
            if rng.chance(1, 2) {
                for sp in specs.iter_mut() { for x in sp.s.iter_mut() { if *x == old { *x = newn.clone(); } } }
                "rename-with-refs"
            } else { "rename" }
        }
        5 => { // another source
            let mut pool: Vec<String> = INPUT_TYPES.iter().map(|t| t.to_string()).collect();
            pool.extend(specs.iter().map(|s| s.name.clone()));
            let cur = specs[i].s[0].clone();
            let cands: Vec<String> = pool.into_iter().filter(|x| *x != cur && (specs[i].kind != "join" || *x != specs[i].s[1])).collect();
            specs[i].s[0] = cands[rng.below(cands.len() as u64) as usize].clone();
            "source"
        }
        6 => { // added stream
            let mut pool: Vec<String> = INPUT_TYPES.iter().map(|t| t.to_string()).collect();
            pool.extend(specs.iter().map(|s| s.name.clone()));
            let name = { let used: Vec<&String> = specs.iter().map(|s| &s.name).collect(); NAME_POOL.iter().map(|x| x.to_string()).filter(|x| !used.contains(&x)).nth(rng.below(8) as usize).unwrap() };
            let sp = gen_spec(rng, &name, &pool, None);
            let at = rng.below(n as u64 + 1) as usize;
            specs.insert(at, sp);
            "add-stream"
        }
        7 => { if n > 1 { specs.remove(i); "remove-stream" } else { specs[i].c += 1; specs[i].d += 1; specs[i].n += 1; specs[i].corr = !specs[i].corr; "param" } }
        9 | 10 => { // event-time settings of a stream: allowed lateness or out-of-orderness (same operation count)
            let j = (0..n).map(|o| (i + o) % n).find(|&j| specs[j].kind.starts_with("wm"));
            match j {
                Some(j) if rng.chance(1, 3) => { // the watermark stream reads another source: the old source is no longer declared
                    let mut pool: Vec<String> = INPUT_TYPES.iter().map(|t| t.to_string()).collect();
                    pool.extend(specs.iter().map(|s| s.name.clone()));
                    let cur = specs[j].s[0].clone();
                    let cands: Vec<String> = pool.into_iter().filter(|x| *x != cur).collect();
                    specs[j].s[0] = cands[rng.below(cands.len() as u64) as usize].clone();
                    "wm-source"
                }
                Some(j) if specs[j].kind == "wm" && rng.chance(2, 3) => { specs[j].d = if specs[j].d >= 2 { 0 } else { specs[j].d + 1 + rng.below(2) as i64 }; "wm-allowed-lateness" }
                Some(j) => { specs[j].n = if specs[j].n >= 4 { 2 } else { specs[j].n + 1 }; "wm-out-of-order" }
                None => { specs[i].kind = "wm".to_string(); "to-wm-stream" }
            }
        }
        _ => { // reordered declarations
            if n > 1 { let j = (i + 1) % n; specs.swap(i, j); "reorder" } else { specs[i].c += 1; specs[i].d += 1; specs[i].n += 1; specs[i].corr = !specs[i].corr; "param" }
        }
    }
}

fn fmt_results(it: &mut Intern, calls: &[&verif::StreamCall]) -> String {
    if calls.is_empty() { return "-".into(); }
    calls.iter().map(|c| format!("{}|{}", it.evs(c.outputs.iter().map(|e| &**e)), it.evs(c.emitted.iter().map(|e| &**e)))).collect::<Vec<_>>().join(";")
}

fn fmt_routes(it: &mut Intern, routes: &[(String, Vec<String>)]) -> String {
    let mut s: Vec<String> = routes.iter().map(|(t, ss)| format!("{}:{}", it.ty(t), ss.iter().map(|x| it.ty(x).to_string()).collect::<Vec<_>>().join(","))).collect();
    s.sort();
    if s.is_empty() { "-".to_string() } else { s.join(" ") }
}

fn scenario_reload(ctx: &mut Ctx, runner: &Runner, sc: usize) {
    // one scenario in four: a sequence / join stream over a derived stream, and an edit of that derived stream
    let dependent = ctx.rng.chance(1, 4);
    let (specs, di) = if dependent { gen_dependent_specs(&mut ctx.rng) } else { (gen_specs(&mut ctx.rng), 0) };
    // one scenario in ten: a watermark stream on an input type (with out-of-orderness) that reads another input
    // type after the reload - the new program no longer declares the old source
    let wmsrc = !dependent && ctx.rng.chance(1, 8);
    let mut specs = specs;
    if wmsrc {
        let i = ctx.rng.below(specs.len() as u64) as usize;
        specs[i].kind = "wm".to_string();
        specs[i].alias = ctx.rng.chance(1, 3);
        specs[i].s[0] = INPUT_TYPES[ctx.rng.below(3) as usize].to_string();
        specs[i].n = 3 + ctx.rng.below(2) as i64;
        specs[i].d = ctx.rng.below(2) as i64;
        tame(&mut specs);
    }
    let mut specs2 = specs.clone();
    let what: String = if wmsrc {
        let i = specs.iter().position(|s| s.kind == "wm").unwrap();
        let cur = specs[i].s[0].clone();
        let cands: Vec<&&str> = INPUT_TYPES.iter().filter(|t| **t != cur).collect();
        specs2[i].s[0] = cands[ctx.rng.below(cands.len() as u64) as usize].to_string();
        "wm-source-input-type".to_string()
    } else if dependent {
        match ctx.rng.below(8) {
            0 => "dep:same".to_string(),
            1 => { specs2[di].kind = (if specs2[di].kind == "filter" { "femit" } else { "filter" }).to_string(); "dep:add-remove-step".to_string() }
            2 => { specs2[di].alias = !specs2[di].alias; "dep:alias-toggled".to_string() }
            3 => { specs2.swap(0, 1); "dep:reorder".to_string() }
            _ => { specs2[di].c += if ctx.rng.chance(1, 2) { 1 } else { -1 }; "dep:threshold-of-referenced-stream".to_string() }
        }
    } else {
        match ctx.rng.below(10) {
            0 | 1 | 2 => "same".to_string(),
            3 => { let a = edit_once(&mut ctx.rng, &mut specs2); let b = edit_once(&mut ctx.rng, &mut specs2); format!("{}+{}", a, b) }
            _ => edit_once(&mut ctx.rng, &mut specs2).to_string(),
        }
    };
    tame(&mut specs2);
    let p1 = render_prog(&specs);
    let p2 = render_prog(&specs2);
    let (vpl1, vpl2) = (p1.vpl(), p2.vpl());
    let same = vpl1 == vpl2;
    ctx.count(&format!("edit:{}", if same { "same" } else { what.as_str() }));
    let nev = 3 + ctx.rng.below(if ctx.thorough { 10 } else { 7 }) as usize;
    let events = gen_events(&mut ctx.rng, nev);
    let path = *ctx.rng.pick(&[Path::Event, Path::Event, Path::Batch, Path::Sync]);
    let mut it = Intern::default();
    for t in INPUT_TYPES { it.ty(t); }
    ctx.directive(&format!("new {} # {} ==[{}]==> {}", sc, p1.one_line(), what, p2.one_line()));
    if std::env::var("VERIF_ROUTE_TIMERS").is_ok() { eprintln!("scenario {} # {} ==[{}]==> {} ({} events, path {})", sc, p1.one_line(), what, p2.one_line(), nev, path.name()); }
    emit_prog_lines(ctx, &mut it, "stream", &p1);
    emit_prog_lines(ctx, &mut it, "rstream", &p2);
    for d in &p2.streams {
        ctx.count(&format!("kind:{}", d.kind));
        if d.aliased { ctx.count(if d.aliased_derived { "source:aliased-derived-stream-no-seq-ops" } else { "source:aliased-raw-type-no-seq-ops" }); }
    }
    let program2 = match varpulis_parser::parse(&vpl2) {
        Ok(p) => p,
        Err(e) => { eprintln!("generator error: front end rejects a generated program: {}\n{}", e, vpl2); std::process::exit(3); }
    };
    let program1 = match varpulis_parser::parse(&vpl1) {
        Ok(p) => p,
        Err(e) => { eprintln!("generator error: front end rejects a generated program: {}\n{}", e, vpl1); std::process::exit(3); }
    };
    let inputs = it.evs(events.iter());
    let feed_all = |live: &mut Live, evs: &[Event]| -> (Vec<Event>, Vec<verif::StreamCall>) {
        if evs.is_empty() { return (vec![], vec![]); }
        match runner.feed(live, path, evs.to_vec()) { Ok(x) => x, Err(e) => { eprintln!("engine error {}", e); std::process::exit(3); } }
    };
    // the never-reloaded engine of P (reference for `same`) and the fresh engine of P' (reference for k = 0)
    let (never_out, never_calls) = { let mut l = runner.load_program(&program1).unwrap(); feed_all(&mut l, &events) };
    let never: Option<String> = if same { Some(it.evs(never_out.iter())) } else { None };
    // reload at every point of the sequence; programs whose derived events multiply (cycles with fan-out)
    // are reloaded at three points only
    let heavy = never_calls.len() > 150;
    if heavy { ctx.count("reload:heavy-scenario-3-points"); }
    let ks: Vec<usize> = if heavy { dedup_usize(&[0, events.len() / 2, events.len()]) } else { (0..=events.len()).collect() };
    for &k in &ks {
        let mut live = match runner.load_program(&program1) { Ok(l) => l, Err(e) => { eprintln!("generator error: {}\n{}", e, vpl1); std::process::exit(3); } };
        runner.take_gate();
        let (out_pre, calls_pre) = feed_all(&mut live, &events[..k]);
        let gate_pre = runner.take_gate();
        let rep = timed("reload", || live.engine.reload(&program2));
        let rep = match rep {
            Err(e) => { ctx.case(&format!("reload {} {}", k, inputs), &format!("error:{}", e.replace('\n', " "))); continue; }
            Ok(r) => r,
        };
        if dependent && k == 0 && !same {
            // the order in which reload's hash-set loop visited the derived stream and its dependent (both must occur)
            let dname = &specs[di].name;
            let pd = rep.streams_updated.iter().position(|n| n == dname);
            let pq = rep.streams_updated.iter().position(|n| n != dname && specs.iter().any(|s| &s.name == n && s.s.contains(dname)));
            match (pd, pq) {
                (Some(a), Some(b)) if a < b => ctx.count("dep-visit-order:referenced-stream-first"),
                (Some(_), Some(_)) => ctx.count("dep-visit-order:dependent-first"),
                _ => ctx.count("dep-visit-order:n/a"),
            }
        }
        let routes = live.engine.verif_routes();
        let (out_post, calls_post) = feed_all(&mut live, &events[k..]);
        let gate_post = runner.take_gate();
        if gate_pre.contains('d') || gate_post.contains('d') { ctx.count("gate:run-with-dropped-late-events"); }
        // the routing model replays the admitted events
        let adm_pre = admitted(&events[..k], &gate_pre);
        let adm_post = admitted(&events[k..], &gate_post);
        let k_adm = adm_pre.len();
        let inputs_adm = it.evs(adm_pre.iter().chain(adm_post.iter()));
        if k == 0 { ctx.case("rrouter", &fmt_routes(&mut it, &routes)); }
        ctx.directive(&format!("trace pre {}", fmt_calls(&mut it, &calls_pre)));
        ctx.directive(&format!("trace post {}", fmt_calls(&mut it, &calls_post)));
        let names2: Vec<String> = p2.streams.iter().map(|d| d.name.clone()).collect();
        let res = format!("{} | {} | {}", it.evs(out_pre.iter()), it.evs(out_post.iter()), fmt_handed(&mut it, &names2, &calls_post));
        ctx.case(&format!("reload {} {}", k_adm, inputs_adm), &res);
        if !calls_post.is_empty() { ctx.count("reload:post-activity"); }
        if let Some(nv) = &never {
            let all: Vec<Event> = out_pre.iter().chain(out_post.iter()).cloned().collect();
            ctx.case(&format!("same {} {}", k, inputs), &format!("{} / {}", it.evs(all.iter()), nv));
        }
        if k == 0 {
            let mut f = runner.load_program(&program2).unwrap();
            let (o, _) = feed_all(&mut f, &events);
            runner.take_gate();
            ctx.case(&format!("fresh0 {}", inputs), &format!("{} / {}", it.evs(out_post.iter()), it.evs(o.iter())));
        }
        // the late-data gate after the reload: the event-time settings of P' apply (as in a fresh engine of P'
        // that saw the same events); comparable when the reload happens before any event, or when the
        // watermark registrations (source, out-of-orderness) of P and P' are the same
        if (k == 0 || wm_sources(&p1) == wm_sources(&p2)) && (!wm_sources(&p1).is_empty() || !wm_sources(&p2).is_empty()) {
            let mut f = runner.load_program(&program2).unwrap();
            let _ = feed_all(&mut f, &events[..k]);
            let ref_pre = runner.take_gate();
            let _ = feed_all(&mut f, &events[k..]);
            let ref_gate = runner.take_gate();
            let dash = |g: &String| if g.is_empty() { "-".to_string() } else { g.clone() };
            // the trackers have seen the same events only if the same events were admitted before the reload
            // (a dropped event is not observed; a source's first observation can lower the effective watermark)
            if ref_pre == gate_pre {
                ctx.case(&format!("gatepost {} {}", k, inputs), &format!("{} / {}", dash(&gate_post), dash(&ref_gate)));
                if gate_post.contains('d') || ref_gate.contains('d') { ctx.count("gatepost:with-dropped-events"); }
            } else { ctx.count("gatepost:not-comparable-different-admissions-before-reload"); }
        }
        // every stream of P' in isolation: the same stream of a FRESH engine of P' is handed (directly, through
        // the verif_invoke_stream hook: no routing, no cascade) exactly the events the real stream was handed -
        // before and after the reload if the stream is unchanged, after the reload if it is new or changed
        // (also when only a stream it refers to changed) - and must answer the same
        let routes2 = live.engine.verif_routes();
        for d2 in &p2.streams {
            // unchanged: same declaration, same registrations, and no stream it refers to was edited, added or removed
            let decl_changed = |n: &String| -> bool {
                match (p1.streams.iter().rev().find(|d| &d.name == n), p2.streams.iter().rev().find(|d| &d.name == n)) {
                    (Some(a), Some(b)) => a.body != b.body,
                    (None, None) => false,
                    _ => true,
                }
            };
            let unchanged = p1.streams.iter().any(|d1| d1.name == d2.name && d1.body == d2.body && d1.subs == d2.subs && d1.resolved == d2.resolved)
                && !d2.refs.iter().any(|n| decl_changed(n));
            let post: Vec<&verif::StreamCall> = calls_post.iter().filter(|c| c.stream == d2.name).collect();
            if post.is_empty() { continue; }
            let mut fed: Vec<Event> = Vec::new();
            if unchanged { fed.extend(calls_pre.iter().filter(|c| c.stream == d2.name).map(|c| (*c.input).clone())); }
            let npre = fed.len();
            fed.extend(post.iter().map(|c| (*c.input).clone()));
            if fed.len() > 400 { ctx.count("iso:omitted-long-input"); continue; }
            let sync_skip = if path == Path::Sync { Some(!d2.proc_ && !routes2.iter().any(|(t, _)| t == &d2.name)) } else { None };
            let mut f = runner.load_program(&program2).unwrap();
            let mut ref_results: Vec<String> = Vec::new();
            let mut ok = true;
            for e in &fed {
                match runner.rt.block_on(f.engine.verif_invoke_stream(&d2.name, Arc::new(e.clone()), sync_skip)) {
                    Ok(Some((outs, em))) => ref_results.push(format!("{}|{}", it.evs(outs.iter().map(|e| &**e)), it.evs(em.iter().map(|e| &**e)))),
                    _ => { ok = false; break; }
                }
            }
            let sid = it.ty(&d2.name);
            let op = format!("iso {} {} changed={}", k, sid, (!unchanged) as u8);
            if !ok { ctx.case(&op, "skip"); ctx.count("iso:skipped"); continue; }
            ctx.count(if unchanged { "iso:unchanged" } else { "iso:changed" });
            if !unchanged && !d2.refs.is_empty() && p1.streams.iter().any(|d1| d1.name == d2.name && d1.body == d2.body) { ctx.count("iso:changed-only-through-a-referenced-stream"); }
            let r = fmt_results(&mut it, &post);
            let q = if ref_results[npre..].is_empty() { "-".to_string() } else { ref_results[npre..].join(";") };
            ctx.case(&op, &format!("{} / {}", r, q));
        }
    }
}

pub fn run(ctx: &mut Ctx, name: &str) {
    let runner = Runner::new();
    match name {
        "C16" | "C17" => {
            let n = if ctx.thorough { 12000 } else { 1000 };
            for sc in 0..n { scenario_paths(ctx, &runner, sc, name); }
        }
        "C23" => {
            let n = if ctx.thorough { 10000 } else { 900 };
            for sc in 0..n {
                let t = std::time::Instant::now();
                scenario_reload(ctx, &runner, sc);
                if std::env::var("VERIF_ROUTE_TIMERS").is_ok() && t.elapsed().as_secs_f64() > 1.0 { eprintln!("slow scenario {}: {:.1}s", sc, t.elapsed().as_secs_f64()); }
            }
        }
        _ => {}
    }
    print_timers();
}
