//! C15: `JoinBuffer` (add_event / try_correlate / cleanup_expired / with_max_events) driven directly,
//! and join programs through `varpulis_parser::parse` + `Engine::load` + `Engine::process`.
//! Every event carries a unique `id`; the joined output is identified by the ids it took from each
//! source (`<source>.eid`) and its timestamp; the buffer sizes per source come from `stats()`.
use crate::util::Ctx;
use chrono::{DateTime, Duration, Utc};
use varpulis_core::Value;
use varpulis_runtime::join::JoinBuffer;
use varpulis_runtime::{Engine, Event};

pub const NAMES: &[&str] = &["C15"];

/// `JoinBuffer::new` wants an `FxHashMap` (rustc-hash is not a direct dependency of the harness):
/// build the map generically and let the parameter type of `new` pick the concrete type.
fn mk_map<M: Default + Extend<(String, String)>>(items: Vec<(String, String)>) -> M {
    let mut m = M::default();
    m.extend(items);
    m
}

const BASE_MS: i64 = 1_700_000_000_000;
fn at(ms: i64) -> DateTime<Utc> { DateTime::from_timestamp_millis(BASE_MS + ms).expect("ts") }
const SRC: [&str; 3] = ["A", "B", "C"];

fn int_of(v: Option<&Value>) -> String {
    match v { Some(Value::Int(i)) => i.to_string(), Some(o) => format!("?{}", o), None => "?".into() }
}

struct Clock { now: i64 }
impl Clock {
    /// mostly advancing, sometimes late by less / more than a window, sometimes far ahead
    fn next(&mut self, ctx: &mut Ctx, win: i64) -> i64 {
        let r = ctx.rng.below(100);
        let unit = (win / 10).max(5);
        if r < 50 { self.now += ctx.rng.range(0, 6) * unit; self.now }
        else if r < 62 { self.now += ctx.rng.range(0, 3) * unit / 4; self.now }              // inside the GC interval
        else if r < 80 { (self.now - ctx.rng.range(1, 9) * unit).max(0) }                      // late, within a window
        else if r < 90 { (self.now - win - ctx.rng.range(0, 6) * unit).max(0) }               // late by more than a window
        else if r < 96 { self.now += win + ctx.rng.range(0, 5) * unit; self.now }             // jump by more than a window
        else { ctx.rng.range(0, self.now / unit + 2) * unit }
    }
}

fn gen_window(ctx: &mut Ctx) -> i64 {
    let r = ctx.rng.below(20);
    if r == 0 { 50 } else if r == 1 { 30_000 } else { ctx.rng.range(1, 5) * 1000 }
}

fn buffer_scenario(ctx: &mut Ctx, len: usize) {
    let nsrc = ctx.rng.range(2, 3) as usize;
    let win = gen_window(ctx);
    let max = if ctx.rng.chance(2, 5) { ctx.rng.range(1, 3) as usize } else { 1000 };
    let nkeys = ctx.rng.range(1, 3) as u64;
    let explicit = ctx.rng.chance(2, 3);
    let keyfield = if explicit { "k" } else { "key" };
    let distinct_types = ctx.rng.chance(1, 2);
    let sources: Vec<String> = SRC[..nsrc].iter().map(|s| s.to_string()).collect();
    let join_keys: Vec<(String, String)> = if explicit { sources.iter().map(|s| (s.clone(), keyfield.to_string())).collect() } else { Vec::new() };
    let mut jb = JoinBuffer::new(sources.clone(), mk_map(join_keys), Duration::milliseconds(win));
    if max != 1000 { jb = jb.with_max_events(max); ctx.count("buffer.with_max_events"); }
    ctx.directive(&format!("new join src={} win={} max={}", (0..nsrc).map(|i| i.to_string()).collect::<Vec<_>>().join(","), win, max));
    ctx.count(&format!("buffer.sources.{}", nsrc));
    let mut clock = Clock { now: 0 };
    for id in 0..len {
        let unknown = ctx.rng.chance(1, 40);
        let si = if unknown { 9 } else { ctx.rng.below(nsrc as u64) as usize };
        let sname = if unknown { "Z".to_string() } else { sources[si].clone() };
        let key: Option<u64> = if ctx.rng.chance(1, 25) { None } else { Some(ctx.rng.below(nkeys)) };
        let ts = clock.next(ctx, win);
        let et = if distinct_types { format!("Ev{}", sname) } else { sname.clone() };
        let mut ev = Event::new(et).with_timestamp(at(ts)).with_field("eid", id as i64).with_field(format!("f{}", sname), id as i64);
        if let Some(k) = key { ev = ev.with_field(keyfield, format!("k{}", k)); }
        let res = jb.add_event(&sname, ev);
        let r = match &res {
            None => { ctx.count("buffer.none"); "none".to_string() }
            Some(j) => {
                ctx.count("buffer.join");
                let ids: Vec<String> = sources.iter().map(|s| int_of(j.data.get(format!("{}.eid", s).as_str()))).collect();
                let mut s = format!("join ts={} ids={}", j.timestamp.timestamp_millis() - BASE_MS, ids.join(","));
                if int_of(j.data.get("eid")) != ids[0] { s.push_str(" BARE-ID-NOT-FIRST-SOURCE"); }
                if &*j.event_type != "JoinedEvent" { s.push_str(" TYPE?"); }
                s
            }
        };
        let st = jb.stats();
        let n: Vec<String> = sources.iter().map(|s| st.events_per_source.get(s).copied().unwrap_or(0).to_string()).collect();
        // an unknown source has no entry in `join_keys`: the key field is then looked up among the
        // common names (symbol, key, id, user_id, order_id) — `k` is not one of them
        let eff_key = if unknown && explicit { None } else { key };
        if unknown { ctx.count(if eff_key.is_some() { "buffer.unknown-source.keyed" } else { "buffer.unknown-source.no-key" }); }
        if key.is_none() { ctx.count("buffer.missing-key-field"); }
        ctx.case(&format!("add {} {} {} {}", si, eff_key.map(|k| k.to_string()).unwrap_or("-".into()), ts, id),
                 &format!("{} n={}", r, n.join(",")));
    }
}

/// cap stress: small caps (2..4) on a hot (source, key) that overflows many times, with arrivals whose
/// old timestamps lie outside the window of the current time in between, so that `try_correlate` has
/// to skip the newest buffered entries and the *order* of the survivors of the cap matters
fn cap_scenario(ctx: &mut Ctx, len: usize) {
    let nsrc = ctx.rng.range(2, 3) as usize;
    let win = ctx.rng.range(2, 6) * 1000;
    let max = ctx.rng.range(2, 4) as usize;
    let nkeys = ctx.rng.range(1, 2) as u64;
    let sources: Vec<String> = SRC[..nsrc].iter().map(|s| s.to_string()).collect();
    let join_keys: Vec<(String, String)> = sources.iter().map(|s| (s.clone(), "k".to_string())).collect();
    let mut jb = JoinBuffer::new(sources.clone(), mk_map(join_keys), Duration::milliseconds(win)).with_max_events(max);
    ctx.directive(&format!("new join src={} win={} max={}", (0..nsrc).map(|i| i.to_string()).collect::<Vec<_>>().join(","), win, max));
    ctx.count(&format!("cap.scenarios.max{}", max));
    let hot = ctx.rng.below(nsrc as u64) as usize;
    let unit = win / 20;
    let mut now: i64 = win * 2;
    let mut pushed = vec![vec![0usize; nkeys as usize]; nsrc];
    for id in 0..len {
        let si = if ctx.rng.chance(7, 10) { hot } else { ctx.rng.below(nsrc as u64) as usize };
        let key = ctx.rng.below(nkeys);
        let r = ctx.rng.below(100);
        let ts = if r < 45 { now += ctx.rng.range(0, 3) * unit; now }                          // in order, well inside the window
            else if r < 80 { ctx.count("cap.old-arrival"); (now - win - ctx.rng.range(1, 12) * unit).max(0) } // older than a window
            else { (now - ctx.rng.range(1, 15) * unit).max(0) };                                   // late but inside the window
        pushed[si][key as usize] += 1;
        if pushed[si][key as usize] > max { ctx.count("cap.push-beyond-cap"); }
        let ev = Event::new(sources[si].clone()).with_timestamp(at(ts)).with_field("eid", id as i64)
            .with_field(format!("f{}", sources[si]), id as i64).with_field("k", format!("k{}", key));
        let res = jb.add_event(&sources[si], ev);
        let r = match &res {
            None => { ctx.count("cap.none"); "none".to_string() }
            Some(j) => {
                ctx.count("cap.join");
                let ids: Vec<String> = sources.iter().map(|s| int_of(j.data.get(format!("{}.eid", s).as_str()))).collect();
                let mut s = format!("join ts={} ids={}", j.timestamp.timestamp_millis() - BASE_MS, ids.join(","));
                if int_of(j.data.get("eid")) != ids[0] { s.push_str(" BARE-ID-NOT-FIRST-SOURCE"); }
                s
            }
        };
        let st = jb.stats();
        let n: Vec<String> = sources.iter().map(|s| st.events_per_source.get(s).copied().unwrap_or(0).to_string()).collect();
        ctx.case(&format!("add {} {} {} {}", si, key, ts, id), &format!("{} n={}", r, n.join(",")));
    }
}

fn program(nsrc: usize, win: i64, via_streams: bool) -> String {
    let mut p = String::new();
    for s in &SRC[..nsrc] { p.push_str(&format!("event E{}:\n    k: str\n    eid: int\n\n", s)); }
    let names: Vec<String> = SRC[..nsrc].iter().map(|s| if via_streams { s.to_string() } else { format!("E{}", s) }).collect();
    if via_streams { for s in &SRC[..nsrc] { p.push_str(&format!("stream {} = E{}\n\n", s, s)); } }
    let on: Vec<String> = (1..nsrc).map(|i| format!("{}.k == {}.k", names[i - 1], names[i])).collect();
    let emit: Vec<String> = (0..nsrc).map(|i| format!("i{}: {}.eid", i, names[i])).collect();
    let w = if win % 1000 == 0 { format!("{}s", win / 1000) } else { format!("{}ms", win) };
    p.push_str(&format!("stream J = join({})\n    .on({})\n    .window({})\n    .emit({})\n", names.join(", "), on.join(" and "), w, emit.join(", ")));
    p
}

fn engine_scenario(ctx: &mut Ctx, rt: &tokio::runtime::Runtime, len: usize) {
    let nsrc = ctx.rng.range(2, 3) as usize;
    let win = gen_window(ctx);
    let nkeys = ctx.rng.range(1, 3) as u64;
    let via_streams = ctx.rng.chance(1, 2);
    let src = program(nsrc, win, via_streams);
    let prog = match varpulis_parser::parse(&src) {
        Ok(p) => p,
        Err(e) => { eprintln!("generator error: program does not parse: {e:?}\n{src}"); std::process::exit(3); }
    };
    let (tx, mut rx) = tokio::sync::mpsc::channel::<Event>(4096);
    let mut engine = Engine::new(tx);
    if let Err(e) = engine.load(&prog) { eprintln!("generator error: load failed: {e}\n{src}"); std::process::exit(3); }
    ctx.directive(&format!("new join src={} win={} max=1000 nostats", (0..nsrc).map(|i| i.to_string()).collect::<Vec<_>>().join(","), win));
    ctx.count(if via_streams { "engine.join-of-streams" } else { "engine.join-of-event-types" });
    ctx.count(&format!("engine.sources.{}", nsrc));
    let mut clock = Clock { now: 0 };
    for id in 0..len {
        let si = ctx.rng.below(nsrc as u64) as usize;
        let key: Option<u64> = if ctx.rng.chance(1, 25) { None } else { Some(ctx.rng.below(nkeys)) };
        let ts = clock.next(ctx, win);
        let mut ev = Event::new(format!("E{}", SRC[si])).with_timestamp(at(ts)).with_field("eid", id as i64);
        if let Some(k) = key { ev = ev.with_field("k", format!("k{}", k)); }
        let res = rt.block_on(engine.process(ev));
        let mut outs: Vec<Event> = Vec::new();
        while let Ok(o) = rx.try_recv() { if &*o.event_type == "J" { outs.push(o); } }
        let mut r = match outs.len() {
            0 => { ctx.count("engine.none"); "none".to_string() }
            1 => {
                ctx.count("engine.join");
                let j = &outs[0];
                let ids: Vec<String> = (0..nsrc).map(|i| int_of(j.data.get(format!("i{}", i).as_str()))).collect();
                format!("join ts={} ids={}", j.timestamp.timestamp_millis() - BASE_MS, ids.join(","))
            }
            n => format!("MULTI {}", n),
        };
        if res.is_err() { r.push_str(" ERR"); }
        ctx.case(&format!("add {} {} {} {}", si, key.map(|k| k.to_string()).unwrap_or("-".into()), ts, id), &r);
    }
}

pub fn run(ctx: &mut Ctx, _name: &str) {
    let rt = tokio::runtime::Builder::new_current_thread().enable_all().build().expect("rt");
    // the documented witnesses first (window 10 s): out-of-order arrivals / cap eviction
    witness(ctx);
    let (nb, ne) = if ctx.thorough { (3000, 1000) } else { (300, 100) };
    for _ in 0..nb { let len = ctx.rng.range(4, 30) as usize; buffer_scenario(ctx, len); }
    for _ in 0..nb / 2 { let len = ctx.rng.range(10, 40) as usize; cap_scenario(ctx, len); }
    for _ in 0..ne { let len = ctx.rng.range(4, 30) as usize; engine_scenario(ctx, &rt, len); }
}

fn witness(ctx: &mut Ctx) {
    let run = |ctx: &mut Ctx, win: i64, max: usize, evs: &[(usize, i64)]| {
        let sources = vec!["A".to_string(), "B".to_string()];
        let jk: Vec<(String, String)> = sources.iter().map(|s| (s.clone(), "k".to_string())).collect();
        let mut jb = JoinBuffer::new(sources.clone(), mk_map(jk), Duration::milliseconds(win));
        if max != 1000 { jb = jb.with_max_events(max); }
        ctx.directive(&format!("new join src=0,1 win={} max={}", win, max));
        for (id, (si, ts)) in evs.iter().enumerate() {
            let ev = Event::new(sources[*si].clone()).with_timestamp(at(*ts)).with_field("eid", id as i64).with_field("k", "x");
            let res = jb.add_event(&sources[*si], ev);
            let r = match &res {
                None => "none".to_string(),
                Some(j) => format!("join ts={} ids={},{}", j.timestamp.timestamp_millis() - BASE_MS, int_of(j.data.get("A.eid")), int_of(j.data.get("B.eid"))),
            };
            let st = jb.stats();
            let n: Vec<String> = sources.iter().map(|s| st.events_per_source.get(s).copied().unwrap_or(0).to_string()).collect();
            ctx.case(&format!("add {} 0 {} {}", si, ts, id), &format!("{} n={}", r, n.join(",")));
        }
    };
    run(ctx, 10_000, 1000, &[(0, 90_000), (0, 105_000), (0, 91_000), (1, 101_000), (1, 112_000)]);
    run(ctx, 10_000, 2, &[(0, 108_000), (0, 95_000), (0, 96_000), (1, 110_000)]);
    // cap 3 overflowed twice, the second time by an old-timestamp arrival: B@14 must take A@13 (id 3),
    // the most recently arrived in-window A — which A survives the cap, and in which order, matters
    run(ctx, 5_000, 3, &[(0, 10_000), (0, 11_000), (0, 12_000), (0, 13_000), (0, 1_000), (1, 14_000)]);
}
