//! C19/C20: checkpoints survive serialisation (C20); checkpoint + restore are invisible (C19).
//!
//! Tree text (shared with lean/Varpulis/Driver/Ckpt.lean), tokens separated by one blank:
//!   n | T | F | i<int> | d<16 hex digits: f64 bits, every NaN printed as 7ff8000000000000>
//!   "<raw> (non-empty, [A-Za-z0-9_.:-] only) | x<hex of the UTF-8 bytes> | [ t* ] | { key t ... }
//! Objects that come from a struct or a hash map are printed with sorted keys on both sides.
use crate::util::{catch, Ctx, Rng};
use std::collections::HashMap;
use varpulis_core::Value;
use varpulis_runtime::codec::{self, CheckpointFormat};
use varpulis_runtime::event::Event;
use varpulis_runtime::persistence::*;

pub const NAMES: &[&str] = &["C19", "C20", "ckpt"];

// ---------------------------------------------------------------------------------------------
// trees
// ---------------------------------------------------------------------------------------------
#[derive(Clone, Debug, PartialEq)]
pub enum Tree { Null, Bool(bool), Int(i128), F(u64), Str(String), Arr(Vec<Tree>), Obj(Vec<(String, Tree)>) }

fn str_tok(s: &str) -> String {
    if !s.is_empty() && s.chars().all(|c| c.is_ascii_alphanumeric() || "_.:-".contains(c)) {
        format!("\"{}", s)
    } else {
        let mut o = String::from("x");
        for b in s.as_bytes() { o.push_str(&format!("{:02x}", b)); }
        o
    }
}

fn canon_bits(b: u64) -> u64 { if f64::from_bits(b).is_nan() { 0x7ff8000000000000 } else { b } }

impl Tree {
    fn write(&self, o: &mut String) {
        match self {
            Tree::Null => o.push('n'),
            Tree::Bool(true) => o.push('T'),
            Tree::Bool(false) => o.push('F'),
            Tree::Int(i) => o.push_str(&format!("i{}", i)),
            Tree::F(b) => o.push_str(&format!("d{:016x}", canon_bits(*b))),
            Tree::Str(s) => o.push_str(&str_tok(s)),
            Tree::Arr(l) => { o.push('['); for t in l { o.push(' '); t.write(o); } o.push_str(" ]"); }
            Tree::Obj(l) => {
                let mut l: Vec<&(String, Tree)> = l.iter().collect();
                l.sort_by(|a, b| a.0.as_bytes().cmp(b.0.as_bytes()));
                o.push('{');
                for (k, t) in l { o.push(' '); o.push_str(&str_tok(k)); o.push(' '); t.write(o); }
                o.push_str(" }");
            }
        }
    }
    pub fn text(&self) -> String { let mut o = String::new(); self.write(&mut o); o }
}

fn obj(l: Vec<(&str, Tree)>) -> Tree { Tree::Obj(l.into_iter().map(|(k, v)| (k.to_string(), v)).collect()) }
fn opt_i(o: Option<i64>) -> Tree { o.map(|i| Tree::Int(i as i128)).unwrap_or(Tree::Null) }
fn map_t<V>(m: &HashMap<String, V>, f: impl Fn(&V) -> Tree) -> Tree { Tree::Obj(m.iter().map(|(k, v)| (k.clone(), f(v))).collect()) }

fn t_json(v: &serde_json::Value) -> Tree {
    match v {
        serde_json::Value::Null => Tree::Null,
        serde_json::Value::Bool(b) => Tree::Bool(*b),
        serde_json::Value::Number(n) => {
            if let Some(i) = n.as_i64() { Tree::Int(i as i128) }
            else if let Some(u) = n.as_u64() { Tree::Int(u as i128) }
            else { Tree::F(n.as_f64().unwrap().to_bits()) }
        }
        serde_json::Value::String(s) => Tree::Str(s.clone()),
        serde_json::Value::Array(a) => Tree::Arr(a.iter().map(t_json).collect()),
        serde_json::Value::Object(m) => Tree::Obj(m.iter().map(|(k, v)| (k.clone(), t_json(v))).collect()),
    }
}

// --- lossless walkers: the shape serde gives these types, floats by bit pattern ----------------
fn t_sv(v: &SerializableValue) -> Tree {
    match v {
        SerializableValue::Int(i) => obj(vec![("Int", Tree::Int(*i as i128))]),
        SerializableValue::Float(f) => obj(vec![("Float", Tree::F(f.to_bits()))]),
        SerializableValue::Bool(b) => obj(vec![("Bool", Tree::Bool(*b))]),
        SerializableValue::String(s) => obj(vec![("String", Tree::Str(s.clone()))]),
        SerializableValue::Null => Tree::Str("Null".into()),
        SerializableValue::Timestamp(i) => obj(vec![("Timestamp", Tree::Int(*i as i128))]),
        SerializableValue::Duration(u) => obj(vec![("Duration", Tree::Int(*u as i128))]),
        SerializableValue::Array(a) => obj(vec![("Array", Tree::Arr(a.iter().map(t_sv).collect()))]),
        SerializableValue::Map(m) => obj(vec![("Map", Tree::Arr(m.iter().map(|(k, v)| Tree::Arr(vec![Tree::Str(k.clone()), t_sv(v)])).collect()))]),
    }
}
fn t_value(v: &Value) -> Tree {
    match v {
        Value::Int(i) => obj(vec![("Int", Tree::Int(*i as i128))]),
        Value::Float(f) => obj(vec![("Float", Tree::F(f.to_bits()))]),
        Value::Bool(b) => obj(vec![("Bool", Tree::Bool(*b))]),
        Value::Str(s) => obj(vec![("String", Tree::Str(s.to_string()))]),
        Value::Null => Tree::Str("Null".into()),
        Value::Timestamp(i) => obj(vec![("Timestamp", Tree::Int(*i as i128))]),
        Value::Duration(u) => obj(vec![("Duration", Tree::Int(*u as i128))]),
        Value::Array(a) => obj(vec![("Array", Tree::Arr(a.iter().map(t_value).collect()))]),
        Value::Map(m) => obj(vec![("Map", Tree::Arr(m.iter().map(|(k, v)| Tree::Arr(vec![Tree::Str(k.to_string()), t_value(v)])).collect()))]),
    }
}
/// a runtime event: type, timestamp in ns, fields (sorted by name: the order of the fields is not compared)
pub fn t_event(e: &Event) -> Tree {
    obj(vec![
        ("event_type", Tree::Str(e.event_type.to_string())),
        // nanoseconds since the epoch, in i128: a timestamp floored to the millisecond can leave the i64 range
        ("ts", Tree::Int(e.timestamp.timestamp_millis() as i128 * 1_000_000 + (e.timestamp.timestamp_subsec_nanos() % 1_000_000) as i128)),
        ("data", Tree::Obj(e.data.iter().map(|(k, v)| (k.to_string(), t_value(v))).collect())),
    ])
}
fn t_sev(e: &SerializableEvent) -> Tree {
    obj(vec![
        ("event_type", Tree::Str(e.event_type.clone())),
        ("timestamp_ms", Tree::Int(e.timestamp_ms as i128)),
        ("fields", map_t(&e.fields, t_sv)),
    ])
}
fn t_sevs(l: &[SerializableEvent]) -> Tree { Tree::Arr(l.iter().map(t_sev).collect()) }
fn t_pwc(p: &PartitionedWindowCheckpoint) -> Tree {
    obj(vec![("events", t_sevs(&p.events)), ("window_start_ms", opt_i(p.window_start_ms)),
        ("events_since_emit", p.events_since_emit.map(|n| Tree::Int(n as i128)).unwrap_or(Tree::Null)),
        ("window_start_subms_ns", Tree::Int(p.window_start_subms_ns as i128))])
}
fn t_wc(w: &WindowCheckpoint) -> Tree {
    obj(vec![
        ("events", t_sevs(&w.events)), ("window_start_ms", opt_i(w.window_start_ms)),
        ("last_emit_ms", opt_i(w.last_emit_ms)), ("partitions", map_t(&w.partitions, t_pwc)),
    ])
}
fn t_run(r: &RunCheckpoint) -> Tree {
    obj(vec![
        ("current_state", Tree::Int(r.current_state as i128)),
        ("stack", Tree::Arr(r.stack.iter().map(|s| obj(vec![
            ("event", t_sev(&s.event)),
            ("alias", s.alias.as_ref().map(|a| Tree::Str(a.clone())).unwrap_or(Tree::Null))])).collect())),
        ("captured", map_t(&r.captured, t_sev)),
        ("event_time_started_at_ms", opt_i(r.event_time_started_at_ms)),
        ("event_time_deadline_ms", opt_i(r.event_time_deadline_ms)),
        ("partition_key", r.partition_key.as_ref().map(t_sv).unwrap_or(Tree::Null)),
        ("invalidated", Tree::Bool(r.invalidated)),
        ("pending_negation_count", Tree::Int(r.pending_negation_count as i128)),
        ("kleene_events", r.kleene_events.as_ref().map(|l| t_sevs(l)).unwrap_or(Tree::Null)),
        ("and_branches", r.and_branches.as_ref().map(|l| Tree::Arr(l.iter().map(|(i, e)| Tree::Arr(vec![Tree::Int(*i as i128), t_sev(e)])).collect())).unwrap_or(Tree::Null)),
        ("event_time_started_at_subms_ns", Tree::Int(r.event_time_started_at_subms_ns as i128)),
        ("event_time_deadline_subms_ns", Tree::Int(r.event_time_deadline_subms_ns as i128)),
    ])
}
fn t_sase(s: &SaseCheckpoint) -> Tree {
    obj(vec![
        ("active_runs", Tree::Arr(s.active_runs.iter().map(t_run).collect())),
        ("partitioned_runs", map_t(&s.partitioned_runs, |l| Tree::Arr(l.iter().map(t_run).collect()))),
        ("watermark_ms", opt_i(s.watermark_ms)), ("max_timestamp_ms", opt_i(s.max_timestamp_ms)),
        ("total_runs_created", Tree::Int(s.total_runs_created as i128)),
        ("total_runs_completed", Tree::Int(s.total_runs_completed as i128)),
        ("total_runs_dropped", Tree::Int(s.total_runs_dropped as i128)),
        ("total_runs_evicted", Tree::Int(s.total_runs_evicted as i128)),
        ("watermark_subms_ns", Tree::Int(s.watermark_subms_ns as i128)),
        ("max_timestamp_subms_ns", Tree::Int(s.max_timestamp_subms_ns as i128)),
    ])
}
fn t_join(j: &JoinCheckpoint) -> Tree {
    obj(vec![
        ("buffers", map_t(&j.buffers, |k| map_t(k, |l| Tree::Arr(l.iter().map(|(ts, e)| Tree::Arr(vec![Tree::Int(*ts as i128), t_sev(e)])).collect())))),
        ("sources", Tree::Arr(j.sources.iter().map(|s| Tree::Str(s.clone())).collect())),
        ("join_keys", map_t(&j.join_keys, |s| Tree::Str(s.clone()))),
        ("window_duration_ms", Tree::Int(j.window_duration_ms as i128)),
        ("last_gc_ms", opt_i(j.last_gc_ms)), ("last_gc_subms_ns", Tree::Int(j.last_gc_subms_ns as i128)),
        ("expiry_queue", j.expiry_queue.as_ref().map(|q| { Tree::Arr(q.iter().map(|(ms, sub, s, k)| Tree::Arr(vec![Tree::Int(*ms as i128), Tree::Int(*sub as i128), Tree::Str(s.clone()), Tree::Str(k.clone())])).collect()) }).unwrap_or(Tree::Null)),
    ])
}
fn t_wm(w: &WatermarkCheckpoint) -> Tree {
    obj(vec![
        ("sources", map_t(&w.sources, |s| obj(vec![
            ("watermark_ms", opt_i(s.watermark_ms)), ("max_timestamp_ms", opt_i(s.max_timestamp_ms)),
            ("max_out_of_orderness_ms", Tree::Int(s.max_out_of_orderness_ms as i128)),
            ("watermark_subms_ns", Tree::Int(s.watermark_subms_ns as i128)),
            ("max_timestamp_subms_ns", Tree::Int(s.max_timestamp_subms_ns as i128))]))),
        ("effective_watermark_ms", opt_i(w.effective_watermark_ms)),
        ("effective_watermark_subms_ns", Tree::Int(w.effective_watermark_subms_ns as i128)),
        ("last_applied_watermark_ms", opt_i(w.last_applied_watermark_ms)),
        ("last_applied_watermark_subms_ns", Tree::Int(w.last_applied_watermark_subms_ns as i128)),
    ])
}
pub fn t_engine(c: &EngineCheckpoint) -> Tree {
    obj(vec![
        ("version", Tree::Int(c.version as i128)),
        ("window_states", map_t(&c.window_states, t_wc)),
        ("sase_states", map_t(&c.sase_states, t_sase)),
        ("join_states", map_t(&c.join_states, t_join)),
        ("variables", map_t(&c.variables, t_sv)),
        ("events_processed", Tree::Int(c.events_processed as i128)),
        ("output_events_emitted", Tree::Int(c.output_events_emitted as i128)),
        ("watermark_state", c.watermark_state.as_ref().map(t_wm).unwrap_or(Tree::Null)),
        ("distinct_states", map_t(&c.distinct_states, |d| obj(vec![("keys", Tree::Arr(d.keys.iter().map(|k| Tree::Str(k.clone())).collect()))]))),
        ("limit_states", map_t(&c.limit_states, |l| obj(vec![("max", Tree::Int(l.max as i128)), ("count", Tree::Int(l.count as i128))]))),
    ])
}
fn t_checkpoint(c: &Checkpoint) -> Tree {
    obj(vec![
        ("id", Tree::Int(c.id as i128)), ("timestamp_ms", Tree::Int(c.timestamp_ms as i128)),
        ("events_processed", Tree::Int(c.events_processed as i128)),
        ("window_states", map_t(&c.window_states, t_wc)),
        ("pattern_states", map_t(&c.pattern_states, |p| obj(vec![("partial_matches", Tree::Arr(p.partial_matches.iter().map(|m| obj(vec![
            ("state", Tree::Str(m.state.clone())), ("matched_events", t_sevs(&m.matched_events)), ("start_ms", Tree::Int(m.start_ms as i128))])).collect()))]))),
        ("metadata", map_t(&c.metadata, |s| Tree::Str(s.clone()))),
        ("context_states", map_t(&c.context_states, t_engine)),
    ])
}

// ---------------------------------------------------------------------------------------------
// generators
// ---------------------------------------------------------------------------------------------
const STRS: &[&str] = &["", "a", "k", "id", "héllo", "日本語", "😀 ok", "\"q\"", "back\\slash", "\n\t\r", "\u{0}", "\u{2028}\u{2029}",
    "\u{7f}", "\u{ffff}", "\u{10ffff}", "null", "NaN", "Null", "Float", "a b", "{", "[1]", "ß", "e\u{301}", "\u{feff}x"];

fn gen_str(r: &mut Rng) -> String {
    if r.chance(3, 4) { (*r.pick(STRS)).to_string() } else {
        let n = r.below(6);
        (0..n).map(|_| loop {
            let c = match r.below(4) { 0 => r.below(0x80) as u32, 1 => r.below(0x800) as u32, 2 => r.below(0x10000) as u32, _ => r.below(0x110000) as u32 };
            if let Some(ch) = char::from_u32(c) { break ch; }
        }).collect()
    }
}
fn gen_key(r: &mut Rng) -> String {
    if r.chance(4, 5) { (*r.pick(&["a", "b", "x", "id", "k", "v", "price", "ключ", "a.b", ""])).to_string() } else { gen_str(r) }
}
const F64S: &[u64] = &[0x7ff8000000000000, 0xfff8000000000000, 0x7ff0000000000001, 0x7ff4000000000000, 0x7ff0000000000000, 0xfff0000000000000,
    0, 0x8000000000000000, 1, 0x000fffffffffffff, 0x0010000000000000, 0x7fefffffffffffff, 0xffefffffffffffff,
    0x3ff0000000000000, 0x3fb999999999999a, 0x444b1ae4d6e2ef50, 0x3e7ad7f29abcaf48, 0x4340000000000000, 0x4340000000000001, 0xc3e0000000000000, 0x43e0000000000000, 0x3fd5555555555555];
fn gen_f64(r: &mut Rng) -> f64 {
    f64::from_bits(match r.below(10) {
        0..=3 => *r.pick(F64S),
        4..=7 => r.next(),
        8 => (r.range(-1000, 1000) as f64 / 8.0).to_bits(),
        _ => ((r.next() % 1_000_000) as f64 / 1000.0 * if r.chance(1, 2) { -1.0 } else { 1.0 }).to_bits(),
    })
}
const I64S: &[i64] = &[0, 1, -1, 42, i64::MAX, i64::MIN, i64::MAX - 1, i64::MIN + 1, 9007199254740993, -9007199254740993, 1 << 53, 1_700_000_000_000];
fn gen_i64(r: &mut Rng) -> i64 { if r.chance(1, 2) { *r.pick(I64S) } else if r.chance(1, 2) { r.range(-5, 5) } else { r.next() as i64 } }

fn gen_value(r: &mut Rng, depth: u32, ctx: &mut Ctx2) -> Value {
    let k = if depth == 0 { r.below(7) } else { r.below(10) };
    match k {
        0 => { ctx.hit("v:int"); Value::Int(gen_i64(r)) }
        1 => { let f = gen_f64(r); ctx.hit(if f.is_nan() { "v:nan" } else if f.is_infinite() { "v:inf" } else if f == 0.0 && f.is_sign_negative() { "v:-0.0" } else { "v:float" }); Value::Float(f) }
        2 => { ctx.hit("v:bool"); Value::Bool(r.chance(1, 2)) }
        3 => { ctx.hit("v:str"); Value::Str(gen_str(r).into()) }
        4 => { ctx.hit("v:null"); Value::Null }
        5 => { ctx.hit("v:timestamp"); Value::Timestamp(gen_i64(r)) }
        6 => { ctx.hit("v:duration"); Value::Duration(if r.chance(1, 3) { u64::MAX } else if r.chance(1, 2) { r.next() } else { r.below(100) }) }
        7 | 8 => { ctx.hit("v:array"); let n = r.below(4); Value::array((0..n).map(|_| gen_value(r, depth - 1, ctx)).collect()) }
        _ => {
            ctx.hit("v:map");
            let n = r.below(4);
            let mut m = varpulis_core::value::FxIndexMap::default();
            for _ in 0..n { m.insert(std::sync::Arc::<str>::from(gen_key(r)), gen_value(r, depth - 1, ctx)); }
            Value::map(m)
        }
    }
}
const TS_NS: &[i64] = &[0, 1, 999_999, 1_000_000, 1_000_001, 1_700_000_000_123_456_789, 1_700_000_000_123_000_000, -1, -999_999, -1_000_000, -1_000_001,
    i64::MAX, i64::MIN, i64::MAX - 999_999, 1_500_000, 2_999_999_999];
fn gen_ts(r: &mut Rng, ctx: &mut Ctx2) -> i64 {
    let t = match r.below(4) { 0 => *r.pick(TS_NS), 1 => r.range(0, 10_000) * 1_000_000, 2 => r.range(-5_000_000, 5_000_000_000), _ => r.next() as i64 };
    ctx.hit(if t.rem_euclid(1_000_000) == 0 { "ts:whole-ms" } else if t < 0 { "ts:sub-ms-negative" } else { "ts:sub-ms" });
    t
}
fn mk_event(ty: &str, ts_ns: i64, fields: Vec<(String, Value)>) -> Event {
    let mut e = Event::new_at(ty, chrono::DateTime::from_timestamp_nanos(ts_ns));
    for (k, v) in fields { e.data.insert(k.into(), v); }
    e
}
fn gen_event(r: &mut Rng, ctx: &mut Ctx2) -> Event {
    let ty = if r.chance(3, 4) { (*r.pick(&["A", "B", "Trade", "T"])).to_string() } else { gen_str(r) };
    let n = r.below(5);
    let ts = gen_ts(r, ctx);
    let fields = (0..n).map(|_| (gen_key(r), gen_value(r, 2, ctx))).collect();
    mk_event(&ty, ts, fields)
}

/// histogram collector usable while `ctx.rng` is borrowed
#[derive(Default)]
pub struct Ctx2 { hits: Vec<&'static str> }
impl Ctx2 {
    fn hit(&mut self, k: &'static str) { self.hits.push(k); }
    fn flush(&mut self, ctx: &mut Ctx) { for k in self.hits.drain(..) { ctx.count(k); } }
}

fn gen_sev(r: &mut Rng, c2: &mut Ctx2) -> SerializableEvent { SerializableEvent::from(&gen_event(r, c2)) }
fn gen_sevs(r: &mut Rng, c2: &mut Ctx2, max: u64) -> Vec<SerializableEvent> { let n = r.below(max + 1); (0..n).map(|_| gen_sev(r, c2)).collect() }
fn gen_sub(r: &mut Rng) -> u32 { if r.chance(1, 2) { 0 } else { r.below(1_000_000) as u32 } }
fn gen_opt_ms(r: &mut Rng) -> Option<i64> { if r.chance(1, 3) { None } else { Some(gen_i64(r)) } }
fn gen_name(r: &mut Rng) -> String { if r.chance(5, 6) { (*r.pick(&["S", "W", "J", "P", "s1", "s2", "main", "k:1", "default"])).to_string() } else { gen_str(r) } }
fn gen_map<V>(r: &mut Rng, max: u64, mut f: impl FnMut(&mut Rng) -> V) -> HashMap<String, V> {
    let n = r.below(max + 1);
    let mut m = HashMap::new();
    for _ in 0..n { let k = gen_name(r); let v = f(r); m.insert(k, v); }
    m
}
fn gen_wc(r: &mut Rng, c2: &mut Ctx2) -> WindowCheckpoint {
    c2.hit("ck:window");
    let parts = if r.chance(1, 2) { HashMap::new() } else {
        gen_map(r, 3, |r| { let mut c = Ctx2::default(); PartitionedWindowCheckpoint { events: gen_sevs(r, &mut c, 3), window_start_ms: gen_opt_ms(r), events_since_emit: if r.chance(1, 2) { None } else { Some(r.below(5) as usize) }, window_start_subms_ns: gen_sub(r) } })
    };
    WindowCheckpoint { events: gen_sevs(r, c2, 3), window_start_ms: gen_opt_ms(r), last_emit_ms: gen_opt_ms(r), partitions: parts }
}
fn gen_run(r: &mut Rng, c2: &mut Ctx2) -> RunCheckpoint {
    c2.hit("ck:run");
    let n = r.below(4);
    RunCheckpoint {
        current_state: r.below(6) as usize,
        stack: (0..n).map(|_| StackEntryCheckpoint { event: gen_sev(r, c2), alias: if r.chance(1, 2) { Some(gen_key(r)) } else { None } }).collect(),
        captured: gen_map(r, 2, |r| { let mut c = Ctx2::default(); gen_sev(r, &mut c) }),
        event_time_started_at_ms: gen_opt_ms(r), event_time_deadline_ms: gen_opt_ms(r),
        partition_key: if r.chance(1, 2) { None } else { Some(SerializableEvent::from(&mk_event("x", 0, vec![("k".into(), gen_value(r, 1, c2))])).fields.remove("k").unwrap()) },
        invalidated: r.chance(1, 4), pending_negation_count: r.below(3) as usize,
        kleene_events: if r.chance(1, 2) { None } else { Some(gen_sevs(r, c2, 3)) },
        and_branches: if r.chance(2, 3) { None } else { let n = r.below(3); Some((0..n).map(|i| (i as usize, gen_sev(r, c2))).collect()) },
        event_time_started_at_subms_ns: gen_sub(r), event_time_deadline_subms_ns: gen_sub(r),
    }
}
fn gen_sase(r: &mut Rng, c2: &mut Ctx2) -> SaseCheckpoint {
    c2.hit("ck:sase");
    let n = r.below(3);
    SaseCheckpoint {
        active_runs: (0..n).map(|_| gen_run(r, c2)).collect(),
        partitioned_runs: gen_map(r, 2, |r| { let mut c = Ctx2::default(); let n = r.below(3); (0..n).map(|_| gen_run(r, &mut c)).collect() }),
        watermark_ms: gen_opt_ms(r), max_timestamp_ms: gen_opt_ms(r),
        total_runs_created: r.next(), total_runs_completed: r.below(100), total_runs_dropped: if r.chance(1, 2) { u64::MAX } else { 0 }, total_runs_evicted: r.below(3),
        watermark_subms_ns: gen_sub(r), max_timestamp_subms_ns: gen_sub(r),
    }
}
fn gen_join(r: &mut Rng, c2: &mut Ctx2) -> JoinCheckpoint {
    c2.hit("ck:join");
    JoinCheckpoint {
        buffers: gen_map(r, 2, |r| gen_map(r, 2, |r| { let mut c = Ctx2::default(); let n = r.below(3); (0..n).map(|_| (gen_i64(r), gen_sev(r, &mut c))).collect() })),
        sources: (0..r.below(3)).map(|_| gen_name(r)).collect(),
        join_keys: gen_map(r, 2, |r| gen_key(r)),
        window_duration_ms: gen_i64(r),
        last_gc_ms: gen_opt_ms(r), last_gc_subms_ns: gen_sub(r),
        expiry_queue: if r.chance(1, 3) { None } else { let n = r.below(4); let mut q: Vec<(i64, u32, String, String)> = (0..n).map(|_| (gen_i64(r), gen_sub(r), gen_name(r), gen_key(r))).collect(); q.sort(); Some(q) },
    }
}
fn gen_engine_ck(r: &mut Rng, c2: &mut Ctx2) -> EngineCheckpoint {
    EngineCheckpoint {
        version: if r.chance(9, 10) { CHECKPOINT_VERSION } else { r.below(4) as u32 },
        window_states: gen_map(r, 2, |r| { let mut c = Ctx2::default(); gen_wc(r, &mut c) }),
        sase_states: gen_map(r, 2, |r| { let mut c = Ctx2::default(); gen_sase(r, &mut c) }),
        join_states: gen_map(r, 1, |r| { let mut c = Ctx2::default(); gen_join(r, &mut c) }),
        variables: gen_map(r, 3, |r| { let mut c = Ctx2::default(); SerializableEvent::from(&mk_event("x", 0, vec![("k".into(), gen_value(r, 2, &mut c))])).fields.remove("k").unwrap() }),
        events_processed: r.next(), output_events_emitted: r.below(1000),
        watermark_state: if r.chance(1, 2) { None } else {
            c2.hit("ck:watermark");
            Some(WatermarkCheckpoint { sources: gen_map(r, 3, |r| SourceWatermarkCheckpoint { watermark_ms: gen_opt_ms(r), max_timestamp_ms: gen_opt_ms(r), max_out_of_orderness_ms: gen_i64(r), watermark_subms_ns: gen_sub(r), max_timestamp_subms_ns: gen_sub(r) }), effective_watermark_ms: gen_opt_ms(r), effective_watermark_subms_ns: gen_sub(r), last_applied_watermark_ms: gen_opt_ms(r), last_applied_watermark_subms_ns: gen_sub(r) })
        },
        distinct_states: gen_map(r, 2, |r| DistinctCheckpoint { keys: (0..r.below(4)).map(|_| gen_str(r)).collect() }),
        limit_states: gen_map(r, 2, |r| LimitCheckpoint { max: r.below(10) as usize, count: r.next() as usize }),
    }
}
fn gen_checkpoint(r: &mut Rng, c2: &mut Ctx2) -> Checkpoint {
    Checkpoint {
        id: r.next(), timestamp_ms: gen_i64(r), events_processed: r.below(1000),
        window_states: gen_map(r, 1, |r| { let mut c = Ctx2::default(); gen_wc(r, &mut c) }),
        pattern_states: gen_map(r, 1, |r| { let mut c = Ctx2::default(); PatternCheckpoint { partial_matches: (0..r.below(3)).map(|_| PartialMatchCheckpoint { state: gen_str(r), matched_events: gen_sevs(r, &mut c, 2), start_ms: gen_i64(r) }).collect() } }),
        metadata: gen_map(r, 2, |r| gen_str(r)),
        context_states: { let mut m = HashMap::new(); if r.chance(4, 5) { m.insert("main".to_string(), gen_engine_ck(r, c2)); } if r.chance(1, 4) { m.insert(gen_name(r), gen_engine_ck(r, c2)); } m },
    }
}

// ---------------------------------------------------------------------------------------------
// C20 cases
// ---------------------------------------------------------------------------------------------
fn json_tree(bytes: &[u8]) -> String {
    match serde_json::from_slice::<serde_json::Value>(bytes) { Ok(v) => t_json(&v).text(), Err(_) => "err".into() }
}

/// `ev <event>`: Event -> SerializableEvent -> codec::serialize -> codec::deserialize -> Event
fn case_event(ctx: &mut Ctx, e: &Event) {
    let l = t_event(e).text();
    let res = catch(std::panic::AssertUnwindSafe(|| {
        let se = SerializableEvent::from(e);
        let bytes = match codec::serialize(&se, CheckpointFormat::Json) { Ok(b) => b, Err(_) => return "J=err R=err".to_string() };
        let j = json_tree(&bytes);
        match codec::deserialize::<SerializableEvent>(&bytes) {
            Ok(se2) => format!("J={} R={}", j, t_event(&Event::from(se2)).text()),
            Err(_) => format!("J={} R=err", j),
        }
    })).unwrap_or_else(|_| "panic".into());
    ctx.directive("new");
    ctx.case(&format!("ev {}", l), &res);
}

macro_rules! case_ck {
    ($ctx:expr, $kind:expr, $c:expr, $ty:ty, $walk:expr) => {{
        let c = $c;
        let l = $walk(&c).text();
        let res = catch(std::panic::AssertUnwindSafe(|| {
            let bytes = match codec::serialize(&c, CheckpointFormat::active()) { Ok(b) => b, Err(_) => return "J=err R=err".to_string() };
            let j = json_tree(&bytes);
            match codec::deserialize::<$ty>(&bytes) {
                Ok(c2) => format!("J={} R={}", j, $walk(&c2).text()),
                Err(_) => format!("J={} R=err", j),
            }
        })).unwrap_or_else(|_| "panic".into());
        $ctx.directive("new");
        $ctx.case(&format!("ck {} {}", $kind, l), &res);
    }};
}

/// `det <variant> <engine checkpoint>`: format auto-detection of codec::deserialize
fn case_detect(ctx: &mut Ctx, c: &EngineCheckpoint) {
    let l = t_engine(c).text();
    let bytes = codec::serialize(c, CheckpointFormat::Json).unwrap();
    for variant in ["plain", "ws", "empty", "wsonly", "garbage", "array"] {
        let data: Vec<u8> = match variant {
            "plain" => bytes.clone(),
            "ws" => { let mut d = b" \n\t\r ".to_vec(); d.extend_from_slice(&bytes); d }
            "empty" => Vec::new(),
            "wsonly" => b"  \n".to_vec(),
            "garbage" => { let mut d = vec![0x93u8, 0x01]; d.extend_from_slice(&bytes); d }
            _ => { let mut d = b"[".to_vec(); d.extend_from_slice(&bytes); d.push(b']'); d }
        };
        let res = match catch(std::panic::AssertUnwindSafe(|| codec::deserialize::<EngineCheckpoint>(&data))) {
            Ok(Ok(c2)) => format!("R={}", t_engine(&c2).text()),
            Ok(Err(_)) => "R=err".to_string(),
            Err(_) => "panic".to_string(),
        };
        ctx.case(&format!("det {} {}", variant, l), &res);
        ctx.count(&format!("det:{}", variant));
    }
}

fn witness_events() -> Vec<Event> {
    vec![
        mk_event("A", 0, vec![("x".into(), Value::Float(f64::NAN))]),
        mk_event("A", 0, vec![("x".into(), Value::Float(f64::INFINITY))]),
        mk_event("A", 0, vec![("x".into(), Value::Float(f64::NEG_INFINITY))]),
        mk_event("A", 0, vec![("x".into(), Value::Float(-0.0))]),
        mk_event("A", 1_700_000_000_123_456_789, vec![("x".into(), Value::Int(1))]),
        mk_event("A", -1, vec![]),
        mk_event("A", 1_000_000, vec![("x".into(), Value::array(vec![Value::Float(f64::NAN)]))]),
    ]
}

fn run_c20(ctx: &mut Ctx) {
    for e in witness_events() { case_event(ctx, &e); ctx.count("ev:witness"); }
    let n_ev = if ctx.thorough { 40_000 } else { 1_500 };
    let n_ck = if ctx.thorough { 6_000 } else { 300 };
    let mut c2 = Ctx2::default();
    for _ in 0..n_ev { let e = gen_event(&mut ctx.rng, &mut c2); c2.flush(ctx); case_event(ctx, &e); ctx.count("ev"); }
    for i in 0..n_ck {
        if i % 3 == 0 {
            let c = gen_checkpoint(&mut ctx.rng, &mut c2); c2.flush(ctx);
            case_ck!(ctx, "checkpoint", c, Checkpoint, t_checkpoint); ctx.count("ck:outer");
        } else {
            let c = gen_engine_ck(&mut ctx.rng, &mut c2); c2.flush(ctx);
            case_ck!(ctx, "engine", c, EngineCheckpoint, t_engine); ctx.count("ck:engine");
        }
    }
    for _ in 0..(if ctx.thorough { 200 } else { 20 }) {
        let c = gen_engine_ck(&mut ctx.rng, &mut c2); c2.flush(ctx);
        ctx.directive("new");
        case_detect(ctx, &c);
    }
    // checkpoints of real engine states (the generated programs of C19)
    let rt = tokio::runtime::Builder::new_current_thread().enable_all().build().unwrap();
    for _ in 0..(if ctx.thorough { 600 } else { 60 }) { let sc = gen_scenario(ctx); run_scenario(ctx, &rt, &sc, false, true); }
}


// ---------------------------------------------------------------------------------------------
// C19: interrupted (checkpoint -> JSON -> freshly loaded engine -> restore -> continue) vs uninterrupted
// ---------------------------------------------------------------------------------------------
use varpulis_runtime::engine::Engine;

#[derive(Clone)]
enum Op { Ev(Event), Wm(String, i64), Var(String, Value) }

struct Prog { text: String, types: Vec<&'static str>, tags: Vec<&'static str>, wm: bool, var: bool,
    /// for a single-window program without watermarks: (model kind, size/gap ns, slide ns, n, m) of stream W
    wspec: Option<(&'static str, i64, i64, u64, u64)> }

fn window_spec(r: &mut Rng, tags: &mut Vec<&'static str>) -> String { window_spec2(r, tags).0 }

/// the VPL window argument and (kind, size ns, slide ns, n, m) for the model
fn window_spec2(r: &mut Rng, tags: &mut Vec<&'static str>) -> (String, (&'static str, i64, i64, u64, u64)) {
    const S: i64 = 1_000_000_000;
    match r.below(7) {
        0 => { tags.push("tumbling"); let d = 1 + r.below(3); (format!("{}s", d), ("tumbling", d as i64 * S, 0, 0, 0)) }
        1 => { tags.push("sliding"); let sl = 1 + r.below(2); let d = sl + r.below(3); (format!("{}s, sliding: {}s", d, sl), ("sliding", d as i64 * S, sl as i64 * S, 0, 0)) }
        2 => { tags.push("count"); let n = 2 + r.below(3); (format!("{}", n), ("count", 0, 0, n, 0)) }
        3 | 4 => { tags.push("slidingCount"); let sl = 1 + r.below(3); let n = 2 + r.below(3); (format!("{}, sliding: {}", n, sl), ("slidingCount", 0, 0, n, sl)) }
        5 => { tags.push("session"); let g = 1 + r.below(2); (format!("session: {}s", g), ("session", g as i64 * S, 0, 0, 0)) }
        _ => { tags.push("tumbling-ms"); let ms = 500 + 250 * r.below(6); (format!("{}ms", ms), ("tumbling", ms as i64 * 1_000_000, 0, 0, 0)) }
    }
}

fn gen_prog(r: &mut Rng) -> Prog {
    let mut tags: Vec<&'static str> = Vec::new();
    let mut wm = false;
    let mut var = false;
    let mut wspec = None;
    let kind = r.below(20);
    let (text, types): (String, Vec<&'static str>) = match kind {
        0..=6 => {
            // windows, optionally partitioned, with or without aggregation
            let part = r.chance(2, 5);
            let (w, spec) = window_spec2(r, &mut tags);
            if part { tags.push("partitioned"); }
            if !part && spec.0 == "slidingCount" { tags.push("slidingCount-plain"); }
            wm = r.chance(1, 4) && !tags.contains(&"count") && !tags.contains(&"slidingCount");
            // now and then the window stream reads a derived stream instead of the raw event type
            let derived = !wm && r.chance(1, 5);
            let mut t = if derived { tags.push("derived-source"); String::from("stream F = T\n    .where(id >= 0)\n    .emit(id: id, x: x, k: k)\n\nstream W = F") } else { String::from("stream W = T") };
            if !derived && r.chance(1, 5) { tags.push("where"); t.push_str("\n    .where(id >= 0)"); }
            if wm { tags.push("watermark"); t.push_str(&format!("\n    .watermark(out_of_order: {}s)", r.below(3))); if r.chance(1, 2) { t.push_str("\n    .allowed_lateness(1s)"); tags.push("lateness"); } }
            if part { t.push_str("\n    .partition_by(k)"); }
            if !wm && !derived {
                let k = match (spec.0, part) { ("tumbling", true) => "pTumbling", ("sliding", true) => "pSliding", ("count", true) => "pCount",
                    ("slidingCount", true) => "pSlidingCount", ("session", true) => "pSession", (k, _) => k };
                wspec = Some((k, spec.1, spec.2, spec.3, spec.4));
            }
            t.push_str(&format!("\n    .window({})", w));
            if r.chance(3, 5) {
                tags.push("aggregate"); t.push_str("\n    .aggregate(n: count(), s: sum(x), lo: min(x))");
                if r.chance(1, 4) { tags.push("having"); t.push_str("\n    .having(n >= 2)"); }
                t.push_str("\n    .emit(n: n, s: s, lo: lo)");
            }
            else { t.push_str("\n    .emit(id: id, x: x)"); }
            if wm && r.chance(2, 3) {
                // a second watermarked source: the effective watermark is the minimum over both
                tags.push("two-sources");
                t.push_str(&format!("\n\nstream WU = U\n    .watermark(out_of_order: {}s)\n    .window({}s)\n    .aggregate(n: count())\n    .emit(un: n)", r.below(3), 1 + r.below(3)));
                (t, vec!["T", "T", "U"])
            } else { (t, vec!["T"]) }
        }
        7..=12 => {
            // sequences
            let form = r.below(9);
            let part = r.chance(1, 3);
            let mut t = match form {
                0 => { tags.push("seq2"); "stream S = A as a\n    -> B where x == a.x as b".to_string() }
                1 => { tags.push("seq3"); "stream S = A as a\n    -> B as b\n    -> C where x >= a.x as c".to_string() }
                2 => { tags.push("kleene-mid"); "stream S = A as a\n    -> all B as b\n    -> C as c".to_string() }
                3 => { tags.push("kleene-mid-pred"); "stream S = A as a\n    -> all B where id == a.id as b\n    -> C as c".to_string() }
                4 => { tags.push("kleene-self-ref"); "stream S = A as a\n    -> all B where x >= b.x as b\n    -> C as c".to_string() }
                5 => { tags.push("kleene-trailing"); "stream S = A as a\n    -> all B where id == a.id as b".to_string() }
                6 => { tags.push("seq-not"); "stream S = A as a\n    -> B as b\n    .not(N where id == a.id)".to_string() }
                7 => { tags.push("seq-within"); "stream S = A as a\n    -> B as b\n    -> C as c\n    .within(1h)".to_string() }
                _ => { tags.push("seq-after-kleene"); "stream S = A as a\n    -> all B as b\n    -> C as c\n    -> D as d".to_string() }
            };
            if part { tags.push("seq-partitioned"); t.push_str("\n    .partition_by(k)"); }
            t.push_str(if form == 8 { "\n    .emit(ax: a.x, bx: b.x, cx: c.x, dx: d.x)" } else if form == 0 || form == 5 || form == 6 { "\n    .emit(ax: a.x, bx: b.x, bid: b.id)" } else { "\n    .emit(ax: a.x, bx: b.x, cx: c.x)" });
            (t, vec!["A", "B", "C", "N", "D"])
        }
        13 | 14 => {
            // named patterns: AND, NOT inside SEQ, OR
            let (p, tag): (&str, &'static str) = match r.below(5) {
                0 => ("pattern P = A AND B", "pat-and"),
                1 => ("pattern P = SEQ(A, B) AND C", "pat-seq-and"),
                2 => ("pattern P = SEQ(A, NOT N, C)", "pat-seq-not"),
                3 => ("pattern P = A OR B", "pat-or"),
                _ => ("pattern P = SEQ(A as a, B+ as b, C as c)", "pat-kleene"),
            };
            tags.push(tag);
            (format!("{}\n\nstream S = P\n    .emit(m: \"hit\")", p), vec!["A", "B", "C", "N"])
        }
        15 | 16 => {
            tags.push("join");
            let w = 1 + r.below(4);
            (format!("stream J = join(A, B)\n    .on(A.k == B.k)\n    .window({}s)\n    .emit(k: A.k, ax: A.x, bx: B.x)", w), vec!["A", "B"])
        }
        17 => { tags.push("distinct"); ((if r.chance(1, 2) { "stream D = T\n    .distinct(k)\n    .emit(k: k, id: id)" } else { "stream D = T\n    .distinct(x)\n    .emit(x: x, id: id)" }).to_string(), vec!["T"]) }
        18 => { tags.push("limit"); let t = if r.chance(1, 3) { "stream L = T\n    .first()\n    .emit(id: id)".to_string() } else { format!("stream L = T\n    .limit({})\n    .emit(id: id)", 1 + r.below(4)) }; (t, vec!["T"]) }
        _ => { tags.push("variables"); var = true; ("var counter: int = 0\nvar label: str = \"x\"\n\nstream V = T\n    .emit(id: id)".to_string(), vec!["T"]) }
    };
    // second stream in the same program now and then (two independent states in one checkpoint)
    let (text, types) = if r.chance(1, 5) && !text.contains("stream W") {
        let mut t2 = Vec::new();
        let w = window_spec(r, &mut t2);
        if t2.contains(&"slidingCount") { tags.push("slidingCount-plain"); }
        tags.extend(t2); tags.push("two-streams");
        let mut ty = types.clone(); ty.push("T");
        (format!("{}\n\nstream W2 = T\n    .window({})\n    .aggregate(n: count())\n    .emit(n: n)", text, w), ty)
    } else { (text, types) };
    Prog { text, types, tags, wm, var, wspec }
}

fn gen_ops(r: &mut Rng, p: &Prog, n: usize, c2: &mut Ctx2) -> Vec<Op> {
    let mut ops = Vec::new();
    let mut t_ms: i64 = r.range(0, 3) * 1000;
    let subms = r.chance(1, 4);           // a scenario either has sub-millisecond timestamps or not
    let ooo = r.chance(1, 5);
    if subms { c2.hit("ops:sub-ms-scenario"); } else { c2.hit("ops:whole-ms-scenario"); }
    if ooo { c2.hit("ops:out-of-order-scenario"); }
    for _ in 0..n {
        t_ms += *r.pick(&[0i64, 1, 250, 500, 500, 1000, 1000, 1500, 2500, 4000]);
        if p.wm && r.chance(1, 6) {
            let src = if r.chance(5, 6) { (*r.pick(&p.types)).to_string() } else { "upstream".to_string() };
            ops.push(Op::Wm(src, t_ms + r.range(-1000, 2000)));
            continue;
        }
        if p.var && r.chance(1, 3) {
            let mut c = Ctx2::default();
            let (name, v) = if r.chance(1, 2) { ("counter", Value::Int(gen_i64(r))) } else { ("label", gen_value(r, 1, &mut c)) };
            ops.push(Op::Var(name.to_string(), v));
            continue;
        }
        let ty = *r.pick(&p.types);
        let mut ts_ns = t_ms * 1_000_000;
        if ooo && r.chance(1, 3) { ts_ns -= r.range(0, 3000) * 1_000_000; }
        if subms { ts_ns += r.range(0, 999_999); }
        let mut f: Vec<(String, Value)> = vec![("id".into(), Value::Int(r.range(0, 2)))];
        if r.chance(9, 10) { f.push(("x".into(), Value::Int(r.range(-2, 3)))); }
        if r.chance(9, 10) { f.push(("k".into(), Value::Str((*r.pick(&["a", "b", "c"])).into()))); }
        if r.chance(1, 8) { f.push(("v".into(), Value::Float(r.range(-8, 8) as f64 / 4.0))); }
        ops.push(Op::Ev(mk_event(ty, ts_ns, f)));
    }
    ops
}

fn op_text(o: &Op) -> String {
    match o {
        Op::Ev(e) => format!("ev {}", t_event(e).text()),
        Op::Wm(s, ms) => format!("wm {} {}", s, ms),
        Op::Var(n, v) => format!("var {} {}", n, t_value(v).text()),
    }
}

/// canonical rendering of one output event; wall-clock fields dropped
fn out_text(e: &Event, with_ts: bool) -> String {
    let mut fs: Vec<(String, String)> = e.data.iter()
        .filter(|(k, _)| &***k != "match_duration_ms" && &***k != "timestamp" && &***k != "processing_time_ms")
        .map(|(k, v)| (k.to_string(), t_value(v).text())).collect();
    fs.sort();
    let body = fs.into_iter().map(|(k, v)| format!("{}={}", k, v)).collect::<Vec<_>>().join(",");
    if with_ts { format!("{}@{}({})", e.event_type, e.timestamp.timestamp_nanos_opt().unwrap_or(0), body) } else { format!("{}({})", e.event_type, body) }
}

struct Sim { engine: Engine, rx: tokio::sync::mpsc::Receiver<Event> }

fn new_sim(ast: &varpulis_core::ast::Program, wm: bool) -> Result<Sim, String> {
    let (tx, rx) = tokio::sync::mpsc::channel::<Event>(100_000);
    let mut engine = Engine::new(tx);
    engine.load(ast)?;
    if wm { engine.enable_watermark_tracking(); }
    Ok(Sim { engine, rx })
}

impl Sim {
    /// apply one operation, return the canonical (sorted) outputs it caused
    fn apply(&mut self, rt: &tokio::runtime::Runtime, o: &Op, with_ts: bool) -> Vec<String> {
        let r = match o {
            Op::Ev(e) => rt.block_on(self.engine.process(e.clone())),
            Op::Wm(s, ms) => rt.block_on(self.engine.advance_external_watermark(s, *ms)),
            Op::Var(n, v) => self.engine.set_variable(n, v.clone()),
        };
        let mut outs = Vec::new();
        if let Err(e) = r { outs.push(format!("ERR:{}", e.chars().take(60).collect::<String>().replace(' ', "_"))); }
        while let Ok(e) = self.rx.try_recv() { outs.push(out_text(&e, with_ts)); }
        outs.sort();
        outs
    }
    /// observable state at the end: counters and variables
    fn final_obs(&self) -> String {
        let m = self.engine.metrics();
        let mut vars: Vec<String> = self.engine.variables().iter().map(|(k, v)| format!("{}={}", k, t_value(v).text())).collect();
        vars.sort();
        format!("processed={} emitted={} vars[{}]", m.events_processed, m.output_events_emitted, vars.join(","))
    }
}

fn run_tail(rt: &tokio::runtime::Runtime, sim: &mut Sim, ops: &[Op], with_ts: bool) -> Vec<String> {
    let mut all: Vec<String> = ops.iter().map(|o| sim.apply(rt, o, with_ts).join(" ")).collect();
    all.push(sim.final_obs());
    all
}

struct Scenario { prog: Prog, ops: Vec<Op> }

/// one scenario: every cut point. Emits `cut` cases (C19) and/or `ck engine` cases (C20).
fn run_scenario(ctx: &mut Ctx, rt: &tokio::runtime::Runtime, sc: &Scenario, emit_cuts: bool, emit_ck: bool) {
    let ast = match varpulis_parser::parse(&sc.prog.text) {
        Ok(a) => a,
        Err(e) => { eprintln!("generator error: program does not parse: {:?}\n{}", e, sc.prog.text); std::process::exit(3); }
    };
    let mk = || match new_sim(&ast, sc.prog.wm) { Ok(s) => s, Err(e) => { eprintln!("generator error: program does not load: {}\n{}", e, sc.prog.text); std::process::exit(3); } };
    // calibration: are output timestamps deterministic for this program? (aggregation results carry wall-clock time)
    let with_ts = { let a = run_tail(rt, &mut mk(), &sc.ops, true); let b = run_tail(rt, &mut mk(), &sc.ops, true); a == b };
    let base = run_tail(rt, &mut mk(), &sc.ops, with_ts);
    let again = run_tail(rt, &mut mk(), &sc.ops, with_ts);
    if base != again { ctx.count("c19:nondeterministic-program-skipped"); return; }
    ctx.directive("new");
    ctx.directive(&format!("prog {} | {}", sc.prog.tags.join(","), sc.prog.text.replace('\n', " ⏎ ")));
    if let Some((k, d, sl, n, m)) = sc.prog.wspec { ctx.directive(&format!("wspec W {} {} {} {} {}", k, d, sl, n, m)); ctx.count("c19:window-checkpoint-replayed-on-model"); }
    for o in &sc.ops { ctx.directive(&format!("op {}", op_text(o))); }
    ctx.count(if with_ts { "c19:output-timestamps-compared" } else { "c19:output-timestamps-wall-clock-dropped" });
    for t in &sc.prog.tags { ctx.count(&format!("prog:{}", t)); }
    // the uninterrupted engine, checkpointed before every operation and after the last
    let mut main = mk();
    for k in 0..=sc.ops.len() {
        let cp = main.engine.create_checkpoint();
        if emit_ck && (k == sc.ops.len() || k % 3 == 1) {
            case_ck!(ctx, "engine", cp.clone(), EngineCheckpoint, t_engine);
            ctx.count("ck:from-engine");
        }
        if emit_cuts {
            let l = t_engine(&cp).text();
            // the state the restored engine holds, read back through a second checkpoint: buffer and
            // stack ORDER is part of it (the driver compares it with what the model says restore gives)
            let recheck = std::cell::RefCell::new(String::from("n"));
            let res = catch(std::panic::AssertUnwindSafe(|| {
                let bytes = match codec::serialize(&cp, CheckpointFormat::active()) { Ok(b) => b, Err(_) => return "unreadable serialize".to_string() };
                let cp2: EngineCheckpoint = match codec::deserialize(&bytes) { Ok(c) => c, Err(_) => return "unreadable deserialize".to_string() };
                let mut fresh = mk();
                if fresh.engine.restore_checkpoint(&cp2).is_err() { return "unreadable restore".to_string(); }
                *recheck.borrow_mut() = t_engine(&fresh.engine.create_checkpoint()).text();
                let got = run_tail(rt, &mut fresh, &sc.ops[k..], with_ts);
                let exp = &base[k..];
                if got.as_slice() == exp { "same".to_string() } else {
                    let i = (0..exp.len()).find(|i| got.get(*i) != exp.get(*i)).unwrap_or(0);
                    format!("diff at={} exp=[{}] got=[{}]", k + i, exp.get(i).cloned().unwrap_or_default(), got.get(i).cloned().unwrap_or_default())
                }
            })).unwrap_or_else(|_| "panic".into());
            if res == "same" { ctx.count("cut:same"); } else { ctx.count("cut:DIFFERENT"); }
            let subms = sc.ops[..k].iter().any(|o| matches!(o, Op::Ev(e) if e.timestamp.timestamp_subsec_nanos() % 1_000_000 != 0));
            ctx.case(&format!("cut {} {} tags={} subms={} {} ## {}", k, sc.ops.len(), sc.prog.tags.join(","), if subms { 1 } else { 0 }, l, recheck.borrow()), &res);
        }
        if k < sc.ops.len() { main.apply(rt, &sc.ops[k], with_ts); }
    }
}

/// joins under stress: 2- and 3-way, few keys, events of one source and key arriving OUT OF TIMESTAMP
/// ORDER with pairwise different field values, a window that keeps everything; every cut point.
/// (The live per-key buffer is in arrival order and correlation takes the latest ARRIVED in-window
/// event of each source, so any reordering of a restored buffer shows in the joined fields.)
fn gen_join_scenario(ctx: &mut Ctx) -> Scenario {
    let r = &mut ctx.rng;
    let three = r.chance(1, 3);
    let w = 20 + r.below(41);
    let text = if three {
        format!("stream J = join(A, B, C)\n    .on(A.k == B.k and B.k == C.k)\n    .window({}s)\n    .emit(k: A.k, ax: A.x, bx: B.x, cx: C.x)", w)
    } else {
        format!("stream J = join(A, B)\n    .on(A.k == B.k)\n    .window({}s)\n    .emit(k: A.k, ax: A.x, bx: B.x)", w)
    };
    let types: Vec<&'static str> = if three { vec!["A", "B", "C"] } else { vec!["A", "B"] };
    let n = 4 + r.below(7) as usize;
    let mut ops = Vec::new();
    for i in 0..n {
        // a burst of one source first (so that several same-key events sit in one buffer), then mixed
        let ty = if i < 2 + (n / 3) && r.chance(2, 3) { types[0] } else { *r.pick(&types) };
        let ts_ms = r.below(33) as i64 * 250;               // any order within 8 s
        let k = if r.chance(5, 6) { "a" } else { "b" };
        ops.push(wev(ty, ts_ms * 1_000_000, i as i64, 100 + i as i64, k));
    }
    let mut tags = vec!["join", "join-out-of-order"];
    if three { tags.push("join-3way"); }
    Scenario { prog: Prog { text, types, tags, wm: false, var: false, wspec: None }, ops }
}

fn gen_scenario(ctx: &mut Ctx) -> Scenario {
    let mut c2 = Ctx2::default();
    let prog = gen_prog(&mut ctx.rng);
    let n = 4 + ctx.rng.below(if ctx.thorough { 14 } else { 9 }) as usize;
    let ops = gen_ops(&mut ctx.rng, &prog, n, &mut c2);
    c2.flush(ctx);
    Scenario { prog, ops }
}

// ---------------------------------------------------------------------------------------------
// C19, component level: the window types of window.rs through their public API, tied to the
// step / checkpoint / restore functions of the Lean model
// ---------------------------------------------------------------------------------------------
use varpulis_runtime::event::SharedEvent;
use varpulis_runtime::window::{
    CountWindow, PartitionedSessionWindow, PartitionedSlidingWindow, PartitionedTumblingWindow, SessionWindow,
    SlidingCountWindow, SlidingWindow, TumblingWindow,
};

enum Win {
    Tumbling(TumblingWindow), Sliding(SlidingWindow), Count(CountWindow), SlidingCount(SlidingCountWindow), Session(SessionWindow),
    PTumbling(PartitionedTumblingWindow), PSliding(PartitionedSlidingWindow), PSession(PartitionedSessionWindow),
}

#[derive(Clone, Copy)]
struct WCfg { kind: &'static str, dur: i64, slide: i64, n: usize, m: usize }

fn mk_win(c: &WCfg) -> Win {
    let d = chrono::Duration::nanoseconds(c.dur);
    let sl = chrono::Duration::nanoseconds(c.slide);
    match c.kind {
        "tumbling" => Win::Tumbling(TumblingWindow::new(d)),
        "sliding" => Win::Sliding(SlidingWindow::new(d, sl)),
        "count" => Win::Count(CountWindow::new(c.n)),
        "slidingCount" => Win::SlidingCount(SlidingCountWindow::new(c.n, c.m)),
        "session" => Win::Session(SessionWindow::new(d)),
        "pTumbling" => Win::PTumbling(PartitionedTumblingWindow::new("k".into(), d)),
        "pSliding" => Win::PSliding(PartitionedSlidingWindow::new("k".into(), d, sl)),
        _ => Win::PSession(PartitionedSessionWindow::new("k".into(), d)),
    }
}

fn em_tok(e: &SharedEvent) -> String {
    format!("{}@{}", e.get("id").map(|v| v.to_partition_key().into_owned()).unwrap_or_else(|| "?".into()), e.timestamp.timestamp_nanos_opt().unwrap_or(0))
}
fn em_text(o: Option<Vec<SharedEvent>>) -> String {
    match o { None => "-".into(), Some(l) => format!("[{}]", l.iter().map(em_tok).collect::<Vec<_>>().join(",")) }
}
fn em_parts(parts: Vec<(String, Vec<SharedEvent>)>) -> String {
    let mut t: Vec<String> = parts.iter().flat_map(|(_, l)| l.iter().map(em_tok)).collect();
    t.sort();
    format!("[{}]", t.join(","))
}

impl Win {
    fn add(&mut self, e: Event) -> String {
        let e = std::sync::Arc::new(e);
        em_text(match self {
            Win::Tumbling(w) => w.add_shared(e), Win::Sliding(w) => w.add_shared(e), Win::Count(w) => w.add_shared(e),
            Win::SlidingCount(w) => w.add_shared(e), Win::Session(w) => w.add_shared(e),
            Win::PTumbling(w) => w.add_shared(e), Win::PSliding(w) => w.add_shared(e), Win::PSession(w) => w.add_shared(e),
        })
    }
    fn wm(&mut self, t_ns: i64) -> String {
        let t = chrono::DateTime::from_timestamp_nanos(t_ns);
        match self {
            Win::Tumbling(w) => em_text(w.advance_watermark(t)), Win::Sliding(w) => em_text(w.advance_watermark(t)),
            Win::Session(w) => em_text(w.advance_watermark(t)),
            Win::Count(_) | Win::SlidingCount(_) => "-".into(),
            Win::PTumbling(w) => em_parts(w.advance_watermark(t)), Win::PSliding(w) => em_parts(w.advance_watermark(t)),
            Win::PSession(w) => em_parts(w.advance_watermark(t)),
        }
    }
    fn checkpoint(&self) -> WindowCheckpoint {
        match self {
            Win::Tumbling(w) => w.checkpoint(), Win::Sliding(w) => w.checkpoint(), Win::Count(w) => w.checkpoint(),
            Win::SlidingCount(w) => w.checkpoint(), Win::Session(w) => w.checkpoint(),
            Win::PTumbling(w) => w.checkpoint(), Win::PSliding(w) => w.checkpoint(), Win::PSession(w) => w.checkpoint(),
        }
    }
    fn restore(&mut self, cp: &WindowCheckpoint) {
        match self {
            Win::Tumbling(w) => w.restore(cp), Win::Sliding(w) => w.restore(cp), Win::Count(w) => w.restore(cp),
            Win::SlidingCount(w) => w.restore(cp), Win::Session(w) => w.restore(cp),
            Win::PTumbling(w) => w.restore(cp), Win::PSliding(w) => w.restore(cp), Win::PSession(w) => w.restore(cp),
        }
    }
}

fn run_window_scenario(ctx: &mut Ctx) {
    const KINDS: &[&str] = &["tumbling", "sliding", "count", "slidingCount", "slidingCount", "session", "pTumbling", "pSliding", "pSession"];
    let r = &mut ctx.rng;
    let kind = *r.pick(KINDS);
    let slide = (1 + r.below(2)) as i64 * 500_000_000;
    let cfg = WCfg { kind, dur: if kind.ends_with("liding") { slide * (1 + r.below(3)) as i64 } else { (1 + r.below(4)) as i64 * 500_000_000 }, slide, n: 2 + r.below(3) as usize, m: 1 + r.below(3) as usize };
    let subms = r.chance(1, 3);
    let ooo = r.chance(1, 4);
    let n_ops = 5 + r.below(if ctx.thorough { 16 } else { 10 });
    let n_cuts = 1 + r.below(2);
    let cut_at: Vec<u64> = (0..n_cuts).map(|_| r.below(n_ops)).collect();
    ctx.directive("new");
    ctx.directive(&format!("wcfg {} {} {} {} {}", cfg.kind, cfg.dur, cfg.slide, cfg.n, cfg.m));
    ctx.count(&format!("win:{}", kind));
    if subms { ctx.count("win:sub-ms-scenario"); }
    let mut a = mk_win(&cfg);
    let mut b: Option<Win> = None;
    let mut t_ms: i64 = ctx.rng.range(0, 2) * 1000;
    for i in 0..n_ops {
        if cut_at.contains(&i) {
            let cp = a.checkpoint();
            let res = catch(std::panic::AssertUnwindSafe(|| {
                let bytes = codec::serialize(&cp, CheckpointFormat::active()).map_err(|_| ())?;
                let j = json_tree(&bytes);
                let cp2: WindowCheckpoint = codec::deserialize(&bytes).map_err(|_| ())?;
                let mut fresh = mk_win(&cfg);
                fresh.restore(&cp2);
                let bytes2 = codec::serialize(&fresh.checkpoint(), CheckpointFormat::active()).map_err(|_| ())?;
                let j = format!("{} J2={}", j, json_tree(&bytes2));
                Ok::<(String, Win), ()>((j, fresh))
            }));
            match res {
                Ok(Ok((j, fresh))) => { b = Some(fresh); ctx.case("wcut", &j); }
                Ok(Err(())) => { ctx.case("wcut", "unreadable"); return; }
                Err(_) => { ctx.case("wcut", "panic"); return; }
            }
            ctx.count("win:cut");
        }
        t_ms += *ctx.rng.pick(&[0i64, 1, 250, 250, 500, 500, 750, 1000, 1500, 2500]);
        if ctx.rng.chance(1, 6) {
            let t = (t_ms + ctx.rng.range(-600, 900)) * 1_000_000 + if subms { ctx.rng.range(0, 999_999) } else { 0 };
            let ra = a.wm(t);
            match b.as_mut() { Some(bw) => { let rb = bw.wm(t); ctx.case(&format!("wwm {}", t), &format!("A={} B={}", ra, rb)); } None => ctx.case(&format!("wwm {}", t), &ra) }
            ctx.count("win:wm");
        } else {
            let mut ts = t_ms * 1_000_000;
            if ooo && ctx.rng.chance(1, 3) { ts -= ctx.rng.range(0, 2500) * 1_000_000; }
            if subms { ts += ctx.rng.range(0, 999_999); }
            let mut f: Vec<(String, Value)> = vec![("id".into(), Value::Int(i as i64))];
            match ctx.rng.below(8) { 0 => {} 1 => f.push(("k".into(), Value::Int(ctx.rng.range(0, 1)))), _ => f.push(("k".into(), Value::Str((*ctx.rng.pick(&["a", "b", "c"])).into()))) }
            let e = mk_event("T", ts, f);
            let l = t_event(&e).text();
            let ra = a.add(e.clone());
            match b.as_mut() { Some(bw) => { let rb = bw.add(e); ctx.case(&format!("wadd {}", l), &format!("A={} B={}", ra, rb)); } None => ctx.case(&format!("wadd {}", l), &ra) }
            ctx.count("win:add");
        }
    }
}

// ---------------------------------------------------------------------------------------------
// C19, component level: SaseEngine through its public API (event-time state is reachable only here:
// the engine compiles every VPL sequence with processing-time semantics)
// ---------------------------------------------------------------------------------------------
use varpulis_runtime::sase::{CompareOp, MatchResult, PatternBuilder, Predicate, SaseEngine, SasePattern};

fn sev(ty: &str, pred: Option<Predicate>, alias: &str) -> SasePattern {
    SasePattern::Event { event_type: ty.to_string(), predicate: pred, alias: Some(alias.to_string()) }
}
fn cref(field: &str, op: CompareOp, alias: &str, rfield: &str) -> Predicate {
    Predicate::CompareRef { field: field.to_string(), op, ref_alias: alias.to_string(), ref_field: rfield.to_string() }
}

struct SaseProg { form: u64, within_ms: Option<u64>, event_time: bool, partition: bool, tags: Vec<&'static str> }

fn mk_sase(p: &SaseProg) -> SaseEngine {
    let pat = match p.form {
        0 => PatternBuilder::seq(vec![sev("A", None, "a"), sev("B", None, "b")]),
        1 => PatternBuilder::seq(vec![sev("A", None, "a"), sev("B", None, "b"), sev("C", None, "c")]),
        2 => PatternBuilder::seq(vec![sev("A", None, "a"), PatternBuilder::one_or_more(sev("B", None, "b")), sev("C", None, "c")]),
        3 => PatternBuilder::and(sev("A", None, "a"), sev("B", None, "b")),
        4 => PatternBuilder::seq(vec![sev("A", None, "a"), sev("B", Some(cref("id", CompareOp::Eq, "a", "id")), "b")]),
        5 => PatternBuilder::seq(vec![sev("A", None, "a"), PatternBuilder::one_or_more(sev("B", Some(cref("x", CompareOp::Ge, "b", "x")), "b")), sev("C", None, "c")]),
        _ => PatternBuilder::seq(vec![PatternBuilder::and(sev("A", None, "a"), sev("B", None, "b")), sev("C", None, "c")]),
    };
    let pat = match p.within_ms { Some(ms) => PatternBuilder::within(pat, std::time::Duration::from_millis(ms)), None => pat };
    let mut e = SaseEngine::new(pat);
    if p.event_time { e = e.with_event_time(); }
    if p.partition { e = e.with_partition_by("k".to_string()); }
    e
}

fn match_text(m: &MatchResult) -> String {
    let mut caps: Vec<String> = m.captured.iter().map(|(a, e)| format!("{}={}", a, em_tok(e))).collect();
    caps.sort();
    format!("<{}|{}>", caps.join(","), m.stack.iter().map(|s| em_tok(&s.event)).collect::<Vec<_>>().join(","))
}
fn sase_step(e: &mut SaseEngine, ev: &Event) -> String {
    let mut ms: Vec<String> = e.process(ev).iter().map(match_text).collect();
    ms.sort();
    ms.join(" ")
}

fn run_sase_scenario(ctx: &mut Ctx) {
    let form = ctx.rng.below(7);
    let mut tags: Vec<&'static str> = vec![["api-seq2", "api-seq3", "api-kleene", "api-and", "api-seq-ref", "kleene-self-ref", "api-and-seq"][form as usize]];
    let event_time = ctx.rng.chance(2, 3);
    let within_ms = if ctx.rng.chance(1, 2) { Some(1000 + 500 * ctx.rng.below(5)) } else { None };
    let partition = ctx.rng.chance(1, 3);
    if event_time { tags.push("event-time"); }
    if within_ms.is_some() { tags.push("within"); }
    if partition { tags.push("seq-partitioned"); }
    let p = SaseProg { form, within_ms, event_time, partition, tags };
    let subms = ctx.rng.chance(1, 3);
    let ooo = ctx.rng.chance(1, 5);
    let n = 4 + ctx.rng.below(if ctx.thorough { 12 } else { 8 }) as usize;
    let mut evs = Vec::new();
    let mut t_ms: i64 = 0;
    for i in 0..n {
        t_ms += *ctx.rng.pick(&[0i64, 1, 250, 500, 500, 1000, 1500, 2500]);
        let mut ts = t_ms * 1_000_000;
        if ooo && ctx.rng.chance(1, 3) { ts -= ctx.rng.range(0, 2000) * 1_000_000; }
        if subms { ts += ctx.rng.range(0, 999_999); }
        let ty = *ctx.rng.pick(&["A", "B", "B", "C"]);
        evs.push(mk_event(ty, ts, vec![("id".into(), Value::Int(i as i64)), ("x".into(), Value::Int(ctx.rng.range(-1, 2))), ("k".into(), Value::Str((*ctx.rng.pick(&["a", "b"])).into()))]));
    }
    let run = |skip: usize, mut e: SaseEngine| -> Vec<String> { evs[skip..].iter().map(|ev| sase_step(&mut e, ev)).collect() };
    let base = run(0, mk_sase(&p));
    if base != run(0, mk_sase(&p)) { ctx.count("sase:nondeterministic-skipped"); return; }
    ctx.directive("new");
    ctx.directive(&format!("prog {} | SaseEngine form={} within={:?} event_time={} partition={}", p.tags.join(","), p.form, p.within_ms, p.event_time, p.partition));
    for ev in &evs { ctx.directive(&format!("op ev {}", t_event(ev).text())); }
    for t in &p.tags { ctx.count(&format!("sase:{}", t)); }
    let mut main = mk_sase(&p);
    for k in 0..=evs.len() {
        let cp = main.checkpoint();
        let l = t_sase(&cp).text();
        let recheck = std::cell::RefCell::new(String::from("n"));
        let res = catch(std::panic::AssertUnwindSafe(|| {
            let bytes = match codec::serialize(&cp, CheckpointFormat::active()) { Ok(b) => b, Err(_) => return "unreadable serialize".to_string() };
            let cp2: SaseCheckpoint = match codec::deserialize(&bytes) { Ok(c) => c, Err(_) => return "unreadable deserialize".to_string() };
            let mut fresh = mk_sase(&p);
            fresh.restore(&cp2);
            *recheck.borrow_mut() = t_sase(&fresh.checkpoint()).text();
            let got: Vec<String> = evs[k..].iter().map(|ev| sase_step(&mut fresh, ev)).collect();
            let exp = &base[k..];
            if got.as_slice() == exp { "same".to_string() } else {
                let i = (0..exp.len()).find(|i| got.get(*i) != exp.get(*i)).unwrap_or(0);
                format!("diff at={} exp=[{}] got=[{}]", k + i, exp.get(i).cloned().unwrap_or_default(), got.get(i).cloned().unwrap_or_default())
            }
        })).unwrap_or_else(|_| "panic".into());
        if res == "same" { ctx.count("scut:same"); } else { ctx.count("scut:DIFFERENT"); }
        let sub = evs[..k].iter().any(|e| e.timestamp.timestamp_subsec_nanos() % 1_000_000 != 0);
        ctx.case(&format!("scut {} {} tags={} subms={} {} ## {}", k, evs.len(), p.tags.join(","), if sub { 1 } else { 0 }, l, recheck.borrow()), &res);
        if k < evs.len() { sase_step(&mut main, &evs[k]); }
    }
}

// ---------------------------------------------------------------------------------------------
// C19, component level: PerSourceWatermarkTracker through its public API (model replay)
// ---------------------------------------------------------------------------------------------
use varpulis_runtime::watermark::PerSourceWatermarkTracker;

fn eff_text(t: &PerSourceWatermarkTracker) -> String {
    t.effective_watermark().map(|w| w.timestamp_nanos_opt().unwrap_or(0).to_string()).unwrap_or_else(|| "-".into())
}

fn run_tracker_scenario(ctx: &mut Ctx) {
    const SRC: &[&str] = &["T", "U", "V"];
    let nreg = ctx.rng.below(3) as usize;
    let regs: Vec<(&str, i64)> = (0..nreg).map(|i| (SRC[i], ctx.rng.range(0, 3) * 500)).collect();
    let mk = |regs: &Vec<(&str, i64)>| { let mut t = PerSourceWatermarkTracker::new(); for (s, ooo) in regs { t.register_source(s, chrono::Duration::milliseconds(*ooo)); } t };
    let subms = ctx.rng.chance(1, 2);
    let n_ops = 4 + ctx.rng.below(if ctx.thorough { 14 } else { 9 });
    let cut_at = ctx.rng.below(n_ops);
    ctx.directive("new");
    ctx.directive(&format!("tcfg {}", if regs.is_empty() { "-".to_string() } else { regs.iter().map(|(s, o)| format!("{}:{}", s, o)).collect::<Vec<_>>().join(",") }));
    ctx.count("tracker:scenario");
    let mut a = mk(&regs);
    let mut b: Option<PerSourceWatermarkTracker> = None;
    let mut t_ms: i64 = 0;
    for i in 0..n_ops {
        if i == cut_at {
            let cp = a.checkpoint();
            let bytes = match codec::serialize(&cp, CheckpointFormat::active()) { Ok(x) => x, Err(_) => { ctx.case("tcut", "unreadable"); return; } };
            let j = json_tree(&bytes);
            match codec::deserialize::<WatermarkCheckpoint>(&bytes) {
                Ok(cp2) => { let mut f = mk(&regs); f.restore(&cp2); b = Some(f); ctx.case("tcut", &j); }
                Err(_) => { ctx.case("tcut", "unreadable"); return; }
            }
        }
        t_ms += *ctx.rng.pick(&[0i64, 1, 250, 500, 1000, 2000]);
        let src = *ctx.rng.pick(SRC);
        let ts = (t_ms + ctx.rng.range(-1500, 500)) * 1_000_000 + if subms { ctx.rng.range(0, 999_999) } else { 0 };
        let adv = ctx.rng.chance(1, 4);
        let t = chrono::DateTime::from_timestamp_nanos(ts);
        if adv { a.advance_source_watermark(src, t); } else { a.observe_event(src, t); }
        let ra = eff_text(&a);
        let line = format!("{} {} {}", if adv { "tadv" } else { "tobs" }, src, ts);
        match b.as_mut() {
            Some(bt) => { if adv { bt.advance_source_watermark(src, t); } else { bt.observe_event(src, t); } let rb = eff_text(bt); ctx.case(&line, &format!("A={} B={}", ra, rb)); }
            None => ctx.case(&line, &ra),
        }
        ctx.count(if adv { "tracker:advance" } else { "tracker:observe" });
    }
}

fn wev(ty: &str, ts_ns: i64, id: i64, x: i64, k: &str) -> Op {
    Op::Ev(mk_event(ty, ts_ns, vec![("id".into(), Value::Int(id)), ("x".into(), Value::Int(x)), ("k".into(), Value::Str(k.into()))]))
}

/// minimal witnesses of every repaired defect and of every listed finding: replayed on every run
fn witness_scenarios() -> Vec<Scenario> {
    const S: i64 = 1_000_000_000;
    const MS: i64 = 1_000_000;
    let mk = |text: &str, tags: Vec<&'static str>, wm: bool, ops: Vec<Op>| Scenario { prog: Prog { text: text.to_string(), types: vec![], tags, wm, var: false, wspec: None }, ops };
    vec![
        mk("stream W = T\n    .window(3, sliding: 2)\n    .emit(id: id)", vec!["witness", "slidingCount", "slidingCount-plain"], false,
           (0..7).map(|i| wev("T", i * S, i, 0, "a")).collect()),
        mk("stream W = T\n    .partition_by(k)\n    .window(2, sliding: 1)\n    .emit(id: id)", vec!["witness", "slidingCount", "partitioned"], false,
           (0..6).map(|i| wev("T", i * S, i, 0, if i % 2 == 0 { "a" } else { "b" })).collect()),
        mk("pattern P = A AND B\n\nstream S = P\n    .emit(m: \"hit\")", vec!["witness", "pat-and"], false,
           vec![wev("A", 0, 0, 0, "a"), wev("B", S, 1, 0, "a"), wev("A", 2 * S, 2, 0, "a")]),
        mk("stream W = T\n    .window(1s)\n    .emit(id: id)", vec!["witness", "tumbling"], false,
           vec![wev("T", MS + 500_000, 0, 0, "a"), wev("T", S + MS + 300_000, 1, 0, "a"), wev("T", S + MS + 600_000, 2, 0, "a")]),
        mk("stream W = T\n    .window(2s, sliding: 1s)\n    .emit(id: id)", vec!["witness", "sliding"], false,
           vec![wev("T", MS + 500_000, 0, 0, "a"), wev("T", S + MS + 300_000, 1, 0, "a"), wev("T", S + MS + 600_000, 2, 0, "a")]),
        mk("stream W = T\n    .window(session: 1s)\n    .emit(id: id)", vec!["witness", "session"], false,
           vec![wev("T", MS + 100_000, 0, 0, "a"), wev("T", S + MS + 600_000, 1, 0, "a"), wev("T", 5 * S, 2, 0, "a")]),
        mk("stream S = A as a\n    -> all B where x >= b.x as b\n    -> C as c\n    .emit(ax: a.x, bx: b.x, cx: c.x)", vec!["witness", "kleene-self-ref"], false,
           vec![wev("A", 0, 0, 0, "a"), wev("B", S, 1, 1, "a"), wev("B", 2 * S, 2, 2, "a"), wev("C", 3 * S, 3, 0, "a")]),
        mk("stream J = join(A, B)\n    .on(A.k == B.k)\n    .window(10s)\n    .emit(k: A.k, ax: A.x, bx: B.x)", vec!["witness", "join"], false,
           vec![wev("A", 0, 0, 7, "a"), wev("A", 9_800 * MS, 1, 0, "z"), wev("A", 10_300 * MS, 2, 0, "z"), wev("A", 10_400 * MS, 3, 0, "z"), wev("B", 5 * S, 4, 8, "a")]),
        mk("stream J = join(A, B)\n    .on(A.k == B.k)\n    .window(10s)\n    .emit(k: A.k, ax: A.x, bx: B.x)", vec!["witness", "join"], false,
           vec![wev("A", 0, 0, 7, "a"), wev("A", 10 * S, 1, 0, "z"), wev("A", 12 * S, 2, 0, "z"), wev("B", 5 * S, 4, 8, "a")]),
        mk("stream J = join(A, B)\n    .on(A.k == B.k)\n    .window(1s)\n    .emit(k: A.k, ax: A.x, bx: B.x)", vec!["witness", "join"], false,
           vec![wev("A", 500_000, 0, 7, "a"), wev("B", S + 300_000, 1, 8, "a"), wev("A", 3 * S + 700_000, 2, 1, "a"), wev("B", 3 * S + 200_000, 3, 2, "a")]),
        // arrival order of a join buffer: A(x=1)@10s arrives before A(x=2)@5s; B@12s must join with x=2
        mk("stream J = join(A, B)\n    .on(A.k == B.k)\n    .window(60s)\n    .emit(k: A.k, ax: A.x, bx: B.x)", vec!["witness", "join", "join-out-of-order"], false,
           vec![wev("A", 10 * S, 0, 1, "a"), wev("A", 5 * S, 1, 2, "a"), wev("B", 12 * S, 2, 9, "a")]),
        mk("stream W = T\n    .watermark(out_of_order: 0s)\n    .window(5s)\n    .aggregate(n: count())\n    .emit(n: n)\n\nstream WU = U\n    .watermark(out_of_order: 0s)\n    .window(1s)\n    .aggregate(n: count())\n    .emit(un: n)",
           vec!["witness", "watermark", "two-sources"], true,
           vec![wev("T", 12 * S, 0, 0, "a"), wev("U", 2 * S, 1, 0, "a"), Op::Wm("U".into(), 8000), wev("U", 9 * S, 2, 0, "a")]),
    ]
}

fn run_c19(ctx: &mut Ctx) {
    let rt = tokio::runtime::Builder::new_current_thread().enable_all().build().unwrap();
    for sc in witness_scenarios() { run_scenario(ctx, &rt, &sc, true, false); }
    let n = if ctx.thorough { 4000 } else { 350 };
    for _ in 0..n { let sc = gen_scenario(ctx); run_scenario(ctx, &rt, &sc, true, false); }
    for _ in 0..(if ctx.thorough { 1500 } else { 120 }) { let sc = gen_join_scenario(ctx); run_scenario(ctx, &rt, &sc, true, false); }
    for _ in 0..(if ctx.thorough { 6000 } else { 500 }) { run_window_scenario(ctx); }
    for _ in 0..(if ctx.thorough { 3000 } else { 250 }) { run_sase_scenario(ctx); }
    for _ in 0..(if ctx.thorough { 3000 } else { 300 }) { run_tracker_scenario(ctx); }
}

pub fn run(ctx: &mut Ctx, name: &str) {
    match name {
        "C20" => run_c20(ctx),
        "C19" => run_c19(ctx),
        _ => { run_c20(ctx); run_c19(ctx); }
    }
}
