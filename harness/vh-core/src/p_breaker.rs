//! C45: CircuitBreaker / ResilientSink / DeadLetterQueue on a virtual clock (ms), with up to three
//! concurrent senders as interleaved steps (no threads: a sender is "inside the inner sink" between
//! its `allow`/`start` step and its `res`/`finish` step).
//! Case lines:
//!   new breaker <threshold> <timeout_ms>
//!   allow <sender> <t>            => <0|1> <C|O|H> f=<failures_total> s=<successes_total> r=<rejections_total>
//!   res <sender> <ok|fail> <t>    => <C|O|H> f=… s=… r=…
//!   new sink <threshold> <timeout_ms> <sink name>
//!   start <sender> <single|batch> <id,id,…> <t>          => pending <C|O|H> | rej <C|O|H> dlq=<entries> del=<ids>
//!   finish <sender> <ok|fail> <k> <msg hex> <t>           => ok|err:<msg hex> <C|O|H> dlq=<entries> del=<ids>
//!   engine <n> <inner error hex> => dlq=<entries>   (Engine::load → wrap_with_resilience around a file sink on /dev/full)
//!   threads <n> <calls>  => admitted=<count> <C|O|H>   (real threads on an open breaker whose timeout has passed)
//!     entries = new DLQ file lines read back: <connector hex>|<error hex>|<event id>;…  (or -)
use crate::util::Ctx;
use async_trait::async_trait;
use std::collections::HashMap;
use std::sync::{Arc, Mutex};
use std::time::{Duration, Instant};
use varpulis_core::Value;
use varpulis_runtime::circuit_breaker::{verif_clock, CircuitBreaker, CircuitBreakerConfig, State};
use varpulis_runtime::dead_letter::DeadLetterQueue;
use varpulis_runtime::event::Event;
use varpulis_runtime::sink::{ResilientSink, Sink};

pub const NAMES: &[&str] = &["C45"];

fn hex(s: &str) -> String {
    if s.is_empty() { return "-".to_string(); }
    s.bytes().map(|b| format!("{:02x}", b)).collect()
}
fn st(s: State) -> &'static str { match s { State::Closed => "C", State::Open => "O", State::HalfOpen => "H" } }
fn counters(cb: &CircuitBreaker) -> String {
    use std::sync::atomic::Ordering::Relaxed;
    format!("f={} s={} r={}", cb.failures_total.load(Relaxed), cb.successes_total.load(Relaxed), cb.rejections_total.load(Relaxed))
}

// ------------------------------------------------------------------ breaker level

struct BreakerSys { base: Instant, cb: CircuitBreaker }
impl BreakerSys {
    fn new(threshold: u32, timeout: u64) -> Self {
        BreakerSys { base: Instant::now(), cb: CircuitBreaker::new(CircuitBreakerConfig { failure_threshold: threshold, reset_timeout: Duration::from_millis(timeout) }) }
    }
    fn at(&self, t: u64) { verif_clock::set(Some(self.base + Duration::from_millis(t))); }
    fn allow(&self, t: u64) -> (bool, String) {
        self.at(t);
        let a = self.cb.allow_request();
        (a, format!("{} {} {}", a as u8, st(self.cb.state()), counters(&self.cb)))
    }
    fn res(&self, ok: bool, t: u64) -> String {
        self.at(t);
        if ok { self.cb.record_success() } else { self.cb.record_failure() }
        format!("{} {}", st(self.cb.state()), counters(&self.cb))
    }
}
impl Drop for BreakerSys { fn drop(&mut self) { verif_clock::set(None); } }

/// abstract step of an interleaving: the harness resolves sender identities
#[derive(Clone, Copy, Debug, PartialEq)]
enum B { Allow, Ok(usize), Fail(usize), Tick(u64) }

fn play_breaker(ctx: &mut Ctx, threshold: u32, timeout: u64, steps: &[B]) {
    ctx.directive(&format!("new breaker {} {}", threshold, timeout));
    let sys = BreakerSys::new(threshold, timeout);
    let mut inflight: Vec<u64> = Vec::new(); // sender ids inside the sink, oldest first
    let mut t = 5u64;
    for s in steps {
        match *s {
            B::Tick(d) => t += d,
            B::Allow => {
                let sender = (1..=3u64).find(|x| !inflight.contains(x));
                if let Some(sender) = sender {
                    let (a, r) = sys.allow(t);
                    if a { inflight.push(sender); }
                    ctx.count(&format!("allow:{}", r.split(' ').take(2).collect::<Vec<_>>().join("")));
                    ctx.case(&format!("allow {} {}", sender, t), &r);
                }
            }
            B::Ok(j) | B::Fail(j) => {
                if j < inflight.len() {
                    let sender = inflight.remove(j);
                    let ok = matches!(s, B::Ok(_));
                    let r = sys.res(ok, t);
                    ctx.count(&format!("res:{}:{}", if ok { "ok" } else { "fail" }, &r[..1]));
                    ctx.case(&format!("res {} {} {}", sender, if ok { "ok" } else { "fail" }, t), &r);
                }
            }
        }
    }
}

fn exhaustive_breaker(ctx: &mut Ctx, threshold: u32, timeout: u64, depth: usize) {
    let alphabet = [B::Allow, B::Ok(0), B::Fail(0), B::Ok(1), B::Fail(1), B::Fail(2), B::Tick(timeout), B::Tick(timeout - 1)];
    let n = alphabet.len();
    let total = n.pow(depth as u32);
    for code in 0..total {
        let mut k = code;
        let mut steps = Vec::with_capacity(depth + 2);
        // start from a breaker one failure away from opening, so that short sequences reach every state
        for _ in 1..threshold { steps.push(B::Allow); steps.push(B::Fail(0)); }
        for _ in 0..depth { steps.push(alphabet[k % n]); k /= n; }
        play_breaker(ctx, threshold, timeout, &steps);
    }
}

fn random_breaker(ctx: &mut Ctx) {
    let threshold = ctx.rng.range(1, 4) as u32;
    let timeout = *ctx.rng.pick(&[1u64, 10, 100, 30000]);
    let mut steps = Vec::new();
    let nres = ctx.rng.range(3, 12);
    let mut results = 0;
    let fail_bias = ctx.rng.range(2, 8) as u64;
    while results < nres && steps.len() < 60 {
        match ctx.rng.below(10) {
            0..=3 => steps.push(B::Allow),
            4..=7 => {
                let j = ctx.rng.below(3) as usize;
                steps.push(if ctx.rng.below(10) < fail_bias { B::Fail(j) } else { B::Ok(j) });
                results += 1;
            }
            8 => steps.push(B::Tick(*ctx.rng.pick(&[0, 1, timeout - 1, timeout, timeout + 1, timeout / 2]))),
            _ => steps.push(B::Tick(timeout)),
        }
    }
    play_breaker(ctx, threshold, timeout, &steps);
}

/// real OS threads (real clock, reset_timeout 0): after one failure the breaker is open and the
/// timeout has already passed; `nthreads` threads call allow_request() `ncalls` times each without
/// recording a result. Whatever the schedule, exactly one call (the probe) may be admitted.
fn threads_case(ctx: &mut Ctx, nthreads: usize, ncalls: usize) {
    verif_clock::set(None);
    let cb = Arc::new(CircuitBreaker::new(CircuitBreakerConfig { failure_threshold: 1, reset_timeout: Duration::from_millis(0) }));
    cb.record_failure();
    let handles: Vec<_> = (0..nthreads).map(|_| {
        let cb = cb.clone();
        std::thread::spawn(move || (0..ncalls).filter(|_| cb.allow_request()).count())
    }).collect();
    let admitted: usize = handles.into_iter().map(|h| h.join().unwrap_or(usize::MAX / 8)).sum();
    ctx.directive("new breaker 1 0");
    ctx.count("threads");
    ctx.case(&format!("threads {} {}", nthreads, ncalls), &format!("admitted={} {}", admitted, st(cb.state())));
}

// ------------------------------------------------------------------ sink level

enum Out { Ok, Fail(String, usize) }

#[derive(Default)]
struct Shared {
    delivered: Vec<u64>,
    arrived: Vec<u64>,
    gates: HashMap<u64, tokio::sync::oneshot::Receiver<Out>>,
}

struct Mock { name: String, sh: Arc<Mutex<Shared>> }

fn ev_id(e: &Event) -> u64 { match e.data.get("id") { Some(Value::Int(i)) => *i as u64, _ => u64::MAX } }

#[async_trait]
impl Sink for Mock {
    fn name(&self) -> &str { &self.name }
    async fn send(&self, event: &Event) -> anyhow::Result<()> {
        let id = ev_id(event);
        let rx = { let mut sh = self.sh.lock().unwrap(); sh.arrived.push(id); sh.gates.remove(&id) };
        match rx {
            Some(rx) => match rx.await {
                Ok(Out::Ok) => { self.sh.lock().unwrap().delivered.push(id); Ok(()) }
                Ok(Out::Fail(m, _)) => Err(anyhow::anyhow!(m)),
                Err(_) => Err(anyhow::anyhow!("gate dropped")),
            },
            None => Err(anyhow::anyhow!("no gate")),
        }
    }
    async fn send_batch(&self, events: &[Arc<Event>]) -> anyhow::Result<()> {
        let ids: Vec<u64> = events.iter().map(|e| ev_id(e)).collect();
        let rx = { let mut sh = self.sh.lock().unwrap(); sh.arrived.push(ids[0]); sh.gates.remove(&ids[0]) };
        match rx {
            Some(rx) => match rx.await {
                Ok(Out::Ok) => { self.sh.lock().unwrap().delivered.extend(ids); Ok(()) }
                Ok(Out::Fail(m, k)) => { self.sh.lock().unwrap().delivered.extend(ids.into_iter().take(k)); Err(anyhow::anyhow!(m)) }
                Err(_) => Err(anyhow::anyhow!("gate dropped")),
            },
            None => Err(anyhow::anyhow!("no gate")),
        }
    }
    async fn flush(&self) -> anyhow::Result<()> { Ok(()) }
    async fn close(&self) -> anyhow::Result<()> { Ok(()) }
}

struct Pending { handle: tokio::task::JoinHandle<Result<(), String>>, tx: tokio::sync::oneshot::Sender<Out> }

struct SinkSys {
    rt: tokio::runtime::Runtime,
    base: Instant,
    cb: Arc<CircuitBreaker>,
    rs: Arc<ResilientSink>,
    sh: Arc<Mutex<Shared>>,
    dlq_path: std::path::PathBuf,
    dlq_seen: usize,
    del_seen: usize,
    pending: HashMap<u64, Pending>,
}

impl SinkSys {
    fn new(threshold: u32, timeout: u64, name: &str, tag: u64) -> Self {
        let rt = tokio::runtime::Builder::new_current_thread().build().unwrap();
        let sh = Arc::new(Mutex::new(Shared::default()));
        let cb = Arc::new(CircuitBreaker::new(CircuitBreakerConfig { failure_threshold: threshold, reset_timeout: Duration::from_millis(timeout) }));
        let dlq_path = std::path::PathBuf::from(format!("/var/tmp/a10-dlq-{}-{}.jsonl", std::process::id(), tag));
        let _ = std::fs::remove_file(&dlq_path);
        let dlq = Arc::new(DeadLetterQueue::open(&dlq_path).expect("open dlq"));
        let mock: Arc<dyn Sink> = Arc::new(Mock { name: name.to_string(), sh: sh.clone() });
        let rs = Arc::new(ResilientSink::new(mock, cb.clone(), Some(dlq)));
        SinkSys { rt, base: Instant::now(), cb, rs, sh, dlq_path, dlq_seen: 0, del_seen: 0, pending: HashMap::new() }
    }
    fn at(&self, t: u64) { verif_clock::set(Some(self.base + Duration::from_millis(t))); }
    /// new DLQ file lines (read back and parsed) and new deliveries since the last call
    fn deltas(&mut self) -> String {
        let content = std::fs::read_to_string(&self.dlq_path).unwrap_or_default();
        let lines: Vec<&str> = content.lines().collect();
        let mut entries = Vec::new();
        for l in &lines[self.dlq_seen.min(lines.len())..] {
            let e = match serde_json::from_str::<serde_json::Value>(l) {
                Ok(v) => {
                    let conn = v["connector"].as_str();
                    let err = v["error"].as_str();
                    let id = v["event"]["data"]["id"].as_i64();
                    let readable = v["timestamp"].is_string() && v["event"]["event_type"].is_string();
                    match (conn, err, id, readable) {
                        (Some(c), Some(e), Some(i), true) => format!("{}|{}|{}", hex(c), hex(e), i),
                        _ => "unreadable".to_string(),
                    }
                }
                Err(_) => "unreadable".to_string(),
            };
            entries.push(e);
        }
        self.dlq_seen = lines.len();
        let sh = self.sh.lock().unwrap();
        let del: Vec<String> = sh.delivered[self.del_seen..].iter().map(|x| x.to_string()).collect();
        self.del_seen = sh.delivered.len();
        format!("dlq={} del={}", if entries.is_empty() { "-".to_string() } else { entries.join(";") }, if del.is_empty() { "-".to_string() } else { del.join(",") })
    }
    fn start(&mut self, sender: u64, single: bool, ids: &[u64], t: u64) -> String {
        self.at(t);
        let (tx, rx) = tokio::sync::oneshot::channel();
        self.sh.lock().unwrap().gates.insert(ids[0], rx);
        let rs = self.rs.clone();
        let events: Vec<Arc<Event>> = ids.iter().map(|i| Arc::new(Event::new("Out").with_field("id", *i as i64))).collect();
        let handle = self.rt.spawn(async move {
            let r = if single { rs.send(&events[0]).await } else { rs.send_batch(&events).await };
            r.map_err(|e| e.to_string())
        });
        let sh = self.sh.clone();
        let first = ids[0];
        let arrived = self.rt.block_on(async {
            for _ in 0..200 {
                tokio::task::yield_now().await;
                if handle.is_finished() { return false; }
                if sh.lock().unwrap().arrived.contains(&first) { return true; }
            }
            false
        });
        if arrived {
            self.pending.insert(sender, Pending { handle, tx });
            format!("pending {}", st(self.cb.state()))
        } else {
            let r = self.rt.block_on(handle);
            self.sh.lock().unwrap().gates.remove(&first);
            let head = match r { Ok(Err(m)) if m.starts_with("circuit breaker open") => "rej".to_string(), Ok(Ok(())) => "ok".to_string(), Ok(Err(m)) => format!("err:{}", hex(&m)), Err(_) => "panic".to_string() };
            format!("{} {} {}", head, st(self.cb.state()), self.deltas())
        }
    }
    fn finish(&mut self, sender: u64, out: Out, t: u64) -> String {
        self.at(t);
        let p = self.pending.remove(&sender).expect("sender in flight");
        let _ = p.tx.send(out);
        let r = self.rt.block_on(p.handle);
        let head = match r { Ok(Ok(())) => "ok".to_string(), Ok(Err(m)) => format!("err:{}", hex(&m)), Err(_) => "panic".to_string() };
        format!("{} {} {}", head, st(self.cb.state()), self.deltas())
    }
}

impl Drop for SinkSys {
    fn drop(&mut self) { verif_clock::set(None); let _ = std::fs::remove_file(&self.dlq_path); }
}

const MSGS: &[&str] = &["connection refused", "timeout", "503 Service Unavailable", "boom: \"x\"", "é", "circuit breaker open"];

fn random_sink(ctx: &mut Ctx, tag: u64, sequential: bool) {
    let threshold = ctx.rng.range(1, 4) as u32;
    let timeout = *ctx.rng.pick(&[1u64, 10, 100, 30000]);
    let name = *ctx.rng.pick(&["kafka-out", "mqtt sink", "http|out;1", "é"]);
    ctx.directive(&format!("new sink {} {} {}", threshold, timeout, hex(name)));
    let mut sys = SinkSys::new(threshold, timeout, name, tag);
    let mut t = 3u64;
    let mut next_id = 1u64;
    let mut inflight: Vec<(u64, usize)> = Vec::new(); // (sender, batch size)
    let nres = ctx.rng.range(3, 12);
    let mut results = 0;
    let fail_bias = ctx.rng.range(2, 8) as u64;
    let mut steps = 0;
    while results < nres && steps < 60 {
        steps += 1;
        if ctx.rng.chance(1, 6) { t += *ctx.rng.pick(&[0, 1, timeout - 1, timeout, timeout + 1]); }
        let idle: Vec<u64> = (1..=3u64).filter(|x| !inflight.iter().any(|(s, _)| s == x)).collect();
        let do_start = !idle.is_empty() && (inflight.is_empty() || (!sequential && ctx.rng.chance(1, 2)));
        if do_start {
            let sender = *ctx.rng.pick(&idle);
            let single = ctx.rng.chance(1, 2);
            let n = if single { 1 } else { ctx.rng.range(1, 4) as u64 };
            let ids: Vec<u64> = (0..n).map(|k| next_id + k).collect();
            next_id += n;
            let r = sys.start(sender, single, &ids, t);
            ctx.count(&format!("start:{}:{}", if single { "single" } else { "batch" }, r.split(' ').next().unwrap()));
            if r.starts_with("pending") { inflight.push((sender, ids.len())); } else { results += 1; }
            ctx.case(&format!("start {} {} {} {}", sender, if single { "single" } else { "batch" }, ids.iter().map(|x| x.to_string()).collect::<Vec<_>>().join(","), t), &r);
        } else if !inflight.is_empty() {
            let j = ctx.rng.below(inflight.len() as u64) as usize;
            let (sender, size) = inflight.remove(j);
            let ok = ctx.rng.below(10) >= fail_bias;
            let msg = *ctx.rng.pick(MSGS);
            let k = if size > 1 { ctx.rng.below(size as u64) as usize } else { 0 };
            let r = sys.finish(sender, if ok { Out::Ok } else { Out::Fail(msg.to_string(), k) }, t);
            ctx.count(&format!("finish:{}:{}", if ok { "ok" } else { "fail" }, r.split(' ').nth(1).unwrap_or("?")));
            results += 1;
            ctx.case(&format!("finish {} {} {} {} {}", sender, if ok { "ok" } else { "fail" }, k, hex(msg), t), &r);
        }
    }
    // let the remaining senders complete so that every handed event is accounted for at the end
    while let Some((sender, _)) = inflight.pop() {
        let r = sys.finish(sender, Out::Ok, t);
        ctx.case(&format!("finish {} ok 0 - {}", sender, t), &r);
    }
}

/// `SinkRegistry::wrap_with_resilience` as the engine applies it: a VPL program whose `.to()` target is a
/// file connector on /dev/full (every write fails with ENOSPC). `Engine::load` wraps the sink with the
/// default breaker (threshold 5, 30 s) and the DLQ `varpulis-dlq.jsonl` in the working directory.
///   engine <n> <inner error hex> => dlq=<entries>
fn engine_case(ctx: &mut Ctx, n: u64) {
    if !std::path::Path::new("/dev/full").exists() { ctx.notes.push("engine case skipped: no /dev/full".into()); return; }
    let dlq_path = std::path::PathBuf::from("varpulis-dlq.jsonl");
    let _ = std::fs::remove_file(&dlq_path);
    let base = Instant::now();
    verif_clock::set(Some(base));
    let src = "connector Out = file(path: \"/dev/full\")\n\nstream S = In\n    .emit(id: id)\n    .to(Out)\n";
    let program = match varpulis_parser::parse(src) { Ok(p) => p, Err(e) => { eprintln!("generator error: engine case program does not parse: {e:?}"); std::process::exit(3) } };
    let rt = tokio::runtime::Builder::new_current_thread().enable_all().build().unwrap();
    let (tx, mut rx) = tokio::sync::mpsc::channel::<Event>(1024);
    let mut engine = varpulis_runtime::engine::Engine::new(tx);
    if let Err(e) = engine.load(&program) { eprintln!("generator error: engine case program does not load: {e}"); std::process::exit(3) }
    rt.block_on(async {
        for i in 1..=n {
            verif_clock::set(Some(base + Duration::from_millis(i)));
            let _ = engine.process(Event::new("In").with_field("id", i as i64)).await;
        }
    });
    while rx.try_recv().is_ok() {}
    drop(engine);
    verif_clock::set(None);
    let content = std::fs::read_to_string(&dlq_path).unwrap_or_default();
    let mut entries = Vec::new();
    for l in content.lines() {
        let e = match serde_json::from_str::<serde_json::Value>(l) {
            Ok(v) => match (v["connector"].as_str(), v["error"].as_str(), v["event"]["data"]["id"].as_i64(), v["timestamp"].is_string()) {
                (Some(c), Some(e), Some(i), true) => format!("{}|{}|{}", hex(c), hex(e), i),
                _ => "unreadable".to_string(),
            },
            Err(_) => "unreadable".to_string(),
        };
        entries.push(e);
    }
    let _ = std::fs::remove_file(&dlq_path);
    let msg = std::io::Error::from_raw_os_error(28).to_string();
    ctx.directive(&format!("new sink 5 30000 {}", hex("Out")));
    ctx.count("engine-wrap_with_resilience");
    ctx.case(&format!("engine {} {}", n, hex(&msg)), &format!("dlq={}", if entries.is_empty() { "-".to_string() } else { entries.join(";") }));
}

pub fn run(ctx: &mut Ctx, _name: &str) {
    for n in [3u64, 5, 6, 12] { engine_case(ctx, n); }
    // recorded witness of the repaired defect: three consecutive allow_request() while half-open
    play_breaker(ctx, 1, 100, &[B::Allow, B::Fail(0), B::Tick(100), B::Allow, B::Allow, B::Allow, B::Ok(0)]);
    // known finding C45-stale-result: a call admitted before the breaker opened completes while half-open
    play_breaker(ctx, 1, 100, &[B::Allow, B::Allow, B::Fail(1), B::Tick(100), B::Allow, B::Ok(0), B::Fail(0)]);
    let depth = if ctx.thorough { 5 } else { 4 };
    for threshold in 1..=(if ctx.thorough { 4 } else { 2 }) { exhaustive_breaker(ctx, threshold, 100, depth); }
    if ctx.thorough { for threshold in 1..=2 { exhaustive_breaker(ctx, threshold, 100, 6); } }
    let n = if ctx.thorough { 20000 } else { 1500 };
    for _ in 0..n { random_breaker(ctx); }
    let n = if ctx.thorough { 6000 } else { 500 };
    for i in 0..n { random_sink(ctx, i, i % 4 == 0); }
    for _ in 0..(if ctx.thorough { 200 } else { 20 }) { threads_case(ctx, 3, 2000); }
}
