//! C42: declaration for-loops expand to the same program as writing the copies by hand.
//!
//! Two kinds of lines:
//!  `h <unit> <tokens…> => src=… out=… hand=… ast=…`  structured loop programs (the generator's own
//!        hand expansion, the real `expand_declaration_loops`, and the ASTs of `parse(loop program)`
//!        and `parse(hand-expanded program)`, spans removed);
//!  `x <text> => <expanded text | E:kind | PANIC>`       arbitrary small texts (mirror of the expander).
use crate::util::{catch, Ctx};

pub const NAMES: &[&str] = &["C42"];

/// text → one protocol token-safe string (no newline, no `>`, spaces kept)
pub fn enc(s: &str) -> String {
    let mut o = String::with_capacity(s.len() + 8);
    for c in s.chars() {
        match c {
            '\\' => o.push_str("\\\\"),
            '\n' => o.push_str("\\n"),
            '\r' => o.push_str("\\r"),
            '\t' => o.push_str("\\t"),
            '>' => o.push_str("\\g"),
            c if (c as u32) < 0x20 || (c as u32) > 0x7e => o.push_str(&format!("\\u{:x};", c as u32)),
            c => o.push(c),
        }
    }
    o
}
/// like `enc`, additionally without spaces (a single token)
pub fn enc_tok(s: &str) -> String { enc(s).replace(' ', "\\s") }

#[derive(Clone, Debug)]
pub enum Block {
    Line(String),
    /// `svar`/`evar`: the bound is the placeholder `{name}` of an enclosing loop instead of the literal
    /// (`evar` with `incl`: the header reads `..={name}`, i.e. the exclusive end is the value + 1)
    Loop { var: String, start: i64, end: i64, incl: bool, svar: Option<String>, evar: Option<String>, body: Vec<Block> },
}

pub fn header(var: &str, start: i64, end: i64, incl: bool, svar: &Option<String>, evar: &Option<String>) -> String {
    let s = match svar { Some(x) => format!("{{{}}}", x), None => start.to_string() };
    let e = match evar { Some(x) => format!("{{{}}}", x), None => if incl { (end - 1).to_string() } else { end.to_string() } };
    format!("for {} in {}..{}{}:", var, s, if incl { "=" } else { "" }, e)
}

pub fn render(unit: usize, depth: usize, bs: &[Block], out: &mut String) {
    for b in bs {
        match b {
            Block::Line(t) => { out.push_str(&" ".repeat(unit * depth)); out.push_str(t); out.push('\n'); }
            Block::Loop { var, start, end, incl, svar, evar, body } => {
                out.push_str(&" ".repeat(unit * depth));
                out.push_str(&header(var, *start, *end, *incl, svar, evar));
                out.push('\n');
                render(unit, depth + 1, body, out);
            }
        }
    }
}

/// the generator's own hand expansion: copies in order, `{var}` of the enclosing loops replaced, outermost first
pub fn hand(env: &mut Vec<(String, i64)>, bs: &[Block], out: &mut String) {
    for b in bs {
        match b {
            Block::Line(t) => {
                let mut s = t.clone();
                for (v, k) in env.iter() { s = s.replace(&format!("{{{}}}", v), &k.to_string()); }
                out.push_str(&s);
                out.push('\n');
            }
            Block::Loop { var, start, end, incl, svar, evar, body } => {
                // a placeholder bound takes the value of the outermost enclosing loop of that name
                let val = |x: &String| env.iter().find(|(v, _)| v == x).map(|(_, k)| *k).unwrap_or(0);
                let s0 = svar.as_ref().map(&val).unwrap_or(*start);
                let e0 = evar.as_ref().map(|x| val(x) + if *incl { 1 } else { 0 }).unwrap_or(*end);
                for k in s0..e0 {
                    env.push((var.clone(), k));
                    hand(env, body, out);
                    env.pop();
                }
            }
        }
    }
}

pub fn tokens(bs: &[Block], out: &mut Vec<String>) {
    for b in bs {
        match b {
            Block::Line(t) => out.push(format!("L:{}", enc_tok(t))),
            Block::Loop { var, start, end, incl, svar, evar, body } => {
                let s = match svar { Some(x) => format!("{{{}}}", x), None => start.to_string() };
                let e = match evar { Some(x) => format!("{{{}}}", x), None => end.to_string() };
                out.push(format!("F:{}:{}:{}:{}", enc_tok(var), s, e, if *incl { "i" } else { "x" }));
                tokens(body, out);
                out.push("E".to_string());
            }
        }
    }
}

/// Debug print of the AST with span offsets blanked
pub fn ast_nospan(p: &varpulis_core::ast::Program) -> String {
    let d = format!("{:?}", p);
    let mut o = String::with_capacity(d.len());
    let mut rest = d.as_str();
    loop {
        let a = rest.find("start: ");
        let b = rest.find("end: ");
        let (pos, klen) = match (a, b) {
            (Some(a), Some(b)) => if a < b { (a, 7) } else { (b, 5) },
            (Some(a), None) => (a, 7),
            (None, Some(b)) => (b, 5),
            (None, None) => { o.push_str(rest); break; }
        };
        o.push_str(&rest[..pos + klen]);
        rest = &rest[pos + klen..];
        let n = rest.bytes().take_while(|c| c.is_ascii_digit()).count();
        if n > 0 { o.push('_'); }
        rest = &rest[n..];
    }
    o
}

pub fn expand_result(src: &str) -> String {
    let s = src.to_string();
    match catch(move || varpulis_parser::expand::expand_declaration_loops(&s)) {
        Ok(Ok(t)) => enc(&t),
        Ok(Err(e)) => {
            if let Some(r) = e.strip_prefix("For loop range too large: ") {
                format!("E:range {}", r.split(' ').next().unwrap_or(""))
            } else if e.starts_with("Expansion limit exceeded") { "E:passes".to_string() }
            else if e.starts_with("Loop expansion too large") { "E:budget".to_string() }
            else { format!("E:other {}", enc(&e)) }
        }
        Err(_) => "PANIC".to_string(),
    }
}

fn ast_verdict(ctx: &mut Ctx, src: &str, hand_text: &str) -> String {
    let a = varpulis_parser::parse(src);
    let b = varpulis_parser::parse(hand_text);
    if let Err(e) = &b {
        if std::env::var("VERIF_DEBUG").is_ok() { eprintln!("hand text does not parse: {}\n{}", e, hand_text); }
        ctx.count("hand-text-rejected");
    }
    match (a, b) {
        (Ok(pa), Ok(pb)) => if ast_nospan(&pa) == ast_nospan(&pb) { format!("eq{}", pa.statements.len()) } else { "ne".to_string() },
        (Err(_), Ok(_)) => "err-loop".to_string(),
        (Ok(_), Err(_)) => "err-hand".to_string(),
        (Err(_), Err(_)) => "err-both".to_string(),
    }
}

const VARS: &[&str] = &["i", "j", "row", "c", "idx", "k2"];
const EVENTS: &[&str] = &["T", "Tick", "Reading", "Order"];

/// one declaration (1–3 lines, the first at relative indent 0) mentioning the placeholders of `vars`
fn gen_decl(ctx: &mut Ctx, all_vars: &[String], n: &mut u32) -> Vec<String> {
    *n += 1;
    // variables of loops that take negative values are marked with a leading '-' and are only used in
    // expression positions (`S-1` is not an identifier)
    let idvars: Vec<String> = all_vars.iter().filter(|v| !v.starts_with('-')).cloned().collect();
    let allv: Vec<String> = all_vars.iter().map(|v| v.trim_start_matches('-').to_string()).collect();
    let ph = |ctx: &mut Ctx| -> String {
        let vars = &idvars;
        if vars.is_empty() || ctx.rng.chance(1, 6) { String::new() }
        else if vars.len() > 1 && ctx.rng.chance(1, 2) { vars.iter().map(|v| format!("{{{}}}", v)).collect::<Vec<_>>().join(if ctx.rng.chance(1, 2) { "_" } else { "" }) }
        else { format!("{{{}}}", ctx.rng.pick(vars)) }
    };
    let num = |ctx: &mut Ctx| -> String {
        let vars = &allv;
        if vars.is_empty() || ctx.rng.chance(1, 3) { ctx.rng.range(0, 9).to_string() } else { format!("{{{}}}", ctx.rng.pick(vars)) }
    };
    let ev = *ctx.rng.pick(EVENTS);
    let k = ctx.rng.below(8);
    ctx.count(&format!("decl.{}", k));
    match k {
        0 => vec![format!("stream S{}_{} = {} .where(x == {}) .emit(v: x)", n, ph(ctx), ev, num(ctx))],
        1 => vec![format!("context c{}x{}", n, ph(ctx))],
        2 => vec![
            format!("stream M{}_{} = {}{}", n, ph(ctx), ev, ph(ctx)),
            format!("    .where(x > {} and y < {} * 10)", num(ctx), num(ctx)),
            format!("    .emit(v: x, k: {})", num(ctx)),
        ],
        3 => vec![format!("# tile {} of {}", ph(ctx), n), format!("stream C{}_{} = {} .emit(a: {})", n, ph(ctx), ev, num(ctx))],
        4 => vec![format!("event E{}_{}:", n, ph(ctx)), format!("    f{}: int", ph(ctx)), "    g: str".to_string()],
        5 => vec![format!("stream W{}_{} = {} .window({}) .aggregate(n: count(), s: sum(x)) .emit(n: n, t: {})", n, ph(ctx), ev, ctx.rng.range(1, 5), num(ctx))],
        6 => vec![format!("stream Q{}_{} = A{} as a -> B where x == a.x + {} as b .emit(ax: a.x)", n, ph(ctx), ph(ctx), num(ctx))],
        _ => vec![format!("stream P{}_{} = {}", n, ph(ctx), ev), format!("  .partition_by(k{})", ph(ctx)), "  .window(3)".to_string(), format!("  .aggregate(m: max(x) + {})", num(ctx))],
    }
}

fn gen_blocks(ctx: &mut Ctx, depth: usize, max_depth: usize, vars: &mut Vec<String>, n: &mut u32, top: bool) -> Vec<Block> {
    let items = if top { ctx.rng.range(1, 3) } else { ctx.rng.range(1, 2) };
    let mut out = Vec::new();
    for _ in 0..items {
        if depth < max_depth && ctx.rng.chance(if top { 3 } else { 2 }, 4) {
            let var = if !vars.is_empty() && ctx.rng.chance(1, 12) { vars[0].trim_start_matches('-').to_string() } else { VARS[(depth + ctx.rng.below(2) as usize * 3) % VARS.len()].to_string() };
            let start = if ctx.rng.chance(1, 5) { ctx.rng.range(-3, -1) } else { ctx.rng.range(0, 5) };
            // ranges of length 0-6, sometimes running backwards (no copies)
            let len = if ctx.rng.chance(1, 8) { ctx.count("loop.reversed"); -ctx.rng.range(1, 3) } else { ctx.rng.range(0, 6) };
            let incl = ctx.rng.chance(1, 3);
            // "triangular" nests: a bound of an inner loop is the placeholder of an enclosing loop
            let (mut svar, mut evar) = (None, None);
            if !vars.is_empty() && ctx.rng.chance(1, 4) {
                let outer = ctx.rng.pick(vars).clone();
                if outer.trim_start_matches('-') != var {
                    if ctx.rng.chance(2, 3) { evar = Some(outer.trim_start_matches('-').to_string()); ctx.count("loop.triangular.end"); }
                    else { svar = Some(outer.trim_start_matches('-').to_string()); ctx.count("loop.triangular.start"); }
                }
            }
            let neg_outer = svar.iter().chain(evar.iter()).any(|x| vars.iter().any(|v| v.starts_with('-') && v.trim_start_matches('-') == x));
            ctx.count(&format!("loop.depth{}.len{}", depth + 1, len));
            if incl { ctx.count("loop.inclusive"); }
            if vars.iter().any(|v| v.trim_start_matches('-') == var) { ctx.count("loop.shadowing"); }
            vars.push(if start < 0 || neg_outer { format!("-{}", var) } else { var.clone() });
            let body = gen_blocks(ctx, depth + 1, max_depth, vars, n, false);
            vars.pop();
            out.push(Block::Loop { var, start, end: start + len, incl, svar, evar, body });
        } else {
            for l in gen_decl(ctx, vars, n) { out.push(Block::Line(l)); }
        }
    }
    out
}

fn run_h(ctx: &mut Ctx, unit: usize, bs: &[Block]) {
    let mut src = String::new();
    render(unit, 0, bs, &mut src);
    let mut hand_text = String::new();
    hand(&mut Vec::new(), bs, &mut hand_text);
    let out = expand_result(&src);
    let ast = ast_verdict(ctx, &src, &hand_text);
    ctx.count(&format!("ast.{}", ast.trim_end_matches(|c: char| c.is_ascii_digit())));
    let mut toks = Vec::new();
    tokens(bs, &mut toks);
    ctx.case(&format!("h {} {}", unit, toks.join(" ")), &format!("src={} out={} hand={} ast={}", enc_tok(&src), out.replace(' ', "\\s"), enc_tok(&hand_text), ast));
}

const FRAGS: &[&str] = &[
    "for i in 0..3:", "for i in 0..=2:", "for j in -1..2:", "for i in 2..2:", "for i in 5..1:", "for  i  in  0 .. 2 :", "for i in 0..2: ",
    "for i in 0..3", "for i in items:", "for i in 0...3:", "for i in 0..=:", "for in 0..2:", "for i in +1..3:", "for i in 0..2:x",
    "for i in 0..20000:", "for i in -9223372036854775808..9223372036854775807:", "for i in 0..=9223372036854775807:",
    "for i in 9223372036854775800..=9223372036854775807:", "for i in 0..99999999999999999999:", "for i in 0..1_0:",
    "for i in  in 0..2:", "for a in b in 0..2:", "  for i in 0..2:", "\tfor i in 0..2:", "for\ti in 0..2:", "for i in 0..2:\r",
    "    x{i}", "    y {i} {j} {i}{j}", "  z", "        deep {i}", "\tt{i}", " \u{3000}w{i}", "\u{a0}nb{i}", " \u{e9}{i}", "  \u{e9}\u{e9}{i}", "   \u{1F600}{i}",
    "", "   ", "\t", "top", "top {i}", "{i}", "{}", "{{i}}", "    {{i}}", "    for j in 0..2:", "        q{i}{j}", "    for i in 0..{i}:", "\r", "a\r\r",
];

fn gen_text(ctx: &mut Ctx) -> String {
    let n = ctx.rng.range(1, 7);
    let mut s = String::new();
    for k in 0..n {
        s.push_str(*ctx.rng.pick(FRAGS));
        if k + 1 < n || ctx.rng.chance(3, 4) { s.push_str(if ctx.rng.chance(1, 10) { "\r\n" } else { "\n" }); }
    }
    s
}

/// thorough tier: every loop program of a small scope — declarations from 2 shapes (one of them with
/// a continuation line), ranges from {0..0, 0..1, 0..2, -1..1}, inner loops over 1–2 declarations, outer
/// loops over 1–2 items (declaration or inner loop), programs = one outer item, or a declaration
/// before/after an outer loop; indentation unit 2 and 4
fn exhaustive_small(ctx: &mut Ctx) {
    let ranges: [(i64, i64); 4] = [(0, 0), (0, 1), (0, 2), (-1, 1)];
    // `lvl` = number of enclosing loops whose variables the declaration mentions (0: none, 1: {i}, 2: {i} and {j})
    let leaf = |k: usize, tag: &str, lvl: usize| -> Vec<Block> {
        let i = if lvl >= 1 { "{i}" } else { "7" };
        let j = if lvl >= 2 { "{j}" } else { "8" };
        match k {
            0 => vec![Block::Line(format!("stream A{} = T .where(x == {} + {})", tag, i, j))],
            _ => vec![Block::Line(format!("stream B{} = T", tag)), Block::Line(format!("    .emit(v: {}, w: {})", j, i))],
        }
    };
    let mut leaves: Vec<Vec<Block>> = Vec::new();
    for k in 0..2 { leaves.push(leaf(k, "", 1)); }
    // inner loops over 1–2 declarations
    let mut inner: Vec<Block> = Vec::new();
    for &(s, e) in &ranges {
        for a in 0..2 {
            inner.push(Block::Loop { var: "j".into(), start: s, end: e, incl: false, svar: None, evar: None, body: leaf(a, "x", 2) });
            for b in 0..2 {
                let mut body = leaf(a, "x", 2); body.extend(leaf(b, "y", 2));
                inner.push(Block::Loop { var: "j".into(), start: s, end: e, incl: false, svar: None, evar: None, body });
            }
        }
    }
    // items of an outer body
    let mut items: Vec<Vec<Block>> = leaves.clone();
    for l in &inner { items.push(vec![l.clone()]); }
    let mut outer: Vec<Block> = Vec::new();
    for &(s, e) in &ranges {
        for a in 0..items.len() {
            outer.push(Block::Loop { var: "i".into(), start: s, end: e, incl: e > s && (s + e) % 2 == 0, svar: None, evar: None, body: items[a].clone() });
            for b in 0..items.len() {
                let mut body = items[a].clone(); body.extend(items[b].clone());
                outer.push(Block::Loop { var: "i".into(), start: s, end: e, incl: false, svar: None, evar: None, body });
            }
        }
    }
    ctx.count_n("exhaustive.outer-loops", outer.len() as u64);
    let mut n = 0u64;
    for (k, o) in outer.iter().enumerate() {
        let unit = if k % 2 == 0 { 4 } else { 2 };
        let progs: Vec<Vec<Block>> = vec![
            vec![o.clone()],
            { let mut p = leaf(0, "p", 0); p.push(o.clone()); p },
            { let mut p = vec![o.clone()]; p.extend(leaf(1, "q", 0)); p },
        ];
        for p in progs {
            ctx.directive("new e");
            run_h(ctx, unit, &p);
            n += 1;
        }
    }
    ctx.count_n("exhaustive.programs", n);
}

pub fn run(ctx: &mut Ctx, _name: &str) {
    std::panic::set_hook(Box::new(|_| {}));
    // fixed witnesses first (the documented examples of expand.rs and the shapes of DESIGN.md Appendix A)
    ctx.directive("new witnesses");
    let w = vec![
        Block::Loop { var: "i".into(), start: 0, end: 3, incl: false, svar: None, evar: None, body: vec![Block::Line("stream S{i} = T .where(x == {i}) .emit(v: x)".into())] },
        Block::Line("stream Z = T".into()),
        Block::Loop { var: "r".into(), start: 0, end: 2, incl: true, svar: None, evar: None, body: vec![
            Block::Loop { var: "c".into(), start: -1, end: 1, incl: false, svar: None, evar: None, body: vec![Block::Line("context t{r}x{c}".into())] },
            Block::Line("context row{r}".into()) ] },
    ];
    run_h(ctx, 4, &w);
    // a range that runs backwards stands for no copies; an inner bound that is the outer placeholder
    ctx.directive("new witnesses2");
    run_h(ctx, 4, &[
        Block::Loop { var: "i".into(), start: 5, end: 2, incl: false, svar: None, evar: None, body: vec![Block::Line("stream R{i} = T".into())] },
        Block::Line("stream Z1 = T".into()),
    ]);
    ctx.directive("new witnesses3");
    run_h(ctx, 4, &[
        Block::Loop { var: "r".into(), start: 1, end: 3, incl: false, svar: None, evar: None, body: vec![
            Block::Loop { var: "c".into(), start: 0, end: 0, incl: false, svar: None, evar: Some("r".into()), body: vec![Block::Line("context t{r}_{c}".into())] } ] },
        Block::Line("stream Z2 = T".into()),
    ]);
    let nh = if ctx.thorough { 6000 } else { 500 };
    for it in 0..nh {
        ctx.directive(&format!("new h{}", it));
        let mut n = 0u32;
        let max_depth = if ctx.rng.chance(1, 10) { 3 } else { 2 };
        let bs = gen_blocks(ctx, 0, max_depth, &mut Vec::new(), &mut n, true);
        let unit = *ctx.rng.pick(&[1usize, 2, 4, 4, 8]);
        run_h(ctx, unit, &bs);
    }
    // deep nesting around the pass limit
    for d in [8usize, 9, 10, 11] {
        ctx.directive(&format!("new deep{}", d));
        let mut b = vec![Block::Line("context deep{v0}".into())];
        for k in (0..d).rev() { b = vec![Block::Loop { var: format!("v{}", k), start: 0, end: if k == 0 { 2 } else { 1 }, incl: false, svar: None, evar: None, body: b }]; }
        run_h(ctx, 1, &b);
    }
    if ctx.thorough { exhaustive_small(ctx); }
    let nx = if ctx.thorough { 40000 } else { 3000 };
    for it in 0..nx {
        ctx.directive(&format!("new x{}", it));
        let t = gen_text(ctx);
        let r = expand_result(&t);
        ctx.count(if r.starts_with("E:") { "x.err" } else if r == "PANIC" { "x.panic" } else if r == enc(&t) { "x.unchanged" } else { "x.expanded" });
        ctx.case(&format!("x {}", enc(&t)), &r);
    }
}
