//! C24: per-source watermark tracker (`PerSourceWatermarkTracker`) and the late-data gate of
//! `Engine::process_inner`. Two kinds of scenario:
//!  * `new tracker` — register/observe/advance directly on the tracker, state from `checkpoint()`;
//!  * `new engine …` — VPL programs (parse + load) with `.watermark(out_of_order: …)` /
//!    `.allowed_lateness(…)` streams over several event types, events through `Engine::process`,
//!    outputs from the output channel, tracker state from `create_checkpoint().watermark_state`.
use crate::util::Ctx;
use chrono::{DateTime, Duration, Utc};
use varpulis_runtime::persistence::WatermarkCheckpoint;
use varpulis_runtime::watermark::PerSourceWatermarkTracker;
use varpulis_runtime::{Engine, Event};

pub const NAMES: &[&str] = &["C24"];

const BASE_MS: i64 = 1_700_000_000_000;

fn at(ms: i64) -> DateTime<Utc> { DateTime::from_timestamp_millis(BASE_MS + ms).expect("ts") }

fn fmt_o(o: Option<i64>) -> String { o.map(|v| (v - BASE_MS).to_string()).unwrap_or_else(|| "-".into()) }

/// canonical tracker state: `eff=<wm|-> srcs=<name>:<wm|->:<max|->:<ooo>,…` sorted by source index
fn fmt_cp(cp: &WatermarkCheckpoint, name_of: &dyn Fn(&str) -> Option<u64>) -> String {
    let mut v: Vec<(u64, String)> = cp.sources.iter().map(|(n, s)| {
        let i = name_of(n).unwrap_or(999);
        (i, format!("{}:{}:{}:{}", i, fmt_o(s.watermark_ms), fmt_o(s.max_timestamp_ms), s.max_out_of_orderness_ms))
    }).collect();
    v.sort();
    let srcs = if v.is_empty() { "-".to_string() } else { v.into_iter().map(|x| x.1).collect::<Vec<_>>().join(",") };
    format!("eff={} srcs={}", fmt_o(cp.effective_watermark_ms), srcs)
}

fn tracker_state(t: &PerSourceWatermarkTracker) -> String {
    let cp = t.checkpoint();
    // effective_watermark() and the checkpointed value must be the same thing
    let eff = t.effective_watermark().map(|w| w.timestamp_millis());
    let s = fmt_cp(&cp, &|n: &str| n.parse::<u64>().ok());
    if eff != cp.effective_watermark_ms { format!("{} EFF-MISMATCH", s) } else { s }
}

/// a timestamp generator with per-source drift and disorder
struct Clock { now: Vec<i64> }
impl Clock {
    fn next(&mut self, ctx: &mut Ctx, src: usize, step: i64) -> i64 {
        let r = ctx.rng.below(100);
        let c = &mut self.now[src];
        if r < 55 { *c += ctx.rng.range(0, 3) * step; *c }                 // in order (possibly equal)
        else if r < 80 { (*c - ctx.rng.range(1, 8) * step).max(0) }          // late by a little / a lot
        else if r < 90 { *c += ctx.rng.range(4, 12) * step; *c }             // jump ahead
        else { ctx.rng.range(0, (*c).max(step) / step + 2) * step }          // anywhere
    }
}

fn tracker_scenario(ctx: &mut Ctx, len: usize, pairs: &mut std::collections::HashSet<String>) {
    ctx.directive("new tracker");
    let mut t = PerSourceWatermarkTracker::new();
    let nsrc = ctx.rng.range(1, 4) as usize;
    let mut clock = Clock { now: vec![0; 5] };
    let oos = [0i64, 1, 2, 5, 10, 30];
    let mut registered = vec![false; 5];
    for s in 0..nsrc {
        if ctx.rng.chance(3, 4) {
            let ooo = *ctx.rng.pick(&oos);
            t.register_source(&s.to_string(), Duration::milliseconds(ooo));
            registered[s] = true;
            ctx.case(&format!("reg {} {}", s, ooo), &tracker_state(&t));
            ctx.count("tracker.register");
        }
    }
    for _ in 0..len {
        let r = ctx.rng.below(100);
        let s = ctx.rng.below(nsrc as u64 + 1) as usize; // one index beyond: never registered up front
        let before = tracker_state(&t);
        if r < 72 {
            let ts = clock.next(ctx, s, 1);
            t.observe_event(&s.to_string(), at(ts));
            if !registered[s] { ctx.count("tracker.observe.auto-register"); registered[s] = true; } else { ctx.count("tracker.observe"); }
            pairs.insert(format!("{}|obs {} {}", before, s, ts));
            ctx.case(&format!("obs {} {}", s, ts), &tracker_state(&t));
        } else if r < 90 {
            let w = clock.now[s] + ctx.rng.range(-10, 10);
            t.advance_source_watermark(&s.to_string(), at(w));
            ctx.count(if registered[s] { "tracker.advance" } else { "tracker.advance.unknown" });
            pairs.insert(format!("{}|adv {} {}", before, s, w));
            ctx.case(&format!("adv {} {}", s, w), &tracker_state(&t));
        } else {
            let ooo = *ctx.rng.pick(&oos);
            ctx.count(if registered[s] { "tracker.re-register" } else { "tracker.register" });
            t.register_source(&s.to_string(), Duration::milliseconds(ooo));
            registered[s] = true;
            ctx.case(&format!("reg {} {}", s, ooo), &tracker_state(&t));
        }
    }
}

struct StreamSpec { et: usize, ooo: Option<i64>, late: Option<i64>, side: Option<usize> }

fn dur(ms: i64) -> String { if ms % 1000 == 0 { format!("{}s", ms / 1000) } else { format!("{}ms", ms) } }

fn program(streams: &[StreamSpec], net: usize) -> String {
    let mut p = String::new();
    for e in 0..net { p.push_str(&format!("event E{}:\n    v: int\n\n", e)); }
    for (i, s) in streams.iter().enumerate() {
        p.push_str(&format!("stream S{} = E{}", i, s.et));
        if let Some(o) = s.ooo { p.push_str(&format!("\n    .watermark(out_of_order: {})", dur(o))); }
        if let Some(l) = s.late { p.push_str(&format!("\n    .allowed_lateness({})", dur(l))); }
        p.push_str("\n    .emit(v: v)\n\n");
    }
    p
}

fn engine_scenario(ctx: &mut Ctx, rt: &tokio::runtime::Runtime, len: usize, pairs: &mut std::collections::HashSet<String>) {
    let net = ctx.rng.range(1, 3) as usize;
    let ns = ctx.rng.range(1, 4) as usize;
    let oos = [0i64, 500, 1000, 2000, 3000];
    let lates = [0i64, 500, 1000, 2000, 5000];
    let mut streams = Vec::new();
    for i in 0..ns {
        let et = if i < net { i } else { ctx.rng.below(net as u64) as usize };
        let ooo = if ctx.rng.chance(3, 5) { Some(*ctx.rng.pick(&oos)) } else { None };
        let late = if ctx.rng.chance(1, 2) { Some(*ctx.rng.pick(&lates)) } else { None };
        let side = if late.is_some() && ctx.rng.chance(1, 3) { Some(ctx.rng.below(2) as usize) } else { None };
        streams.push(StreamSpec { et, ooo, late, side });
    }
    let src = program(&streams, net + 1);
    let prog = match varpulis_parser::parse(&src) {
        Ok(p) => p,
        Err(e) => { eprintln!("generator error: program does not parse: {e:?}\n{src}"); std::process::exit(3); }
    };
    let (tx, mut rx) = tokio::sync::mpsc::channel::<Event>(4096);
    let mut engine = Engine::new(tx);
    if let Err(e) = engine.load(&prog) { eprintln!("generator error: load failed: {e}\n{src}"); std::process::exit(3); }
    for (i, s) in streams.iter().enumerate() {
        if let Some(k) = s.side {
            if !engine.verif_set_late_side_output(&format!("S{}", i), Some(format!("L{}", k))) {
                eprintln!("generator error: no late-data config for S{}", i); std::process::exit(3);
            }
        }
    }
    let spec = streams.iter().map(|s| format!("S:{}:{}:{}:{}", s.et,
        s.ooo.map(|v| v.to_string()).unwrap_or("-".into()),
        s.late.map(|v| v.to_string()).unwrap_or("-".into()),
        s.side.map(|v| v.to_string()).unwrap_or("-".into()))).collect::<Vec<_>>().join(" ");
    ctx.directive(&format!("new engine {}", spec));
    ctx.count(if streams.iter().any(|s| s.ooo.is_some()) { "engine.tracking-on" } else { "engine.tracking-off" });
    ctx.count(if streams.iter().any(|s| s.late.is_some()) { "engine.has-late-config" } else { "engine.no-late-config" });
    let mut clock = Clock { now: vec![0; 5] };
    let state_of = |engine: &Engine| match engine.create_checkpoint().watermark_state {
        Some(cp) => fmt_cp(&cp, &|n: &str| n.strip_prefix('E').and_then(|x| x.parse::<u64>().ok())),
        None => "off".to_string(),
    };
    for n in 0..len {
        // hot reload of the *same* program on the running engine: `reload` loads into a fresh engine
        // and takes streams/router from it; the live tracker and late-data configs must be untouched
        if ctx.rng.chance(1, 10) {
            let rep = engine.reload(&prog);
            let r = match rep {
                Ok(r) => format!("+{} -{} ~{}", r.streams_added.len(), r.streams_removed.len(), r.streams_updated.len()),
                Err(e) => format!("ERR {}", e),
            };
            ctx.count("engine.reload-same-program");
            ctx.case("rel", &format!("{} | {}", r, state_of(&engine)));
        }
        let et = ctx.rng.below(net as u64 + 1) as usize; // net = an event type nobody consumes
        let ts = clock.next(ctx, et, 500);
        let ev = Event::new(format!("E{}", et)).with_timestamp(at(ts)).with_field("v", n as i64);
        // which situation of the gate does this event exercise (from the configuration and the
        // implementation's own effective watermark before the event)
        let before = state_of(&engine);
        let eff: Option<i64> = engine.create_checkpoint().watermark_state.and_then(|c| c.effective_watermark_ms).map(|w| w - BASE_MS);
        let consuming: Vec<&StreamSpec> = streams.iter().filter(|s| s.et == et).collect();
        let any_cfg = streams.iter().any(|s| s.late.is_some());
        let situation = match eff {
            None => "no-effective-watermark",
            Some(w) if ts >= w => "not-behind",
            Some(w) => {
                if consuming.iter().any(|s| s.late.map_or(false, |l| ts >= w - l)) {
                    if ts == w - consuming.iter().filter_map(|s| s.late).filter(|l| ts >= w - l).min().unwrap_or(0) { "behind.allowed-exactly-at-lateness-bound" } else { "behind.allowed-by-lateness" }
                }
                else if !any_cfg { "behind.no-config-anywhere" }
                else if consuming.is_empty() { "behind.unrouted-type" }
                else if consuming.iter().all(|s| s.late.is_none()) { "behind.config-only-on-other-streams" }
                else if consuming.iter().any(|s| s.side.is_some()) { "behind.late-for-all.side-output" }
                else { "behind.late-for-all.drop" }
            }
        };
        ctx.count(&format!("situation.{}", situation));
        pairs.insert(format!("{}|{}|{}|{}", spec, before, et, ts));
        let res = rt.block_on(engine.process(ev));
        let mut outs: Vec<usize> = Vec::new();
        let mut side: Option<String> = None;
        let mut odd = String::new();
        while let Ok(o) = rx.try_recv() {
            let name = o.event_type.to_string();
            if let Some(k) = name.strip_prefix('S').and_then(|x| x.parse::<usize>().ok()) { outs.push(k); }
            else if let Some(k) = name.strip_prefix('L') { side = Some(k.to_string()); if o.timestamp != at(ts) { odd.push_str(" SIDE-TS"); } }
            else { odd.push_str(&format!(" ?{}", name)); }
        }
        outs.sort();
        let outs_s = if outs.is_empty() { "-".to_string() } else { outs.iter().map(|x| x.to_string()).collect::<Vec<_>>().join(",") };
        let dec = match (&side, outs.is_empty()) {
            (Some(k), _) => { ctx.count("gate.divert"); format!("divert:{}", k) }
            (None, false) => { ctx.count("gate.out"); "out".to_string() }
            (None, true) => { ctx.count("gate.none"); "none".to_string() }
        };
        let state = state_of(&engine);
        let err = if res.is_err() { " ERR" } else { "" };
        ctx.case(&format!("ev {} {}", et, ts), &format!("{} outs={}{}{} | {}", dec, outs_s, odd, err, state));
    }
}

pub fn run(ctx: &mut Ctx, _name: &str) {
    let rt = tokio::runtime::Builder::new_current_thread().enable_all().build().expect("rt");
    let (nt, ne) = if ctx.thorough { (1500, 1500) } else { (150, 150) };
    let mut pairs: std::collections::HashSet<String> = std::collections::HashSet::new();
    for _ in 0..nt { let len = ctx.rng.range(5, 40) as usize; tracker_scenario(ctx, len, &mut pairs); }
    for _ in 0..ne { let len = ctx.rng.range(5, 30) as usize; engine_scenario(ctx, &rt, len, &mut pairs); }
    // finer than "distinct op lines": distinct (configuration, tracker state before, operation) triples
    ctx.count_n("distinct.(config,state-before,operation)", pairs.len() as u64);
    ctx.notes.push(format!("distinct (configuration, tracker state before, operation) triples: {} of {} cases", pairs.len(), ctx.cases));
}
