//! C05: pattern state bounds and panic freedom of the SASE engine under backpressure.
//! Adversarial streams (most events start a run) x all strategies x max_runs 1..8 x small Kleene caps,
//! unpartitioned and partitioned, through `process` and `process_with_result`; after every event the
//! engine's `extended_stats()`, `stats()` and `checkpoint()` (per-partition run vectors, stack and
//! Kleene-capture sizes) are compared with the model.
use crate::p_kleene::{gen_ev, gen_pred, gen_selfref_for, opt_text, Ev, ALIASES, P, TYPES};
use crate::util::{catch, Ctx, Rng};
use std::panic::AssertUnwindSafe;
use std::time::Instant;
use varpulis_runtime::persistence::{RunCheckpoint, SerializableValue};
use varpulis_runtime::sase::{verif_kleene, BackpressureStrategy, ProcessWarning, SaseEngine, SasePattern};

pub const NAMES: &[&str] = &["C05"];

#[derive(Clone)]
struct Step { ty: usize, kleene: bool, pred: Option<P> }

#[derive(Clone, Copy)]
enum Strat { Drop, Error, Oldest, Least, Sample(u32) }
impl Strat {
    fn text(self) -> String {
        match self { Strat::Drop => "drop".into(), Strat::Error => "error".into(), Strat::Oldest => "oldest".into(), Strat::Least => "least".into(), Strat::Sample(k) => format!("sample:{}/8", k) }
    }
    fn real(self) -> BackpressureStrategy {
        match self {
            Strat::Drop => BackpressureStrategy::Drop, Strat::Error => BackpressureStrategy::Error,
            Strat::Oldest => BackpressureStrategy::EvictOldest, Strat::Least => BackpressureStrategy::EvictLeastProgress,
            Strat::Sample(k) => BackpressureStrategy::Sample { rate: k as f64 / 8.0 },
        }
    }
}

struct Scenario { with_result: bool, max_runs: usize, strat: Strat, mk: u32, mr: usize, part: bool, steps: Vec<Step>, evs: Vec<Ev> }

impl Scenario {
    fn header(&self) -> String {
        let mut h = format!("new {} {} {} {} {} {}", if self.with_result { "sasew" } else { "sase" }, self.max_runs, self.strat.text(), self.mk, self.mr, if self.part { 1 } else { 0 });
        for (i, s) in self.steps.iter().enumerate() {
            h.push_str(&format!(" {}/{}/{}/{}", TYPES[s.ty], if s.kleene { "k" } else { "e" }, ALIASES[i], opt_text(&s.pred)));
        }
        h
    }
    fn pattern(&self) -> SasePattern {
        let mut v = Vec::new();
        for (i, s) in self.steps.iter().enumerate() {
            let e = SasePattern::Event { event_type: TYPES[s.ty].to_string(), predicate: s.pred.as_ref().map(|p| p.sase()), alias: Some(ALIASES[i].to_string()) };
            v.push(if s.kleene { SasePattern::KleenePlus(Box::new(e)) } else { e });
        }
        if v.len() == 1 { v.pop().unwrap() } else { SasePattern::Seq(v) }
    }
}

fn ser_id(v: Option<&SerializableValue>) -> String { match v { Some(SerializableValue::Int(i)) => i.to_string(), _ => "?".into() } }

fn fmt_run(r: &RunCheckpoint) -> String {
    let first = r.stack.first().map(|s| ser_id(s.event.fields.get("id"))).unwrap_or_else(|| "-".into());
    let kl = r.kleene_events.as_ref().map(|k| k.len().to_string()).unwrap_or_else(|| "-".into());
    format!("{}/{}/{}/{}", first, r.current_state, r.stack.len(), kl)
}

fn fmt_runs(rs: &[RunCheckpoint]) -> String {
    let mut v: Vec<String> = rs.iter().map(fmt_run).collect();
    v.sort();
    v.join(",")
}

fn observe(eng: &SaseEngine, nmatch: usize, rec: &[(u64, usize, Vec<u32>)]) -> String {
    let xs = eng.extended_stats();
    let st = eng.stats();
    let cp = eng.checkpoint();
    let mut parts: Vec<(String, String, usize)> = cp.partitioned_runs.iter().map(|(k, v)| (if k.is_empty() { "_".to_string() } else { k.clone() }, fmt_runs(v), v.len())).collect();
    parts.sort();
    let p = if parts.is_empty() { "-".to_string() } else { parts.iter().map(|(k, _, n)| format!("{}:{}", k, n)).collect::<Vec<_>>().join(",") };
    let q = if parts.is_empty() { format!("[{}]", fmt_runs(&cp.active_runs)) } else { parts.iter().map(|(k, r, _)| format!("{}[{}]", k, r)).collect::<Vec<_>>().join("") };
    // matches per enumeration call
    let mut z: Vec<usize> = Vec::new();
    let mut last: Option<u64> = None;
    for (c, _, _) in rec { if last == Some(*c) { *z.last_mut().unwrap() += 1; } else { z.push(1); last = Some(*c); } }
    let z = if z.is_empty() { "-".to_string() } else { z.iter().map(|x| x.to_string()).collect::<Vec<_>>().join(",") };
    debug_assert_eq!(xs.active_runs, st.active_runs);
    format!("r={} n={} p={} t={}/{}/{}/{} m={} z={} q={}", xs.active_runs, st.partitions, p,
        xs.total_runs_created, xs.total_runs_dropped, xs.total_runs_evicted, xs.total_runs_completed, nmatch, z, q)
}

fn run_scenario(ctx: &mut Ctx, sc: &Scenario) {
    ctx.directive(&sc.header());
    let mut eng = SaseEngine::new(sc.pattern()).with_max_runs(sc.max_runs).with_backpressure(sc.strat.real())
        .with_max_kleene_events(sc.mk).with_max_enumeration_results(sc.mr);
    if sc.part { eng = eng.with_partition_by("k".to_string()); }
    let _ = verif_kleene::take();
    let mut dead = false;
    for (i, ev) in sc.evs.iter().enumerate() {
        if dead { ctx.case(&ev.text(), "panic"); continue; }
        // `started_at` is an Instant: make sure two runs never share one (eviction by age is then deterministic)
        let t = Instant::now(); while Instant::now() == t {}
        let e = ev.event(i);
        let res = if sc.with_result {
            match catch(AssertUnwindSafe(|| eng.process_with_result(&e))) {
                Ok(r) => {
                    let rec = verif_kleene::take();
                    let mut w = String::new();
                    for x in &r.warnings { w.push(match x { ProcessWarning::ApproachingLimit { .. } => 'L', ProcessWarning::RunDropped { .. } => 'D', ProcessWarning::RunEvicted { .. } => 'E' }); }
                    if w.is_empty() { w.push('-'); }
                    for c in w.chars() { ctx.count(&format!("warning:{}", c)); }
                    format!("{} w={} s={}/{}/{}", observe(&eng, r.matches.len(), &rec), w, r.stats.runs_created, r.stats.runs_completed, r.stats.active_runs)
                }
                Err(_) => { dead = true; "panic".to_string() }
            }
        } else {
            match catch(AssertUnwindSafe(|| eng.process(&e))) {
                Ok(ms) => { let rec = verif_kleene::take(); observe(&eng, ms.len(), &rec) }
                Err(_) => { dead = true; "panic".to_string() }
            }
        };
        if dead { ctx.count("panic"); }
        ctx.case(&ev.text(), &res);
    }
    let xs = eng.extended_stats();
    if xs.total_runs_dropped > 0 { ctx.count(&format!("hit:dropped:{}", sc.strat.text().split(':').next().unwrap())); }
    if xs.total_runs_evicted > 0 { ctx.count(&format!("hit:evicted:{}", sc.strat.text().split(':').next().unwrap())); }
}

fn gen_scenario(rng: &mut Rng, thorough: bool) -> Scenario {
    let nsteps = match rng.below(10) { 0 => 1, 1..=3 => 2, 4..=7 => 3, _ => 4 } as usize;
    let mut steps = Vec::new();
    for i in 0..nsteps {
        // adversarial: the first step is usually an unfiltered A, so that every A starts a run
        let ty = if i == 0 { if rng.chance(5, 6) { 0 } else { rng.below(3) as usize } } else { rng.below(3) as usize };
        let kleene = rng.chance(2, 5);
        let refs: Vec<usize> = (0..i).collect();
        let pred = if i == 0 {
            // a leading `all` with a self-referencing filter: the start event never enters the capture
            // (Props/C03 leading_all_drops_first_event) - mirrored by the model, exercised here
            if kleene && rng.chance(1, 3) { Some(gen_selfref_for(rng, 0)) }
            else if rng.chance(1, 8) { Some(gen_pred(rng, &[], 0)) } else { None }
        } else if kleene && rng.chance(1, 2) { Some(gen_selfref_for(rng, i)) }
        else if rng.chance(1, 2) { Some(gen_pred(rng, &refs, 1)) } else { None };
        steps.push(Step { ty, kleene, pred });
    }
    let strat = match rng.below(6) { 0 => Strat::Drop, 1 => Strat::Error, 2 => Strat::Oldest, 3 => Strat::Least, _ => Strat::Sample(rng.below(9) as u32) };
    let part = rng.chance(1, 3);
    let len = if thorough { 20 + rng.below(60) } else { 15 + rng.below(35) } as usize;
    let first = steps[0].ty;
    let mut evs = Vec::new();
    for _ in 0..len {
        let ty = if rng.chance(1, 2) { first } else { *rng.pick(&[0usize, 1, 1, 2, 2, 3]) };
        let mut e = gen_ev(rng, ty);
        if part { e.key = if rng.chance(1, 10) { None } else { Some(rng.below(3) as u32) }; }
        evs.push(e);
    }
    Scenario { with_result: rng.chance(1, 2), max_runs: 1 + rng.below(8) as usize, strat, mk: 1 + rng.below(4) as u32, mr: 1 + rng.below(6) as usize, part, steps, evs }
}

pub fn run(ctx: &mut Ctx, _name: &str) {
    let n = if ctx.thorough { 5000 } else { 500 };
    for _ in 0..n {
        let sc = gen_scenario(&mut ctx.rng, ctx.thorough);
        ctx.count(&format!("strategy:{}", sc.strat.text().split(':').next().unwrap()));
        ctx.count(&format!("max_runs:{}", sc.max_runs));
        ctx.count(if sc.part { "partitioned" } else { "unpartitioned" });
        ctx.count(&format!("steps:{}", sc.steps.len()));
        run_scenario(ctx, &sc);
    }
}
