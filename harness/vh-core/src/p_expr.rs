//! C08 / C10 / C11: expression evaluation — numeric comparisons, constant folding, no panics.
//!
//! All evaluations of the real code run in a *child process* (`vh-core expr-sub …`): a stack
//! overflow aborts the process and must not take the check down. The child regenerates the same
//! case list from the same seed, evaluates from a start index and appends `<idx> <result>` lines;
//! when it dies the parent records `abort` for the case it died on and restarts it behind that case.
use crate::util::{Ctx, Rng};
use std::collections::HashMap;
use std::hash::BuildHasher;
use std::io::Write;
use std::sync::Arc;
use varpulis_core::ast::{Arg, BinOp, Expr, NamedArg, Program, Stmt, StreamOp, UnaryOp};
use varpulis_core::span::Spanned;
use varpulis_core::Value;
use varpulis_runtime::engine::evaluator;
use varpulis_runtime::sase::{verif_compare_values, CompareOp};
use varpulis_runtime::sequence::SequenceContext;
use varpulis_runtime::{Engine, Event};

pub const NAMES: &[&str] = &["C08", "C10", "C11", "expr-sub"];

// ---------------------------------------------------------------------------------------------
// rendering (must agree character for character with Driver/Expr.lean)
// ---------------------------------------------------------------------------------------------

fn hex(s: &str) -> String {
    let mut o = String::from("x");
    for b in s.as_bytes() {
        o.push_str(&format!("{:02x}", b));
    }
    o
}

static NAN_SIGNED: std::sync::atomic::AtomicBool = std::sync::atomic::AtomicBool::new(false);

fn fmt_f(x: f64) -> String {
    if x.is_nan() {
        // the sign of a NaN is printed for inputs only (parent process); results print `nan`
        return if x.is_sign_negative() && NAN_SIGNED.load(std::sync::atomic::Ordering::Relaxed) { "-nan".into() } else { "nan".into() };
    }
    if x.is_infinite() {
        return if x > 0.0 { "inf".into() } else { "-inf".into() };
    }
    let bits = x.to_bits();
    let s = bits >> 63;
    let ex = ((bits >> 52) & 0x7ff) as i64;
    let frac = bits & ((1u64 << 52) - 1);
    let (mut m, mut e) = if ex == 0 { (frac, -1074i64) } else { (frac | (1u64 << 52), ex - 1075) };
    if m == 0 {
        e = 0;
    } else {
        while m % 2 == 0 {
            m /= 2;
            e += 1;
        }
    }
    format!("{}{}p{}", if s == 1 { "-" } else { "+" }, m, e)
}

fn fmt_value(v: &Value) -> String {
    match v {
        Value::Null => "null".into(),
        Value::Bool(b) => if *b { "true".into() } else { "false".into() },
        Value::Int(n) => format!("i:{}", n),
        Value::Float(f) => format!("f:{}", fmt_f(*f)),
        Value::Str(s) => format!("s:{}", hex(s)),
        Value::Timestamp(t) => format!("t:{}", t),
        Value::Duration(d) => format!("d:{}", d),
        Value::Array(a) => {
            let mut o = String::from("(arr");
            for x in a.iter() {
                o.push(' ');
                o.push_str(&fmt_value(x));
            }
            o.push_str(" )");
            o
        }
        Value::Map(m) => {
            let mut o = String::from("(map");
            for (k, x) in m.iter() {
                o.push(' ');
                o.push_str(&hex(k));
                o.push(' ');
                o.push_str(&fmt_value(x));
            }
            o.push_str(" )");
            o
        }
    }
}

fn fmt_res(r: &Option<Value>) -> String {
    match r {
        Some(v) => format!("some {}", fmt_value(v)),
        None => "none".into(),
    }
}

fn binop_name(op: &BinOp) -> &'static str {
    match op {
        BinOp::Add => "add", BinOp::Sub => "sub", BinOp::Mul => "mul", BinOp::Div => "div",
        BinOp::Mod => "mod", BinOp::Pow => "pow", BinOp::Eq => "eq", BinOp::NotEq => "ne",
        BinOp::Lt => "lt", BinOp::Le => "le", BinOp::Gt => "gt", BinOp::Ge => "ge",
        BinOp::In => "in", BinOp::NotIn => "notin", BinOp::Is => "is", BinOp::And => "and",
        BinOp::Or => "or", BinOp::Xor => "xor", BinOp::FollowedBy => "followedby",
        BinOp::BitAnd => "bitand", BinOp::BitOr => "bitor", BinOp::BitXor => "bitxor",
        BinOp::Shl => "shl", BinOp::Shr => "shr",
    }
}

fn fmt_expr(e: &Expr) -> String {
    match e {
        Expr::Null => "null".into(),
        Expr::Bool(b) => if *b { "true".into() } else { "false".into() },
        Expr::Int(n) => format!("i:{}", n),
        Expr::Float(f) => format!("f:{}", fmt_f(*f)),
        Expr::Str(s) => format!("s:{}", hex(s)),
        Expr::Timestamp(t) => format!("t:{}", t),
        Expr::Duration(d) => format!("d:{}", d),
        Expr::Ident(x) => format!("(id {})", hex(x)),
        Expr::Array(xs) => {
            let mut o = String::from("(arr");
            for x in xs { o.push(' '); o.push_str(&fmt_expr(x)); }
            o.push_str(" )");
            o
        }
        Expr::Map(kvs) => {
            let mut o = String::from("(map");
            for (k, x) in kvs { o.push(' '); o.push_str(&hex(k)); o.push(' '); o.push_str(&fmt_expr(x)); }
            o.push_str(" )");
            o
        }
        Expr::Binary { op, left, right } => format!("(bin {} {} {})", binop_name(op), fmt_expr(left), fmt_expr(right)),
        Expr::Unary { op, expr } => format!("(un {} {})", match op { UnaryOp::Neg => "neg", UnaryOp::Not => "not", UnaryOp::BitNot => "bitnot" }, fmt_expr(expr)),
        Expr::Member { expr, member } => format!("(mem {} {})", fmt_expr(expr), hex(member)),
        Expr::OptionalMember { expr, member } => format!("(omem {} {})", fmt_expr(expr), hex(member)),
        Expr::Index { expr, index } => format!("(idx {} {})", fmt_expr(expr), fmt_expr(index)),
        Expr::Slice { expr, start, end } => {
            let so = |o: &Option<Box<Expr>>| match o { Some(x) => fmt_expr(x), None => "_".to_string() };
            format!("(slice {} {} {})", fmt_expr(expr), so(start), so(end))
        }
        Expr::Call { func, args } => {
            let mut o = format!("(call {}", fmt_expr(func));
            for a in args {
                o.push(' ');
                match a { Arg::Positional(x) => o.push_str(&fmt_expr(x)), Arg::Named(_, x) => o.push_str(&fmt_expr(x)) }
            }
            o.push_str(" )");
            o
        }
        Expr::Lambda { params, body } => {
            let mut o = format!("(lam {}", params.len());
            for p in params { o.push(' '); o.push_str(&hex(p)); }
            o.push(' ');
            o.push_str(&fmt_expr(body));
            o.push(')');
            o
        }
        Expr::If { cond, then_branch, else_branch } => format!("(if {} {} {})", fmt_expr(cond), fmt_expr(then_branch), fmt_expr(else_branch)),
        Expr::Coalesce { expr, default } => format!("(coal {} {})", fmt_expr(expr), fmt_expr(default)),
        Expr::Range { start, end, inclusive } => format!("(range {} {} {})", if *inclusive { "1" } else { "0" }, fmt_expr(start), fmt_expr(end)),
        Expr::Block { stmts, result } => {
            let mut o = String::from("(block");
            for (n, _, x, _) in stmts { o.push(' '); o.push_str(&hex(n)); o.push(' '); o.push_str(&fmt_expr(x)); }
            o.push_str(" ; ");
            o.push_str(&fmt_expr(result));
            o.push(')');
            o
        }
    }
}

/// VPL source text of an expression (fully parenthesised); None if some part has no literal syntax
fn vpl(e: &Expr) -> Option<String> {
    Some(match e {
        Expr::Null => "null".into(),
        Expr::Bool(b) => format!("{}", b),
        Expr::Int(n) => if *n >= 0 { format!("{}", n) } else if *n == i64::MIN { return None } else { format!("(-{})", -n) },
        Expr::Float(f) => {
            if !f.is_finite() { return None; }
            let s = format!("{:?}", f.abs());
            if !s.contains('.') || s.contains('e') || s.contains('E') { return None; }
            if f.is_sign_negative() { format!("(-{})", s) } else { s }
        }
        Expr::Str(s) => {
            if !s.chars().all(|c| c.is_ascii_alphanumeric() || c == ' ' || c == '_') { return None; }
            format!("\"{}\"", s)
        }
        Expr::Timestamp(_) | Expr::Duration(_) => return None,
        Expr::Ident(x) => x.clone(),
        Expr::Array(xs) => format!("[{}]", xs.iter().map(vpl).collect::<Option<Vec<_>>>()?.join(", ")),
        Expr::Map(_) => return None,
        Expr::Binary { op, left, right } => {
            let o = match op {
                BinOp::Add => "+", BinOp::Sub => "-", BinOp::Mul => "*", BinOp::Div => "/", BinOp::Mod => "%",
                BinOp::Pow => "**", BinOp::Eq => "==", BinOp::NotEq => "!=", BinOp::Lt => "<", BinOp::Le => "<=",
                BinOp::Gt => ">", BinOp::Ge => ">=", BinOp::In => "in", BinOp::NotIn => "not in",
                BinOp::And => "and", BinOp::Or => "or",
                _ => return None,
            };
            format!("(({}) {} ({}))", vpl(left)?, o, vpl(right)?)
        }
        Expr::Unary { op, expr } => match op {
            UnaryOp::Neg => format!("(-({}))", vpl(expr)?),
            UnaryOp::Not => format!("(not ({}))", vpl(expr)?),
            UnaryOp::BitNot => format!("(~({}))", vpl(expr)?),
        },
        Expr::Member { expr, member } => format!("({}).{}", vpl(expr)?, member),
        Expr::OptionalMember { expr, member } => format!("({})?.{}", vpl(expr)?, member),
        Expr::Index { expr, index } => format!("({})[{}]", vpl(expr)?, vpl(index)?),
        Expr::Slice { expr, start, end } => {
            let s = match start { Some(x) => format!("({})", vpl(x)?), None => String::new() };
            let en = match end { Some(x) => format!("({})", vpl(x)?), None => String::new() };
            format!("({})[{}:{}]", vpl(expr)?, s, en)
        }
        Expr::Call { func, args } => {
            let f = match func.as_ref() { Expr::Ident(n) => n.clone(), _ => return None };
            let mut parts = Vec::new();
            for a in args { match a { Arg::Positional(x) => parts.push(vpl(x)?), Arg::Named(_, _) => return None } }
            format!("{}({})", f, parts.join(", "))
        }
        Expr::Lambda { params, body } => format!("(({}) => ({}))", params.join(", "), vpl(body)?),
        Expr::If { cond, then_branch, else_branch } => format!("(if ({}) then ({}) else ({}))", vpl(cond)?, vpl(then_branch)?, vpl(else_branch)?),
        Expr::Coalesce { .. } | Expr::Range { .. } | Expr::Block { .. } => return None,
    })
}

// ---------------------------------------------------------------------------------------------
// cases
// ---------------------------------------------------------------------------------------------

#[derive(Clone)]
struct EnvSpec {
    etype: String,
    fields: Vec<(String, Value)>,
    binds: Vec<(String, Value)>,
}

impl EnvSpec {
    fn line(&self) -> String {
        let mut o = format!("new env {} {}", hex(&self.etype), self.fields.len());
        for (k, v) in &self.fields { o.push(' '); o.push_str(&hex(k)); o.push(' '); o.push_str(&fmt_value(v)); }
        o.push_str(&format!(" {}", self.binds.len()));
        for (k, v) in &self.binds { o.push(' '); o.push_str(&hex(k)); o.push(' '); o.push_str(&fmt_value(v)); }
        o
    }
    fn event(&self) -> Event {
        let mut ev = Event::new(self.etype.as_str());
        for (k, v) in &self.fields { ev = ev.with_field(k.as_str(), v.clone()); }
        ev
    }
}

#[derive(Clone)]
enum Kind {
    /// two values compared directly in context expr | pattern | sase
    Cmp { ctx: &'static str, op: BinOp, l: Value, r: Value },
    /// `l op r` over the fields `l`, `r` of the event: e = eval_expr_with_functions, f = eval_filter_expr,
    /// p = eval_pattern_expr, W/M/H/P = VPL text through parse + Engine (.where/.emit/.having/.pattern)
    CmpX { path: &'static str, op: BinOp },
    Ev { path: &'static str, e: Expr },
    /// eval_pattern_expr with the bindings of the env as pattern variables
    EvP { e: Expr },
    Probe { path: &'static str, e: Expr },
    C10 { e: Expr },
    C10T { e: Expr },
    /// the same through `.where(<e>)`: is the event kept by the folded program
    C10W { e: Expr },
}

#[derive(Clone)]
struct Case { env: usize, kind: Kind }

struct Cases { envs: Vec<EnvSpec>, cases: Vec<Case> }

fn mk_bindings<S: BuildHasher + Default>(pairs: &[(String, Value)]) -> HashMap<String, Value, S> {
    let mut m = HashMap::with_hasher(S::default());
    for (k, v) in pairs { m.insert(k.clone(), v.clone()); }
    m
}

fn mk_map<M: Default + Extend<(Arc<str>, Value)>>(pairs: Vec<(&str, Value)>) -> M {
    let mut m = M::default();
    m.extend(pairs.into_iter().map(|(k, v)| (Arc::<str>::from(k), v)));
    m
}

fn bx(e: Expr) -> Box<Expr> { Box::new(e) }
fn id(s: &str) -> Expr { Expr::Ident(s.to_string()) }
fn bin(op: BinOp, l: Expr, r: Expr) -> Expr { Expr::Binary { op, left: bx(l), right: bx(r) } }
fn call(f: &str, args: Vec<Expr>) -> Expr { Expr::Call { func: bx(id(f)), args: args.into_iter().map(Arg::Positional).collect() } }

const P53: i64 = 1 << 53;

fn int_table() -> Vec<i64> {
    vec![0, 1, -1, 2, -2, 3, 7, 30, 31, 32, 100, -100, i32::MAX as i64, i32::MIN as i64, (i32::MAX as i64) + 1,
         (i32::MIN as i64) - 1, 1 << 32, P53 - 1, P53, P53 + 1, P53 + 2, P53 + 3, -P53, -P53 - 1, -P53 + 1, 1 << 62,
         i64::MAX, i64::MAX - 1, i64::MAX - 512, i64::MAX - 1023, i64::MIN, i64::MIN + 1, i64::MIN + 1025, 123456789012345678]
}

fn float_table(with_nan: bool) -> Vec<f64> {
    let mut v = vec![0.0, -0.0, 0.5, -0.5, 1.0, -1.0, 1.5, 2.5, -2.5, 30.0, 31.5, 29.999999999999996, 30.000000000000004,
         0.1, 1.0 / 3.0, 5e-324, -5e-324, 2.2250738585072014e-308, 1e-300,
         P53 as f64, (P53 as f64) + 2.0, (P53 as f64) - 1.0, -(P53 as f64), -(P53 as f64) - 2.0, 4503599627370496.5,
         4611686018427387904.0, 9223372036854775808.0, 9223372036854774784.0, 9223372036854777856.0,
         -9223372036854775808.0, -9223372036854774784.0, -9223372036854777856.0, 18446744073709551616.0,
         1e308, f64::MAX, f64::MIN, f64::INFINITY, f64::NEG_INFINITY, 2147483647.5, -2147483648.5, 1e19, -1e19];
    if with_nan { v.push(f64::NAN); }
    v
}

fn cmp_ops() -> [BinOp; 4] { [BinOp::Lt, BinOp::Le, BinOp::Gt, BinOp::Ge] }

fn rand_int(rng: &mut Rng) -> i64 {
    match rng.below(6) {
        0 => *rng.pick(&int_table()),
        1 => rng.range(-5, 5),
        2 => (rng.next() as i64) >> rng.below(64),
        3 => P53 + rng.range(-4, 4),
        4 => i64::MAX - rng.range(0, 3000),
        _ => i64::MIN + rng.range(0, 3000),
    }
}

fn rand_float(rng: &mut Rng, with_nan: bool) -> f64 {
    match rng.below(6) {
        0 => *rng.pick(&float_table(with_nan)),
        1 => rng.range(-8, 8) as f64 / 2.0,
        2 => { let f = f64::from_bits(rng.next()); if f.is_nan() && !with_nan { 1.25 } else { f } }
        3 => (P53 + rng.range(-4, 4)) as f64 + if rng.chance(1, 2) { 0.0 } else { 0.5 },
        4 => { let b = 9223372036854775808.0f64.to_bits() as i64 + rng.range(-3, 3); f64::from_bits(b as u64) * if rng.chance(1, 2) { 1.0 } else { -1.0 } }
        _ => rand_int(rng) as f64,
    }
}

fn rand_num(rng: &mut Rng) -> Value {
    if rng.chance(1, 2) { Value::Int(rand_int(rng)) } else { Value::Float(rand_float(rng, false)) }
}

fn gen_c08(rng: &mut Rng, thorough: bool) -> Cases {
    let mut envs = vec![EnvSpec { etype: "E".into(), fields: vec![], binds: vec![] }];
    let mut cases = Vec::new();
    let mut nums: Vec<Value> = int_table().into_iter().map(Value::Int).collect();
    nums.extend(float_table(true).into_iter().map(Value::Float));
    // exhaustive boundary table x operators x the three evaluators (values handed over directly)
    for l in &nums {
        for r in &nums {
            for op in cmp_ops() {
                for ctx in ["expr", "pattern", "sase"] {
                    cases.push(Case { env: 0, kind: Kind::Cmp { ctx, op, l: l.clone(), r: r.clone() } });
                }
            }
        }
    }
    let n_rand = if thorough { 40000 } else { 3000 };
    for _ in 0..n_rand {
        let (l, r) = (rand_num(rng), rand_num(rng));
        let op = *rng.pick(&cmp_ops());
        let ctx = *rng.pick(&["expr", "pattern", "sase"]);
        cases.push(Case { env: 0, kind: Kind::Cmp { ctx, op, l, r } });
    }
    // through expressions and through the Engine: a sample of the table and random pairs
    let n_x = if thorough { 6000 } else { 700 };
    for i in 0..n_x {
        let (l, r) = if i % 2 == 0 { (rng.pick(&nums).clone(), rng.pick(&nums).clone()) } else { (rand_num(rng), rand_num(rng)) };
        envs.push(EnvSpec { etype: "E".into(), fields: vec![("l".into(), l), ("r".into(), r)], binds: vec![] });
        let env = envs.len() - 1;
        let op = *rng.pick(&cmp_ops());
        for path in ["e", "f", "p", "W", "M", "H", "P"] {
            cases.push(Case { env, kind: Kind::CmpX { path, op } });
        }
    }
    Cases { envs, cases }
}

// --- random expressions (C10, C11) -------------------------------------------------------------

fn str_pool() -> Vec<&'static str> { vec!["", "a", "abc", "hello world", "12", "-7", "+5", "9223372036854775808", "h\u{e9}llo", "x y", "  Ab c\t", "\u{a0}x\u{2003}", "aXbXXc", "X", "aaa", "aa", "l", "o w", " ", "ABC def"] }

fn rand_scalar(rng: &mut Rng) -> Value {
    match rng.below(9) {
        0 | 1 => Value::Int(rand_int(rng)),
        2 | 3 => Value::Float(rand_float(rng, true)),
        4 => Value::Str((*rng.pick(&str_pool())).into()),
        5 => Value::Bool(rng.chance(1, 2)),
        6 => Value::Null,
        7 => Value::Timestamp(rand_int(rng)),
        _ => Value::Duration(rng.below(10_000_000_000)),
    }
}

fn rand_value(rng: &mut Rng, depth: u32) -> Value {
    if depth == 0 || rng.chance(3, 5) { return rand_scalar(rng); }
    if rng.chance(1, 2) {
        let n = rng.below(4);
        Value::array((0..n).map(|_| rand_value(rng, depth - 1)).collect())
    } else {
        let keys = ["k", "x", "id", "v"];
        let n = rng.below(4) as usize;
        let pairs: Vec<(&str, Value)> = (0..n).map(|i| (keys[i], rand_value(rng, depth - 1))).collect();
        Value::map(mk_map(pairs))
    }
}

fn rand_env(rng: &mut Rng) -> EnvSpec {
    let mut fields: Vec<(String, Value)> = Vec::new();
    // typed fields, each sometimes missing
    if rng.chance(9, 10) { fields.push(("x".into(), Value::Int(rand_int(rng)))); }
    if rng.chance(9, 10) { fields.push(("y".into(), Value::Float(rand_float(rng, true)))); }
    if rng.chance(8, 10) { fields.push(("s".into(), Value::Str((*rng.pick(&str_pool())).into()))); }
    if rng.chance(8, 10) { fields.push(("b".into(), Value::Bool(rng.chance(1, 2)))); }
    if rng.chance(5, 10) { fields.push(("n".into(), Value::Null)); }
    if rng.chance(8, 10) { let n = rng.below(5); fields.push(("a".into(), Value::array((0..n).map(|_| rand_value(rng, 1)).collect()))); }
    if rng.chance(7, 10) { fields.push(("m".into(), rand_value_map(rng))); }
    if rng.chance(5, 10) { fields.push(("v".into(), rand_value(rng, 2))); }
    if rng.chance(3, 10) { fields.push(("J.k".into(), rand_scalar(rng))); }
    if rng.chance(3, 10) { fields.push(("J_q".into(), rand_scalar(rng))); }
    let mut binds = Vec::new();
    if rng.chance(1, 4) { binds.push(("x".into(), rand_scalar(rng))); }
    if rng.chance(1, 4) { binds.push(("w".into(), rand_value(rng, 1))); }
    if rng.chance(1, 6) { binds.push(("J".into(), rand_value_map(rng))); }
    EnvSpec { etype: "E".into(), fields, binds }
}

fn rand_value_map(rng: &mut Rng) -> Value {
    let keys = ["k", "x", "id", "q"];
    let n = 1 + rng.below(3) as usize;
    let pairs: Vec<(&str, Value)> = (0..n).map(|i| (keys[i], rand_value(rng, 1))).collect();
    Value::map(mk_map(pairs))
}

fn rand_lit(rng: &mut Rng) -> Expr {
    match rng.below(14) {
        0 => Expr::Int(0),
        1 => Expr::Int(1),
        2 => Expr::Int(-1),
        3 => Expr::Int(rng.range(-3, 9)),
        4 => Expr::Int(rand_int(rng)),
        5 => Expr::Float(rng.range(-6, 6) as f64 / 2.0),
        6 => Expr::Float(rand_float(rng, true)),
        7 => Expr::Float(if rng.chance(1, 2) { 0.0 } else { 1.0 }),
        8 => Expr::Str((*rng.pick(&str_pool())).to_string()),
        9 => Expr::Bool(rng.chance(1, 2)),
        10 => Expr::Null,
        11 => Expr::Int(*rng.pick(&[i64::MIN, i64::MAX, 2, 63, 64, 40, -1, 0, 1])),
        12 => Expr::Duration(rng.below(1_000_000_000_000)),
        _ => Expr::Int(rng.range(0, 3)),
    }
}

fn rand_ident(rng: &mut Rng) -> Expr {
    id(*rng.pick(&["x", "y", "s", "b", "n", "a", "m", "v", "w", "zz", "x", "y", "a"]))
}

const BUILTINS: &[(&str, usize)] = &[
    ("abs", 1), ("sqrt", 1), ("floor", 1), ("ceil", 1), ("round", 1), ("pow", 2), ("min", 2), ("max", 2),
    ("len", 1), ("first", 1), ("last", 1), ("push", 2), ("pop", 1), ("reverse", 1), ("contains", 2),
    ("keys", 1), ("values", 1), ("get", 2), ("set", 3), ("sum", 1), ("avg", 1), ("to_int", 1), ("to_float", 1),
    ("starts_with", 2), ("ends_with", 2), ("substring", 2), ("substring", 3), ("type_of", 1), ("is_null", 1),
    ("is_int", 1), ("is_float", 1), ("is_string", 1), ("is_bool", 1), ("is_array", 1), ("is_map", 1), ("nosuchfn", 1),
    ("log", 1), ("log10", 1), ("exp", 1), ("sin", 1), ("cos", 1), ("tan", 1),
    ("sort", 1), ("to_string", 1), ("trim", 1), ("lower", 1), ("upper", 1), ("lowercase", 1), ("uppercase", 1),
    ("split", 2), ("join", 2), ("replace", 3), ("sort", 1), ("split", 2), ("replace", 3), ("join", 2), ("trim", 1),
];

/// built-ins outside the Lean model: exercised for panics only
const UNMODELLED: &[(&str, usize)] = &[
    ("no_such_builtin", 2), // range is excluded by the property (sizes); everything else is modelled
];

struct Gen { arith_bias: bool, allow_to_float_str: bool }

impl Gen {
    fn expr(&self, rng: &mut Rng, depth: u32) -> Expr {
        if depth == 0 { return if rng.chance(1, 2) { rand_lit(rng) } else { rand_ident(rng) }; }
        let d = depth - 1;
        let k = if self.arith_bias { rng.below(14) } else { rng.below(26) };
        match k {
            0..=5 => {
                let op = *rng.pick(&[BinOp::Add, BinOp::Sub, BinOp::Mul, BinOp::Div, BinOp::Mod, BinOp::Pow, BinOp::Add, BinOp::Mul, BinOp::Sub, BinOp::Div]);
                bin(op, self.expr(rng, d), self.expr(rng, d))
            }
            6 | 7 => {
                let op = *rng.pick(&[BinOp::Eq, BinOp::NotEq, BinOp::Lt, BinOp::Le, BinOp::Gt, BinOp::Ge]);
                bin(op, self.expr(rng, d), self.expr(rng, d))
            }
            8 => {
                let op = *rng.pick(&[BinOp::And, BinOp::Or, BinOp::Xor, BinOp::In, BinOp::NotIn, BinOp::Is, BinOp::BitAnd, BinOp::Shl]);
                bin(op, self.expr(rng, d), self.expr(rng, d))
            }
            9 => Expr::Unary { op: *rng.pick(&[UnaryOp::Neg, UnaryOp::Neg, UnaryOp::Not, UnaryOp::BitNot]), expr: bx(self.expr(rng, d)) },
            10 => Expr::If { cond: bx(self.expr(rng, d)), then_branch: bx(self.expr(rng, d)), else_branch: bx(self.expr(rng, d)) },
            11 => Expr::Coalesce { expr: bx(self.expr(rng, d)), default: bx(self.expr(rng, d)) },
            12 => rand_lit(rng),
            13 => rand_ident(rng),
            14 | 15 => {
                let (name, n) = *rng.pick(BUILTINS);
                // argument count sometimes off by one
                let n = if rng.chance(1, 12) { n + 1 } else if rng.chance(1, 12) && n > 0 { n - 1 } else { n };
                let mut args: Vec<Expr> = (0..n).map(|_| self.expr(rng, d)).collect();
                if name == "to_float" && !self.allow_to_float_str {
                    // float parsing of strings is outside the model: keep the argument numeric
                    // (`x` may be shadowed by a string binding: use the float field or a literal)
                    args = vec![if rng.chance(1, 2) { Expr::Int(rand_int(rng)) } else { id("y") }];
                }
                let mut c = call(name, args);
                if rng.chance(1, 15) {
                    if let Expr::Call { args, .. } = &mut c {
                        if let Some(Arg::Positional(a0)) = args.first().cloned() { args[0] = Arg::Named("k".into(), a0); }
                    }
                }
                c
            }
            16 => Expr::Index { expr: bx(self.expr(rng, d)), index: bx(self.expr(rng, d)) },
            17 => Expr::Slice {
                expr: bx(self.expr(rng, d)),
                start: if rng.chance(2, 3) { Some(bx(self.expr(rng, d))) } else { None },
                end: if rng.chance(2, 3) { Some(bx(self.expr(rng, d))) } else { None },
            },
            18 => Expr::Array((0..rng.below(4)).map(|_| self.expr(rng, d)).collect()),
            19 => {
                let keys = ["k", "x", "k", "id"];
                Expr::Map((0..rng.below(4) as usize).map(|i| (keys[i].to_string(), self.expr(rng, d))).collect())
            }
            20 => {
                let obj = if rng.chance(4, 5) { id(*rng.pick(&["E", "J", "m", "x", "Q"])) } else { self.expr(rng, d) };
                Expr::Member { expr: bx(obj), member: (*rng.pick(&["x", "k", "q", "id", "y"])).to_string() }
            }
            21 => Expr::OptionalMember { expr: bx(self.expr(rng, d)), member: "k".into() },
            22 => Expr::Lambda { params: vec!["p".into()], body: bx(self.expr(rng, d)) },
            23 => Expr::Range { start: bx(Expr::Int(rng.range(-3, 4))), end: bx(Expr::Int(rng.range(-3, 6))), inclusive: rng.chance(1, 2) },
            24 => Expr::Block { stmts: vec![("t".into(), None, self.expr(rng, d), false)], result: bx(self.expr(rng, d)) },
            _ => if rng.chance(1, 2) { Expr::Timestamp(rand_int(rng)) } else { Expr::Call { func: bx(self.expr(rng, d)), args: vec![Arg::Positional(self.expr(rng, d))] } },
        }
    }
}

/// targeted expressions: every operator / built-in on boundary operands
fn targeted(rng: &mut Rng) -> Vec<Expr> {
    let mut out = Vec::new();
    let ints = [i64::MIN, i64::MIN + 1, -1, 0, 1, 2, 63, 64, i64::MAX - 1, i64::MAX];
    for op in [BinOp::Add, BinOp::Sub, BinOp::Mul, BinOp::Div, BinOp::Mod, BinOp::Pow] {
        for a in ints { for b in ints { out.push(bin(op, Expr::Int(a), Expr::Int(b))); } }
        for a in ints { out.push(bin(op, id("x"), Expr::Int(a))); out.push(bin(op, Expr::Int(a), id("x"))); out.push(bin(op, id("y"), Expr::Int(a))); }
    }
    for a in ints {
        out.push(Expr::Unary { op: UnaryOp::Neg, expr: bx(Expr::Int(a)) });
        out.push(call("abs", vec![Expr::Int(a)]));
        for f in ["floor", "ceil", "round", "to_int", "sqrt", "to_float"] { out.push(call(f, vec![Expr::Int(a)])); }
        out.push(Expr::Index { expr: bx(id("a")), index: bx(Expr::Int(a)) });
        out.push(Expr::Index { expr: bx(id("s")), index: bx(Expr::Int(a)) });
        out.push(Expr::Slice { expr: bx(id("a")), start: Some(bx(Expr::Int(a))), end: None });
        out.push(Expr::Slice { expr: bx(id("s")), start: None, end: Some(bx(Expr::Int(a))) });
        out.push(Expr::Slice { expr: bx(id("a")), start: Some(bx(Expr::Int(1))), end: Some(bx(Expr::Int(a))) });
        out.push(call("substring", vec![id("s"), Expr::Int(a)]));
        out.push(call("substring", vec![id("s"), Expr::Int(0), Expr::Int(a)]));
        out.push(call("get", vec![id("a"), Expr::Int(a)]));
        out.push(call("set", vec![id("a"), Expr::Int(a), Expr::Null]));
    }
    for f in float_table(true) {
        for fun in ["floor", "ceil", "round", "to_int", "abs", "sqrt", "log", "log10", "exp", "sin", "cos", "tan"] { out.push(call(fun, vec![Expr::Float(f)])); }
        out.push(Expr::Unary { op: UnaryOp::Neg, expr: bx(Expr::Float(f)) });
        out.push(Expr::Slice { expr: bx(id("a")), start: Some(bx(Expr::Float(f))), end: None });
        out.push(bin(BinOp::Mod, Expr::Float(f), Expr::Float(*rng.pick(&float_table(true)))));
        out.push(bin(BinOp::Div, Expr::Float(f), id("x")));
        out.push(bin(BinOp::Pow, Expr::Float(f), Expr::Int(rng.range(-3, 4))));
    }
    // string built-ins, formatting, sorting on typed arguments
    let seps = ["", " ", "X", "aa", "l", "o w", "a", "XX"];
    for s in str_pool() {
        let se = Expr::Str(s.to_string());
        for f in ["trim", "lower", "upper", "lowercase", "uppercase", "reverse", "len", "to_string", "to_int"] { out.push(call(f, vec![se.clone()])); }
        for sep in seps {
            out.push(call("split", vec![se.clone(), Expr::Str(sep.to_string())]));
            out.push(call("replace", vec![se.clone(), Expr::Str(sep.to_string()), Expr::Str("-".into())]));
            out.push(call("replace", vec![se.clone(), Expr::Str(sep.to_string()), Expr::Str(String::new())]));
            out.push(call("join", vec![call("split", vec![se.clone(), Expr::Str(sep.to_string())]), Expr::Str("|".into())]));
            out.push(bin(BinOp::Lt, se.clone(), Expr::Str(sep.to_string())));
            out.push(bin(BinOp::Ge, se.clone(), Expr::Str(sep.to_string())));
        }
    }
    for f in float_table(true) { out.push(call("to_string", vec![Expr::Float(f)])); out.push(call("to_string", vec![Expr::Float(f / 4.0)])); }
    for a in ints { out.push(call("to_string", vec![Expr::Int(a)])); }
    for d in [0u64, 999, 1000, 1_500_000, 999_999_999, 2_000_000_000, 59_000_000_000, 60_000_000_000, 3_599_000_000_000, 3_600_000_000_000, 86_400_000_000_000, 259_200_000_000_001, u64::MAX] {
        out.push(call("to_string", vec![Expr::Duration(d)]));
    }
    out.push(call("to_string", vec![Expr::Array(vec![Expr::Int(1), Expr::Str("a b".into()), Expr::Null, Expr::Bool(true), Expr::Array(vec![]), Expr::Float(2.5)])]));
    out.push(call("to_string", vec![Expr::Map(vec![("k".into(), Expr::Int(1)), ("x".into(), Expr::Array(vec![Expr::Float(-0.0)]))])]));
    out.push(call("to_string", vec![id("a")]));
    out.push(call("to_string", vec![id("m")]));
    out.push(call("join", vec![id("a"), Expr::Str(", ".into())]));
    out.push(call("join", vec![Expr::Array(vec![Expr::Str("a".into()), Expr::Int(3), Expr::Float(0.5), Expr::Null]), Expr::Str(String::new())]));
    let neg_nan = f64::from_bits(0xFFF8_0000_0000_0000);
    let sort_items = vec![Expr::Float(0.0), Expr::Float(-0.0), Expr::Float(f64::NAN), Expr::Float(neg_nan), Expr::Float(f64::INFINITY), Expr::Float(f64::NEG_INFINITY),
        Expr::Float(1.5), Expr::Float(-1.5), Expr::Int(3), Expr::Str("b".into()), Expr::Int(-3), Expr::Null, Expr::Str("B".into()), Expr::Bool(false), Expr::Float(0.0), Expr::Int(3), Expr::Str("".into())];
    for k in 0..sort_items.len() {
        let mut v = sort_items.clone();
        v.rotate_left(k);
        out.push(call("sort", vec![Expr::Array(v.clone())]));
        v.truncate(5);
        out.push(call("sort", vec![Expr::Array(v)]));
    }
    out.push(call("sort", vec![Expr::Array(vec![bin(BinOp::Div, Expr::Float(0.0), id("y")), Expr::Float(1.0), bin(BinOp::Sub, id("y"), id("y")), Expr::Float(f64::NAN), Expr::Float(-1.0)])]));
    out.push(Expr::Unary { op: UnaryOp::Neg, expr: bx(id("x")) });
    out.push(call("abs", vec![id("x")]));
    out.push(bin(BinOp::Add, id("x"), Expr::Int(1)));
    out.push(bin(BinOp::Mul, id("y"), Expr::Int(0)));
    out.push(bin(BinOp::Add, id("s"), Expr::Int(0)));
    out.push(bin(BinOp::Mul, bin(BinOp::Sub, id("x"), Expr::Int(0)), Expr::Int(1)));
    out.push(Expr::OptionalMember { expr: bx(id("x")), member: "y".into() });
    out.push(Expr::Timestamp(1704067200000000000));
    out.push(Expr::Lambda { params: vec!["y".into()], body: bx(bin(BinOp::Add, id("y"), Expr::Int(1))) });
    out.push(Expr::Block { stmts: vec![("t".into(), None, Expr::Int(1), false)], result: bx(id("t")) });
    out.push(bin(BinOp::Gt, id("x"), Expr::Timestamp(0)));
    out.push(bin(BinOp::Eq, Expr::OptionalMember { expr: bx(id("m")), member: "k".into() }, Expr::Int(1)));
    out
}

fn method(recv: Expr, name: &str, args: Vec<Expr>) -> Expr {
    Expr::Call { func: bx(Expr::Member { expr: bx(recv), member: name.to_string() }), args: args.into_iter().map(Arg::Positional).collect() }
}

/// expressions of the `.pattern` lambda language over the variable `events` (array of maps), `nums`, `m`
fn pat_expr(rng: &mut Rng, depth: u32) -> Expr {
    let d = depth.saturating_sub(1);
    let arr = |rng: &mut Rng, d: u32| -> Expr {
        if d == 0 || rng.chance(1, 2) { return id(*rng.pick(&["events", "nums", "mixed", "nested", "zz"])); }
        match rng.below(5) {
            0 => method(pat_expr(rng, d), "filter", vec![Expr::Lambda { params: vec![(*rng.pick(&["e", "x"])).to_string()], body: bx(pat_expr(rng, d)) }]),
            1 => method(pat_expr(rng, d), "map", vec![Expr::Lambda { params: if rng.chance(1, 3) { vec!["a".into(), "b".into()] } else if rng.chance(1, 8) { vec![] } else { vec!["e".into()] }, body: bx(pat_expr(rng, d)) }]),
            2 => method(pat_expr(rng, d), "flatten", vec![]),
            3 => method(pat_expr(rng, d), "sliding_pairs", vec![]),
            _ => id("nums"),
        }
    };
    if depth == 0 {
        return match rng.below(8) {
            0 => id("events"), 1 => id("nums"), 2 => id("e"), 3 => id("x"), 4 => Expr::Int(rng.range(-2, 40)),
            5 => Expr::Float(rng.range(-6, 60) as f64 / 2.0), 6 => id(*rng.pick(&["a", "b", "m", "mixed"])), _ => Expr::Bool(rng.chance(1, 2)),
        };
    }
    match rng.below(12) {
        0 | 1 => { let a = arr(rng, d); method(a, *rng.pick(&["len", "count", "first", "last", "sum", "avg", "min", "max", "nosuch"]), vec![]) }
        2 => { let a = arr(rng, d); call(*rng.pick(&["len", "first", "last", "avg", "variance", "sum", "min", "max", "sqrt"]), vec![a]) }
        3 | 4 => arr(rng, depth),
        5 => Expr::Member { expr: bx(pat_expr(rng, d)), member: (*rng.pick(&["price", "qty", "k", "name"])).to_string() },
        6 | 7 => bin(*rng.pick(&[BinOp::Gt, BinOp::Lt, BinOp::Ge, BinOp::Le, BinOp::Eq, BinOp::NotEq, BinOp::And, BinOp::Or, BinOp::Add]), pat_expr(rng, d), pat_expr(rng, d)),
        8 => Expr::Lambda { params: vec!["events".into()], body: bx(pat_expr(rng, d)) },
        9 => Expr::Block { stmts: vec![((*rng.pick(&["t", "e"])).to_string(), None, pat_expr(rng, d), false), ("u".into(), None, pat_expr(rng, d), false)], result: bx(if rng.chance(1, 2) { id("t") } else { pat_expr(rng, d) }) },
        10 => Expr::Member { expr: bx(method(arr(rng, d), *rng.pick(&["first", "last"]), vec![])), member: (*rng.pick(&["price", "qty"])).to_string() },
        _ => pat_expr(rng, 0),
    }
}

fn pat_env(rng: &mut Rng) -> EnvSpec {
    let ev = |rng: &mut Rng| -> Value {
        let mut pairs: Vec<(&str, Value)> = vec![("price", rand_num(rng))];
        if rng.chance(3, 4) { pairs.push(("qty", Value::Int(rng.range(-3, 50)))); }
        if rng.chance(1, 2) { pairs.push(("name", Value::Str((*rng.pick(&str_pool())).into()))); }
        Value::map(mk_map(pairs))
    };
    let n = rng.below(5);
    let events = Value::array((0..n).map(|_| ev(rng)).collect());
    let k = rng.below(6);
    let nums = Value::array((0..k).map(|_| match rng.below(6) { 0 => Value::Float(rand_float(rng, true)), 1 => Value::Int(rand_int(rng)), 2 => Value::Float(rng.range(-9, 9) as f64 / 2.0), _ => Value::Int(rng.range(-5, 60)) }).collect());
    let mixed = Value::array((0..rng.below(5)).map(|_| rand_value(rng, 1)).collect());
    let nested = Value::array((0..rng.below(4)).map(|_| if rng.chance(2, 3) { Value::array((0..rng.below(4)).map(|_| Value::Int(rng.range(0, 9))).collect()) } else { Value::Int(7) }).collect());
    EnvSpec { etype: "E".into(), fields: vec![], binds: vec![("events".into(), events), ("nums".into(), nums), ("mixed".into(), mixed), ("nested".into(), nested), ("m".into(), ev(rng))] }
}

fn gen_c11(rng: &mut Rng, thorough: bool) -> Cases {
    let mut envs = Vec::new();
    let mut cases = Vec::new();
    // boundary events for the targeted list
    let specials = [i64::MAX, i64::MIN, -1, 0];
    for (i, xi) in specials.iter().enumerate() {
        let yv = [f64::NAN, f64::INFINITY, -0.0, 1e308][i];
        envs.push(EnvSpec { etype: "E".into(), fields: vec![
            ("x".into(), Value::Int(*xi)), ("y".into(), Value::Float(yv)), ("s".into(), Value::Str(["", "h\u{e9}llo", "abc", "a"][i].into())),
            ("a".into(), Value::array(if i == 0 { vec![] } else { vec![Value::Int(1), Value::array(vec![Value::Null]), Value::Float(f64::NAN)] })),
            ("m".into(), Value::map(mk_map(vec![("k", Value::Int(1))]))),
        ], binds: vec![] });
    }
    let t = targeted(rng);
    for env in 0..envs.len() {
        for e in &t {
            for path in ["e", "f"] { cases.push(Case { env, kind: Kind::Ev { path, e: e.clone() } }); }
        }
    }
    // the forms the catch-all arm used to loop on, and a few more, through VPL text + Engine
    for e in &t {
        if rng.chance(if thorough { 1 } else { 8 }, 8) && vpl(e).is_some() { cases.push(Case { env: 0, kind: Kind::Probe { path: "t", e: e.clone() } }); }
    }
    // built-ins outside the model: boundary arguments, panic probe only
    let g = Gen { arith_bias: false, allow_to_float_str: true };
    let n_un = if thorough { 6000 } else { 600 };
    for _ in 0..n_un {
        if rng.chance(1, 6) || envs.len() < 6 { envs.push(rand_env(rng)); }
        let env = envs.len() - 1;
        let (name, n) = *rng.pick(UNMODELLED);
        let args: Vec<Expr> = (0..n).map(|_| g.expr(rng, 1)).collect();
        cases.push(Case { env, kind: Kind::Probe { path: "e", e: call(name, args) } });
    }
    // sort with comparators that are not a total order (mixed types, NaN), long arrays
    for k in 0..(if thorough { 60 } else { 12 }) {
        let n = 5 + 7 * k;
        let items: Vec<Value> = (0..n).map(|_| match rng.below(4) { 0 => Value::Int(rng.range(-50, 50)), 1 => Value::Float(if rng.chance(1, 4) { f64::NAN } else { rng.range(-50, 50) as f64 / 2.0 }), 2 => Value::Str((*rng.pick(&str_pool())).into()), _ => Value::Null }).collect();
        envs.push(EnvSpec { etype: "E".into(), fields: vec![("a".into(), Value::array(items))], binds: vec![] });
        cases.push(Case { env: envs.len() - 1, kind: Kind::Ev { path: "e", e: call("sort", vec![id("a")]) } });
    }
    // `.pattern` lambda language through eval_pattern_expr
    let n_pat = if thorough { 30000 } else { 4000 };
    for i in 0..n_pat {
        if i % 8 == 0 { envs.push(pat_env(rng)); }
        let env = envs.len() - 1;
        let depth = 1 + rng.below(4) as u32;
        cases.push(Case { env, kind: Kind::EvP { e: pat_expr(rng, depth) } });
    }
    // random trees over the modelled fragment
    let g = Gen { arith_bias: false, allow_to_float_str: false };
    let n_rand = if thorough { 60000 } else { 5000 };
    for i in 0..n_rand {
        if i % 4 == 0 { envs.push(rand_env(rng)); }
        let env = envs.len() - 1;
        let depth = 1 + rng.below(if thorough { 4 } else { 3 }) as u32;
        let e = g.expr(rng, depth);
        let path = if envs[env].binds.is_empty() && rng.chance(1, 2) { "f" } else { "e" };
        cases.push(Case { env, kind: Kind::Ev { path, e: e.clone() } });
        if rng.chance(1, if thorough { 10 } else { 25 }) && vpl(&e).is_some() { cases.push(Case { env, kind: Kind::Probe { path: "t", e } }); }
    }
    Cases { envs, cases }
}

fn gen_c10(rng: &mut Rng, thorough: bool) -> Cases {
    let mut envs = Vec::new();
    let mut cases = Vec::new();
    // every literal pair under every foldable operator, and every identity shape on every field type
    envs.push(EnvSpec { etype: "E".into(), fields: vec![
        ("x".into(), Value::Int(7)), ("y".into(), Value::Float(2.5)), ("s".into(), Value::Str("abc".into())),
        ("b".into(), Value::Bool(true)), ("n".into(), Value::Null), ("a".into(), Value::array(vec![Value::Int(1)])),
        ("z".into(), Value::Float(-0.0)), ("q".into(), Value::Float(f64::NAN)), ("price".into(), Value::Float(10.5)), ("name".into(), Value::Str("bob".into())),
    ], binds: vec![] });
    let ints = [i64::MIN, -1, 0, 1, 2, 3, 40, 63, 64, 100, i64::MAX];
    let floats = [0.0, -0.0, 1.0, 0.5, -2.5, 1e308, f64::INFINITY, f64::NAN];
    let ops = [BinOp::Add, BinOp::Sub, BinOp::Mul, BinOp::Div, BinOp::Mod, BinOp::Pow];
    let mut list: Vec<Expr> = Vec::new();
    for op in ops {
        for a in ints { for b in ints { list.push(bin(op, Expr::Int(a), Expr::Int(b))); } }
        for a in floats { for b in floats { list.push(bin(op, Expr::Float(a), Expr::Float(b))); } }
        for a in floats { list.push(bin(op, Expr::Float(a), Expr::Int(0))); list.push(bin(op, Expr::Int(1), Expr::Float(a))); list.push(bin(op, Expr::Float(a), Expr::Int(1))); }
        for f in ["x", "y", "s", "b", "n", "a", "z", "q", "price", "name", "zz"] {
            for c in [0i64, 1] {
                list.push(bin(op, id(f), Expr::Int(c)));
                list.push(bin(op, Expr::Int(c), id(f)));
            }
            list.push(bin(op, id(f), Expr::Float(0.0)));
        }
    }
    for a in ints { list.push(Expr::Unary { op: UnaryOp::Neg, expr: bx(Expr::Int(a)) }); }
    for a in floats { list.push(Expr::Unary { op: UnaryOp::Neg, expr: bx(Expr::Float(a)) }); }
    // identities meeting syntax-directed evaluation
    list.push(Expr::Call { func: bx(bin(BinOp::Mul, id("abs"), Expr::Int(1))), args: vec![Arg::Positional(Expr::Int(-3))] });
    list.push(Expr::Member { expr: bx(bin(BinOp::Add, id("E"), Expr::Int(0))), member: "x".into() });
    list.push(bin(BinOp::Mul, bin(BinOp::Add, Expr::Int(1), Expr::Int(-1)), id("y")));
    for (i, e) in list.iter().enumerate() {
        cases.push(Case { env: 0, kind: Kind::C10 { e: e.clone() } });
        // the text path builds one Engine per program: every 5th entry in the quick tier
        if (thorough || i % 5 == 0) && vpl(e).is_some() { cases.push(Case { env: 0, kind: Kind::C10T { e: e.clone() } }); }
        if (thorough || i % 7 == 0) && vpl(e).is_some() { cases.push(Case { env: 0, kind: Kind::C10W { e: bin(BinOp::Eq, e.clone(), e.clone()) } }); }
    }
    // random trees, arithmetic-heavy, literals biased to 0/1/extremes
    let n_rand = if thorough { 60000 } else { 5000 };
    let g = Gen { arith_bias: true, allow_to_float_str: false };
    let g2 = Gen { arith_bias: false, allow_to_float_str: false };
    for i in 0..n_rand {
        if i % 5 == 0 { let mut e = rand_env(rng); e.binds.clear(); envs.push(e); }
        let env = envs.len() - 1;
        let depth = 1 + rng.below(if thorough { 4 } else { 3 }) as u32;
        let e = if rng.chance(3, 4) { g.expr(rng, depth) } else { g2.expr(rng, depth) };
        cases.push(Case { env, kind: Kind::C10 { e: e.clone() } });
        if rng.chance(1, if thorough { 6 } else { 15 }) && vpl(&e).is_some() {
            if rng.chance(1, 3) { cases.push(Case { env, kind: Kind::C10W { e } }); } else { cases.push(Case { env, kind: Kind::C10T { e } }); }
        }
    }
    Cases { envs, cases }
}

fn gen_cases(set: &str, seed: u64, thorough: bool) -> Cases {
    let mut rng = Rng(seed ^ 0xC0FFEE);
    match set {
        "C08" => gen_c08(&mut rng, thorough),
        "C10" => gen_c10(&mut rng, thorough),
        _ => gen_c11(&mut rng, thorough),
    }
}

// ---------------------------------------------------------------------------------------------
// evaluation of the real code (child process)
// ---------------------------------------------------------------------------------------------

fn op_text(op: &BinOp) -> &'static str {
    match op { BinOp::Lt => "<", BinOp::Le => "<=", BinOp::Gt => ">", _ => ">=" }
}

fn compare_op(op: &BinOp) -> CompareOp {
    match op { BinOp::Lt => CompareOp::Lt, BinOp::Le => CompareOp::Le, BinOp::Gt => CompareOp::Gt, _ => CompareOp::Ge }
}

fn eval_e(e: &Expr, env: &EnvSpec) -> Option<Value> {
    let ev = env.event();
    let b = mk_bindings(&env.binds);
    evaluator::eval_expr_with_functions(e, &ev, SequenceContext::empty(), &Default::default(), &b)
}

fn eval_f(e: &Expr, env: &EnvSpec) -> Option<Value> {
    let ev = env.event();
    evaluator::eval_filter_expr(e, &ev, SequenceContext::empty())
}

/// run one program over one event through parse + Engine; returns the output events
fn run_engine(rt: &tokio::runtime::Runtime, engines: &mut HashMap<String, (Engine, tokio::sync::mpsc::Receiver<Event>)>, src: &str, ev: Event, reuse: bool) -> Result<Vec<Event>, String> {
    if !engines.contains_key(src) || !reuse {
        let program = varpulis_parser::parse(src).map_err(|e| format!("parse: {:?}", e))?;
        let (tx, rx) = tokio::sync::mpsc::channel::<Event>(1000);
        let mut engine = Engine::new(tx);
        engine.load(&program).map_err(|e| format!("load: {}", e))?;
        engines.insert(src.to_string(), (engine, rx));
    }
    let (engine, rx) = engines.get_mut(src).unwrap();
    rt.block_on(engine.process(ev)).map_err(|e| format!("process: {}", e))?;
    let mut out = Vec::new();
    while let Ok(e) = rx.try_recv() { out.push(e); }
    if !reuse { engines.remove(src); }
    Ok(out)
}

fn bool_res(r: &Option<Value>) -> String {
    match r { Some(Value::Bool(true)) => "T".into(), Some(Value::Bool(false)) => "F".into(), Some(_) => "other".into(), None => "none".into() }
}

struct Child { rt: tokio::runtime::Runtime, engines: HashMap<String, (Engine, tokio::sync::mpsc::Receiver<Event>)> }

fn gen_error(msg: String) -> ! {
    eprintln!("generator error: {}", msg);
    std::process::exit(3);
}

fn eval_case(ch: &mut Child, cs: &Cases, c: &Case) -> String {
    let env = &cs.envs[c.env];
    match &c.kind {
        Kind::Cmp { ctx, op, l, r } => match *ctx {
            "expr" => {
                let e = bin(*op, id("l"), id("r"));
                let ev = Event::new("E").with_field("l", l.clone()).with_field("r", r.clone());
                bool_res(&evaluator::eval_filter_expr(&e, &ev, SequenceContext::empty()))
            }
            "pattern" => bool_res(&evaluator::eval_binary_op(op, l, r)),
            _ => if verif_compare_values(l, r, compare_op(op)) { "T".into() } else { "F".into() },
        },
        Kind::CmpX { path, op } => {
            let e = bin(*op, id("l"), id("r"));
            match *path {
                "e" => bool_res(&eval_e(&e, env)),
                "f" => bool_res(&eval_f(&e, env)),
                "p" => {
                    // `.pattern` lambdas see the events as an array of maps
                    let mut pairs: Vec<(&str, Value)> = vec![];
                    for (k, v) in &env.fields { pairs.push((k.as_str(), v.clone())); }
                    let events = Value::array(vec![Value::map(mk_map(pairs))]);
                    let first = call("first", vec![id("events")]);
                    let pe = Expr::Lambda { params: vec!["events".into()], body: bx(bin(*op,
                        Expr::Member { expr: bx(first.clone()), member: "l".into() },
                        Expr::Member { expr: bx(first), member: "r".into() })) };
                    let vars = mk_bindings(&[("events".to_string(), events)]);
                    bool_res(&evaluator::eval_pattern_expr(&pe, &[], SequenceContext::empty(), &Default::default(), &vars))
                }
                _ => {
                    let o = op_text(op);
                    let src = match *path {
                        "W" => format!("stream S = E .where(l {} r) .emit(ok: 1)", o),
                        "M" => format!("stream S = E .emit(v: l {} r)", o),
                        "H" => format!("stream S = E .window(1) .aggregate(l: last(l), r: last(r)) .having(l {} r) .emit(ok: 1)", o),
                        _ => format!("stream S = E .pattern(p: events => first(events).l {} first(events).r) .emit(ok: 1)", o),
                    };
                    match run_engine(&ch.rt, &mut ch.engines, &src, env.event(), true) {
                        Err(m) => gen_error(format!("{} on {}", m, src)),
                        Ok(out) => {
                            if *path == "M" {
                                if out.len() != 1 { return format!("outputs={}", out.len()); }
                                bool_res(&out[0].get("v").cloned())
                            } else if out.is_empty() { "dropped".into() } else if out.len() == 1 { "kept".into() } else { format!("outputs={}", out.len()) }
                        }
                    }
                }
            }
        }
        Kind::Ev { path, e } => fmt_res(&if *path == "f" { eval_f(e, env) } else { eval_e(e, env) }),
        Kind::EvP { e } => {
            let vars = mk_bindings(&env.binds);
            fmt_res(&evaluator::eval_pattern_expr(e, &[], SequenceContext::empty(), &Default::default(), &vars))
        }
        Kind::Probe { path, e } => {
            if *path == "t" {
                let src = format!("stream S = E .where(({}) == 1) .emit(v: {})", vpl(e).unwrap(), vpl(e).unwrap());
                match run_engine(&ch.rt, &mut ch.engines, &src, env.event(), false) {
                    // not every generated text is a valid program (e.g. type errors at load): fine for a panic probe
                    Err(_) => "ok".into(),
                    Ok(_) => "ok".into(),
                }
            } else { let _ = eval_e(e, env); "ok".into() }
        }
        Kind::C10 { e } => {
            let u = eval_e(e, env);
            let prog = Program { statements: vec![Spanned::dummy(Stmt::Expr(e.clone()))] };
            let folded = varpulis_parser::optimize::fold_program(prog);
            let fe = match folded.statements.into_iter().next().map(|s| s.node) { Some(Stmt::Expr(x)) => x, _ => gen_error("fold_program changed the statement kind".into()) };
            let f = eval_e(&fe, env);
            format!("{} | {} | {}", fmt_res(&u), fmt_res(&f), fmt_expr(&fe))
        }
        Kind::C10W { e } => {
            let src = format!("stream S = E .where({}) .emit(ok: 1)", vpl(e).unwrap());
            let program = match varpulis_parser::parse(&src) { Ok(p) => p, Err(_) => return "SKIP-parse".into() };
            let parsed = program.statements.iter().find_map(|s| match &s.node {
                Stmt::StreamDecl { ops, .. } => ops.iter().find_map(|o| match o { StreamOp::Where(x) => Some(x.clone()), _ => None }),
                _ => None });
            let prog = Program { statements: vec![Spanned::dummy(Stmt::Expr(e.clone()))] };
            let want = match varpulis_parser::optimize::fold_program(prog).statements.into_iter().next().map(|s| s.node) { Some(Stmt::Expr(x)) => x, _ => return "SKIP-shape".into() };
            if parsed.as_ref().map(fmt_expr) != Some(fmt_expr(&want)) { return "SKIP-shape".into(); }
            match run_engine(&ch.rt, &mut ch.engines, &src, env.event(), false) {
                Err(_) => "SKIP-load".into(),
                Ok(out) => if out.is_empty() { "dropped".into() } else if out.len() == 1 { "kept".into() } else { format!("outputs={}", out.len()) },
            }
        }
        Kind::C10T { e } => {
            // `.emit(v: name)` / `.emit(v: "text")` are field copies, not expression evaluation
            if matches!(e, Expr::Ident(_) | Expr::Str(_)) { return "SKIP-fieldcopy".into(); }
            let src = format!("stream S = E .emit(v: {})", vpl(e).unwrap());
            // the text must denote the intended tree: parse() (which folds) must equal fold(intended)
            let program = match varpulis_parser::parse(&src) { Ok(p) => p, Err(_) => return "SKIP-parse".into() };
            let parsed = program.statements.iter().find_map(|s| match &s.node {
                Stmt::StreamDecl { ops, .. } => ops.iter().find_map(|o| match o { StreamOp::Emit { fields, .. } => fields.first().map(|NamedArg { value, .. }| value.clone()), _ => None }),
                _ => None });
            let prog = Program { statements: vec![Spanned::dummy(Stmt::Expr(e.clone()))] };
            let want = match varpulis_parser::optimize::fold_program(prog).statements.into_iter().next().map(|s| s.node) { Some(Stmt::Expr(x)) => x, _ => return "SKIP-shape".into() };
            if parsed.as_ref().map(fmt_expr) != Some(fmt_expr(&want)) { return "SKIP-shape".into(); }
            match run_engine(&ch.rt, &mut ch.engines, &src, env.event(), false) {
                Err(_) => "SKIP-load".into(),
                Ok(out) => if out.len() != 1 { format!("outputs={}", out.len()) } else { fmt_res(&out[0].get("v").cloned()) },
            }
        }
    }
}

fn child_main(ctx: &mut Ctx) {
    // --replay "<set>:<start>:<resultfile>"
    let spec = ctx.replay.clone().expect("expr-sub needs --replay set:start:file");
    let mut it = spec.splitn(3, ':');
    let set = it.next().unwrap().to_string();
    let start: usize = it.next().unwrap().parse().unwrap();
    let path = it.next().unwrap().to_string();
    let cs = gen_cases(&set, ctx.seed, ctx.thorough);
    let mut f = std::fs::OpenOptions::new().create(true).append(true).open(&path).expect("result file");
    let rt = tokio::runtime::Builder::new_current_thread().enable_all().build().unwrap();
    let mut ch = Child { rt, engines: HashMap::new() };
    std::panic::set_hook(Box::new(|_| {}));
    for (i, c) in cs.cases.iter().enumerate().skip(start) {
        let r = match std::panic::catch_unwind(std::panic::AssertUnwindSafe(|| eval_case(&mut ch, &cs, c))) {
            Ok(s) => s,
            Err(_) => { ch.engines.clear(); "panic".to_string() }
        };
        writeln!(f, "{} {}", i, r).unwrap();
        f.flush().unwrap();
    }
}

fn run_children(ctx: &mut Ctx, set: &str, n: usize) -> Vec<String> {
    let exe = std::env::current_exe().expect("current_exe");
    let path = format!("/var/tmp/vh-expr-{}-{}-{}.res", set, ctx.seed, std::process::id());
    let _ = std::fs::remove_file(&path);
    let mut results: Vec<String> = Vec::with_capacity(n);
    let mut restarts = 0;
    while results.len() < n {
        let start = results.len();
        let st = std::process::Command::new(&exe)
            .args(["expr-sub", "--seed", &ctx.seed.to_string(), "--tier", if ctx.thorough { "thorough" } else { "quick" },
                   "--out", &format!("{}.childout", path), "--replay", &format!("{}:{}:{}", set, start, path)])
            .stdout(std::process::Stdio::null()).stderr(std::process::Stdio::null())
            .status().expect("spawn child");
        let text = std::fs::read_to_string(&path).unwrap_or_default();
        results.clear();
        for (i, l) in text.lines().enumerate() {
            let (idx, r) = l.split_once(' ').unwrap_or((l, ""));
            if idx.parse::<usize>().ok() != Some(i) { break; }   // a torn last line
            results.push(r.to_string());
        }
        if st.code() == Some(3) { eprintln!("generator error in child"); std::process::exit(3); }
        if results.len() < n {
            if st.success() && results.len() == start { eprintln!("child made no progress"); std::process::exit(3); }
            // the child died on case `results.len()`: a process abort (stack overflow)
            let mut f = std::fs::OpenOptions::new().append(true).create(true).open(&path).unwrap();
            // drop a torn line, then record the abort
            let clean: String = results.iter().enumerate().map(|(i, r)| format!("{} {}\n", i, r)).collect();
            drop(f);
            std::fs::write(&path, clean).unwrap();
            f = std::fs::OpenOptions::new().append(true).open(&path).unwrap();
            writeln!(f, "{} abort", results.len()).unwrap();
            results.push("abort".into());
            restarts += 1;
            ctx.count("child-aborts");
            if restarts > 400 { ctx.notes.push("more than 400 aborts: remaining cases not evaluated".into()); while results.len() < n { results.push("abort".into()); } }
        }
    }
    let _ = std::fs::remove_file(&path);
    let _ = std::fs::remove_file(format!("{}.childout", path));
    let _ = std::fs::remove_file(format!("{}.childout.stats.json", path));
    results
}

fn expr_kind(e: &Expr) -> &'static str {
    match e {
        Expr::Binary { op, .. } => binop_name(op),
        Expr::Unary { .. } => "unary", Expr::Call { .. } => "call", Expr::Index { .. } => "index", Expr::Slice { .. } => "slice",
        Expr::If { .. } => "if", Expr::Coalesce { .. } => "coalesce", Expr::Member { .. } => "member", Expr::OptionalMember { .. } => "optmember",
        Expr::Lambda { .. } => "lambda", Expr::Block { .. } => "block", Expr::Range { .. } => "range", Expr::Array(_) => "array", Expr::Map(_) => "map",
        Expr::Ident(_) => "ident", Expr::Timestamp(_) => "timestamp", _ => "literal",
    }
}

fn count_calls(ctx: &mut Ctx, e: &Expr) {
    if let Expr::Call { func, args } = e {
        if let Expr::Ident(n) = func.as_ref() { ctx.count(&format!("fn:{}", n)); }
        for a in args { match a { Arg::Positional(x) | Arg::Named(_, x) => count_calls(ctx, x) } }
    }
}

pub fn run(ctx: &mut Ctx, name: &str) {
    if name == "expr-sub" { child_main(ctx); return; }
    NAN_SIGNED.store(true, std::sync::atomic::Ordering::Relaxed);
    let cs = gen_cases(name, ctx.seed, ctx.thorough);
    let results = run_children(ctx, name, cs.cases.len());
    let mut cur_env = usize::MAX;
    for (c, r) in cs.cases.iter().zip(results.iter()) {
        let needs_env = !matches!(c.kind, Kind::Cmp { .. });
        if needs_env && c.env != cur_env { ctx.directive(&cs.envs[c.env].line()); cur_env = c.env; }
        let res_class = if r.starts_with("some") { "some" } else { r.split(' ').next().unwrap_or("") }.to_string();
        match &c.kind {
            Kind::Cmp { ctx: cx, op, l, r: rv } => {
                let kind = |v: &Value| match v { Value::Int(_) => "int", Value::Float(f) if f.is_nan() => "nan", Value::Float(_) => "float", _ => "other" };
                ctx.count(&format!("cmp:{}:{}x{}", cx, kind(l), kind(rv)));
                ctx.case(&format!("cmp {} {} {} {}", cx, binop_name(op), fmt_value(l), fmt_value(rv)), r);
            }
            Kind::CmpX { path, op } => {
                ctx.count(&format!("cmpx:{}:{}", path, res_class));
                ctx.case(&format!("cmpx {} {} (id {}) (id {})", path, binop_name(op), hex("l"), hex("r")), r);
            }
            Kind::Ev { path, e } => {
                ctx.count(&format!("ev:{}", expr_kind(e)));
                ctx.count(&format!("res:{}", res_class));
                count_calls(ctx, e);
                ctx.case(&format!("ev {} {}", path, fmt_expr(e)), r);
            }
            Kind::EvP { e } => {
                ctx.count(&format!("evp:{}", expr_kind(e)));
                ctx.count(&format!("evp-res:{}", res_class));
                ctx.case(&format!("evp {}", fmt_expr(e)), r);
            }
            Kind::Probe { path, e } => {
                ctx.count(&format!("probe:{}:{}", path, expr_kind(e)));
                count_calls(ctx, e);
                ctx.case(&format!("probe {} {}", path, fmt_expr(e)), r);
            }
            Kind::C10 { e } => {
                ctx.count(&format!("c10:{}", expr_kind(e)));
                let parts: Vec<&str> = r.split(" | ").collect();
                if parts.len() == 3 { if parts[2] != fmt_expr(e) { ctx.count("c10:fold-changed-the-tree"); } if parts[0] != parts[1] { ctx.count("c10:value-changed"); } }
                ctx.case(&format!("c10 {}", fmt_expr(e)), r);
            }
            Kind::C10W { e } => {
                if r.starts_with("SKIP") { ctx.count(&format!("c10w:{}", r)); continue; }
                ctx.count(&format!("c10w:{}", r));
                ctx.case(&format!("c10w {}", fmt_expr(e)), r);
            }
            Kind::C10T { e } => {
                if r.starts_with("SKIP") { ctx.count(&format!("c10t:{}", r)); continue; }
                ctx.count("c10t:run");
                ctx.case(&format!("c10t {}", fmt_expr(e)), r);
            }
        }
    }
}
