//! C25: trend aggregation counts (Hamlet aggregator in both sharing modes, GRETA baseline, Engine
//! `.trend_aggregate(n: count_trends())`), alone and alongside other queries.
//!
//! Scenario = one `new` directive (queries + stream) followed by one case line per way of running it:
//!   new <Q> | <E>           Q = queries separated by `;`, a query = steps separated by `,`, a step = type id with
//!                           an optional `+` (Kleene);  E = event type ids separated by spaces (`3` = a type no query uses)
//!   hamlet shared|nonshared|alone<i>    HamletAggregator through its public API (template built the way the engine builds it)
//!   greta all|alone<i>                  GretaExecutor
//!   engine all|alone<i>                 VPL text -> varpulis_parser::parse -> Engine::load -> Engine::process, TrendAggregateResult via .emit
//!   enginegap alone<i> <gap_s>          as engine, events `gap_s` seconds apart (window = 60 s)
//! A `/` in E is a window boundary: the same aggregator/executor is flushed there and reused
//! (the engine never flushes, so engine lines exist for single-window scenarios only).
//! Answers: `i=<k>:<q>:<v>,…  f=<w>:<q>:<v>,…` = incremental reports (event index k over the whole stream,
//! query q, value v) and the flush() reports of window w.
use crate::util::{catch, Ctx};
use std::sync::Arc;
use varpulis_runtime::greta::{GretaAggregate, GretaExecutor, GretaQuery};
use varpulis_runtime::hamlet::optimizer::OptimizerConfig;
use varpulis_runtime::hamlet::template::TemplateBuilder;
use varpulis_runtime::hamlet::{HamletAggregator, HamletConfig, QueryRegistration};
use varpulis_runtime::{Engine, Event};

pub const NAMES: &[&str] = &["C25"];

const TYPE_NAMES: [&str; 4] = ["A", "B", "C", "D"];
/// pseudo event: window boundary (flush the aggregator, keep using it)
const FLUSH: usize = 9;

#[derive(Clone, Debug, PartialEq, Eq, Hash)]
struct Query { steps: Vec<(usize, bool)> }

fn fmt_query(q: &Query) -> String {
    q.steps.iter().map(|(t, k)| format!("{}{}", t, if *k { "+" } else { "" })).collect::<Vec<_>>().join(",")
}
fn fmt_queries(qs: &[Query]) -> String { qs.iter().map(fmt_query).collect::<Vec<_>>().join(";") }
fn fmt_events(evs: &[usize]) -> String { evs.iter().map(|t| if *t == FLUSH { "/".to_string() } else { t.to_string() }).collect::<Vec<_>>().join(" ") }

fn fmt_reports(inc: &mut Vec<(usize, u32, String)>, fl: &mut Vec<(usize, u32, String)>) -> String {
    inc.sort();
    fl.sort();
    format!("i={} f={}",
        inc.iter().map(|(k, q, v)| format!("{}:{}:{}", k, q, v)).collect::<Vec<_>>().join(","),
        fl.iter().map(|(w, q, v)| format!("{}:{}:{}", w, q, v)).collect::<Vec<_>>().join(","))
}

/// HamletAggregator over `qs` (ids = positions in `ids`), template built as the repository builds it
/// (engine/mod.rs for one query, the unit tests of aggregator.rs/template.rs for several):
/// add_sequence(types), then add_kleene(type, template state of that step).
fn run_hamlet(qs: &[Query], ids: &[u32], shared: bool, evs: &[usize]) -> String {
    let mut b = TemplateBuilder::new();
    let mut base = 0usize; // add_sequence allocates len+1 fresh states per query
    for (q, &id) in qs.iter().zip(ids) {
        let names: Vec<&str> = q.steps.iter().map(|(t, _)| TYPE_NAMES[*t]).collect();
        b.add_sequence(id, &names);
        for (pos, (t, k)) in q.steps.iter().enumerate() {
            if *k { b.add_kleene(id, TYPE_NAMES[*t], (base + pos) as u16); }
        }
        base += q.steps.len() + 1;
    }
    let template = b.build();
    let mut optimizer = OptimizerConfig::default();
    if !shared { optimizer.min_queries = 1000; }
    let regs: Vec<QueryRegistration> = qs.iter().zip(ids).map(|(q, &id)| QueryRegistration {
        id,
        event_types: q.steps.iter().map(|(t, _)| template.type_index(TYPE_NAMES[*t]).unwrap()).collect(),
        kleene_types: q.steps.iter().filter(|(_, k)| *k).map(|(t, _)| template.type_index(TYPE_NAMES[*t]).unwrap()).collect(),
        aggregate: GretaAggregate::CountTrends,
    }).collect();
    let mut agg = HamletAggregator::new(HamletConfig { optimizer, window_ms: 60_000, incremental: true }, template);
    for r in regs { agg.register_query(r); }
    let mut inc = Vec::new();
    let mut fl: Vec<(usize, u32, String)> = Vec::new();
    let (mut k, mut w) = (0usize, 0usize);
    for t in evs.iter().chain(std::iter::once(&FLUSH)) {
        if *t == FLUSH {
            for r in agg.flush() { fl.push((w, r.query_id, format!("{}{}", r.value, if r.is_final { "" } else { "?" }))); }
            w += 1;
            continue;
        }
        for r in agg.process(Arc::new(Event::new(TYPE_NAMES[*t]))) {
            inc.push((k, r.query_id, format!("{}{}", r.value, if r.is_final { "!" } else { "" })));
        }
        k += 1;
    }
    fmt_reports(&mut inc, &mut fl)
}

fn run_greta(qs: &[Query], evs: &[usize]) -> String {
    let mut ex = GretaExecutor::new();
    let idx: Vec<u16> = TYPE_NAMES.iter().take(3).map(|n| ex.register_type(Arc::from(*n))).collect();
    for (i, q) in qs.iter().enumerate() {
        ex.register_query(GretaQuery {
            id: i as u32, pattern_id: i as u32,
            event_types: q.steps.iter().map(|(t, _)| idx[*t]).collect(),
            kleene_types: q.steps.iter().filter(|(_, k)| *k).map(|(t, _)| idx[*t]).collect(),
            aggregate: GretaAggregate::CountTrends, window_ms: 60_000, slide_ms: 60_000,
        });
    }
    let mut inc = Vec::new();
    let mut fl: Vec<(usize, u32, String)> = Vec::new();
    let (mut k, mut w) = (0usize, 0usize);
    for t in evs.iter().chain(std::iter::once(&FLUSH)) {
        if *t == FLUSH {
            for (q, v) in ex.flush() { fl.push((w, q, v.to_string())); }
            w += 1;
            continue;
        }
        for (q, v) in ex.process(Arc::new(Event::new(TYPE_NAMES[*t]))) { inc.push((k, q, v.to_string())); }
        k += 1;
    }
    fmt_reports(&mut inc, &mut fl)
}

fn vpl(qs: &[Query], ids: &[u32]) -> String {
    let mut s = String::new();
    for (q, id) in qs.iter().zip(ids) {
        let steps: Vec<String> = q.steps.iter().enumerate().map(|(i, (t, k))|
            format!("{}{} as s{}", if *k { "all " } else { "" }, TYPE_NAMES[*t], i)).collect();
        s.push_str(&format!("stream Q{} = {} .within(1m) .trend_aggregate(n: count_trends()) .emit(n: n)\n", id, steps.join(" -> ")));
    }
    s
}

/// Engine path: VPL text -> parse -> load -> process; one TrendAggregateResult-derived output per report.
fn run_engine(rt: &tokio::runtime::Runtime, qs: &[Query], ids: &[u32], evs: &[usize], gap_s: i64) -> Result<String, String> {
    let src = vpl(qs, ids);
    let program = varpulis_parser::parse(&src).map_err(|e| format!("parse: {:?} in {}", e, src))?;
    let (tx, mut rx) = tokio::sync::mpsc::channel(4096);
    let mut engine = Engine::new(tx);
    engine.load(&program).map_err(|e| format!("load: {} in {}", e, src))?;
    let base = chrono::DateTime::<chrono::Utc>::from_timestamp(1_700_000_000, 0).unwrap();
    let mut inc = Vec::new();
    for (k, t) in evs.iter().enumerate() {
        let ev = Event::new_at(TYPE_NAMES[*t], base + chrono::Duration::seconds(gap_s * k as i64));
        rt.block_on(engine.process(ev)).map_err(|e| format!("process: {}", e))?;
        while let Ok(out) = rx.try_recv() {
            let q: u32 = out.event_type.strip_prefix('Q').and_then(|x| x.parse().ok()).unwrap_or(999);
            let v = match out.data.get("n") {
                Some(varpulis_core::Value::Int(n)) => n.to_string(),
                Some(other) => format!("?{:?}", other).replace(' ', ""),
                None => "?".to_string(),
            };
            inc.push((k, q, v));
        }
    }
    Ok(fmt_reports(&mut inc, &mut Vec::new()))
}

fn scenario(ctx: &mut Ctx, rt: &tokio::runtime::Runtime, qs: &[Query], evs: &[usize], with_engine: bool, fixed_gap: Option<i64>) {
    ctx.directive(&format!("new {} | {}", fmt_queries(qs), fmt_events(evs)));
    let all_ids: Vec<u32> = (0..qs.len() as u32).collect();
    let with_engine = with_engine && !evs.contains(&FLUSH);
    let call = |f: &dyn Fn() -> String| -> String {
        let f = std::panic::AssertUnwindSafe(f);
        catch(move || f()).unwrap_or_else(|_| "panic".to_string())
    };
    for shared in [true, false] {
        let r = call(&|| run_hamlet(qs, &all_ids, shared, evs));
        ctx.case(&format!("hamlet {}", if shared { "shared" } else { "nonshared" }), &r);
    }
    let r = call(&|| run_greta(qs, evs));
    ctx.case("greta all", &r);
    if qs.len() > 1 {
        for (i, q) in qs.iter().enumerate() {
            // alone = its own aggregator; the query keeps its id so that the answers are comparable
            let r = call(&|| run_hamlet(std::slice::from_ref(q), &[0], true, evs));
            ctx.case(&format!("hamlet alone{}", i), &r);
            let r = call(&|| run_greta(std::slice::from_ref(q), evs));
            ctx.case(&format!("greta alone{}", i), &r);
        }
    }
    if with_engine {
        match run_engine(rt, qs, &all_ids, evs, 1) {
            Ok(r) => ctx.case("engine all", &r),
            Err(e) => { eprintln!("generator error: {}", e); std::process::exit(3); }
        }
        if qs.len() > 1 {
            for (i, q) in qs.iter().enumerate() {
                match run_engine(rt, std::slice::from_ref(q), &[0], evs, 1) {
                    Ok(r) => ctx.case(&format!("engine alone{}", i), &r),
                    Err(e) => { eprintln!("generator error: {}", e); std::process::exit(3); }
                }
            }
        }
    }
    if with_engine && qs.len() == 1 && !evs.is_empty() {
        // the same stream with the events spread over more than the 60 s window
        let gap = fixed_gap.unwrap_or_else(|| if ctx.rng.chance(1, 2) { 20 } else { 100 });
        match run_engine(rt, qs, &all_ids, evs, gap) {
            Ok(r) => ctx.case(&format!("enginegap alone0 {}", gap), &r),
            Err(e) => { eprintln!("generator error: {}", e); std::process::exit(3); }
        }
        ctx.count("enginegap");
    }
    ctx.count(&format!("queries={}", qs.len()));
    ctx.count(&format!("events={}", evs.iter().filter(|t| **t != FLUSH).count()));
    ctx.count(&format!("windows={}", 1 + evs.iter().filter(|t| **t == FLUSH).count()));
    let kl = qs.iter().map(|q| q.steps.iter().filter(|s| s.1).count()).max().unwrap_or(0);
    ctx.count(&format!("max_kleene_steps={}", kl));
}

/// all queries over types {0,1,2}: 2 or 3 distinct types, one or two Kleene steps
fn all_queries() -> Vec<Query> {
    let mut out = Vec::new();
    let perms2: Vec<Vec<usize>> = vec![vec![0, 1], vec![1, 0], vec![0, 2], vec![2, 0], vec![1, 2], vec![2, 1]];
    let perms3: Vec<Vec<usize>> = vec![vec![0, 1, 2], vec![0, 2, 1], vec![1, 0, 2], vec![1, 2, 0], vec![2, 0, 1], vec![2, 1, 0]];
    for p in perms2.iter().chain(perms3.iter()) {
        let n = p.len();
        for mask in 1u32..(1 << n) {
            if mask.count_ones() > 2 { continue; }
            out.push(Query { steps: p.iter().enumerate().map(|(i, t)| (*t, mask & (1 << i) != 0)).collect() });
        }
    }
    out
}

fn bursty(ctx: &mut Ctx, max_len: usize, ntypes: u64) -> Vec<usize> {
    let len = 1 + ctx.rng.below(max_len as u64) as usize;
    let mut evs = Vec::new();
    while evs.len() < len {
        let t = ctx.rng.below(ntypes) as usize;
        let burst = if ctx.rng.chance(1, 2) { 1 } else { 1 + ctx.rng.below(4) as usize };
        for _ in 0..burst { if evs.len() < len { evs.push(t); } }
    }
    evs
}

pub fn run(ctx: &mut Ctx, _name: &str) {
    let rt = tokio::runtime::Builder::new_current_thread().enable_all().build().expect("tokio");
    let pool = all_queries();
    let q = |s: &[(usize, bool)]| Query { steps: s.to_vec() };
    // fixed query sets with overlapping sub-patterns (shared Kleene step B+)
    let fixed: Vec<Vec<Query>> = vec![
        vec![q(&[(0, false), (1, true)])],                                                  // A -> B+
        vec![q(&[(0, false), (1, true), (2, false)])],                                      // A -> B+ -> C
        vec![q(&[(0, false), (1, true)]), q(&[(2, false), (1, true)])],                     // A -> B+ ; C -> B+
        vec![q(&[(0, false), (1, true), (2, false)]), q(&[(0, false), (1, true)])],         // A -> B+ -> C ; A -> B+
        vec![q(&[(0, true), (1, true)]), q(&[(1, true), (2, false)]), q(&[(0, false), (1, true), (2, true)])],
    ];
    // 1. witnesses of the known findings (checks/C25.json, Props/C25.lean), replayed on every run
    let a_bk = q(&[(0, false), (1, true)]);   // A -> B+
    let ak_b = q(&[(0, true), (1, false)]);   // A+ -> B
    scenario(ctx, &rt, &[a_bk.clone()], &[0, 1], true, Some(100));       // hamlet-count (3 vs 1), window-ignored
    scenario(ctx, &rt, &[ak_b.clone()], &[0], true, Some(20));           // hamlet-count, minimal (2 vs 0)
    scenario(ctx, &rt, &[ak_b.clone()], &[0, 1], true, Some(20));        // engine-count (n=2 vs 1)
    scenario(ctx, &rt, &[a_bk.clone()], &[0, 1, 1], true, Some(20));     // greta-accumulates (4 vs 3), engine-count (stale 1 vs 3)
    scenario(ctx, &rt, &[ak_b.clone()], &[0, 1, 0], true, Some(20));     // greta-accumulates (2 vs 1)
    scenario(ctx, &rt, &[a_bk.clone(), q(&[(0, true), (1, true)])], &[1], true, None);            // hamlet-sharing, sharing on
    scenario(ctx, &rt, &[ak_b.clone(), q(&[(0, true), (2, false)])], &[0, 2, 0], true, None);     // hamlet-sharing, sharing off
    scenario(ctx, &rt, &[ak_b.clone(), a_bk.clone()], &[0, 1, 1], true, None);                    // greta-shared-edges
    scenario(ctx, &rt, &[a_bk.clone(), q(&[(2, false), (1, true)])], &[0, 1], true, None);        // engine-sharing
    // reuse after flush(): a later window that begins with Kleene-type events before its start event
    scenario(ctx, &rt, &[a_bk.clone()], &[0, 1, FLUSH, 1, 1, 0, 1], false, None);
    scenario(ctx, &rt, &[a_bk.clone(), q(&[(2, false), (1, true)])], &[0, 2, 1, FLUSH, 1, 1, 0, 1, FLUSH, 1, 2, 1], false, None);
    // 2a. exhaustive two-window streams: every first window up to length 2 (3 thorough), every second up to 3 (4)
    {
        let (m1, m2, sets) = if ctx.thorough { (3usize, 4usize, fixed.len()) } else { (2usize, 3usize, 3) };
        let streams = |max: usize| -> Vec<Vec<usize>> {
            let mut out = Vec::new();
            for len in 0..=max {
                for code in 0..3usize.pow(len as u32) {
                    let mut c = code;
                    out.push((0..len).map(|_| { let t = c % 3; c /= 3; t }).collect());
                }
            }
            out
        };
        let (s1, s2) = (streams(m1), streams(m2));
        for set in fixed.iter().take(sets) {
            for a in &s1 { for b in &s2 {
                let mut evs = a.clone(); evs.push(FLUSH); evs.extend(b.iter().cloned());
                scenario(ctx, &rt, set, &evs, false, None);
            } }
        }
    }
    // 2. exhaustive short streams
    let (max_len, sets) = if ctx.thorough { (6usize, fixed.len()) } else { (4usize, 3) };
    for set in fixed.iter().take(sets) {
        for len in 0..=max_len {
            let total = 3usize.pow(len as u32);
            for code in 0..total {
                let mut c = code;
                let evs: Vec<usize> = (0..len).map(|_| { let t = c % 3; c /= 3; t }).collect();
                scenario(ctx, &rt, set, &evs, ctx.thorough || len <= 3, None);
            }
        }
    }
    // 3. random query sets, bursty streams of up to 12 events
    let n = if ctx.thorough { 3000 } else { 250 };
    for _ in 0..n {
        let nq = 1 + ctx.rng.below(4) as usize;
        let mut qs: Vec<Query> = Vec::new();
        while qs.len() < nq {
            let cand = ctx.rng.pick(&pool).clone();
            // overlapping: after the first query prefer queries sharing a Kleene type with it
            if !qs.is_empty() && ctx.rng.chance(2, 3) {
                let k0: Vec<usize> = qs[0].steps.iter().filter(|s| s.1).map(|s| s.0).collect();
                if !cand.steps.iter().any(|s| s.1 && k0.contains(&s.0)) { continue; }
            }
            qs.push(cand);
        }
        let ntypes = if ctx.rng.chance(1, 5) { 4 } else { 3 };
        let mut evs = bursty(ctx, 12, ntypes);
        // a third of the streams are cut into 2-3 windows (the total stays <= 12 events)
        if ctx.rng.chance(1, 3) {
            let cuts = 1 + ctx.rng.below(2) as usize;
            for _ in 0..cuts { let at = ctx.rng.below(evs.len() as u64 + 1) as usize; evs.insert(at, FLUSH); }
        }
        scenario(ctx, &rt, &qs, &evs, true, None);
    }
}
