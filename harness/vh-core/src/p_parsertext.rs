//! C41: the parser terminates without panicking and locates its errors inside the input.
//!
//! `p <source> => r=<ok|err|panic|timeout> [k=<variant> line= col= pos=] [at=<panic location>]
//!                 x=<len:hash | E:kind | PANIC> i=<len:hash | -> n=<ok | pos | ->`
//!     the real `parse` (time budget, panic capture through a panic hook — `parse` itself converts a
//!     panic of its parser thread into a "stack overflow" error), plus the three preprocessing stages
//!     (expand, indentation, nesting pre-scan) for the correspondence with the Lean mirror;
//! `m <pos…> => <line,col,off …>`  the source location reported for preprocessed positions of the last `p`;
//! `f <pos…> => <line,col …>`      `SourceLocation::from_position` on the last `p` source.
use crate::p_expand::{enc, expand_result};
use crate::util::{catch, Ctx};
use std::sync::Mutex;
use std::time::{Duration, Instant};

pub const NAMES: &[&str] = &["C41"];

static LAST_PANIC: Mutex<Option<String>> = Mutex::new(None);

pub fn fnv(s: &str) -> String {
    let mut h: u64 = 0xcbf29ce484222325;
    for b in s.bytes() { h ^= b as u64; h = h.wrapping_mul(0x100000001b3); }
    format!("{}:{:x}", s.len(), h)
}

fn variant(e: &varpulis_parser::ParseError) -> String {
    use varpulis_parser::ParseError::*;
    match e {
        Located { line, column, position, .. } => format!("k=Located line={} col={} pos={}", line, column, position),
        UnexpectedToken { position, .. } => format!("k=UnexpectedToken pos={}", position),
        UnexpectedEof => "k=UnexpectedEof".into(),
        InvalidToken { position, message } => {
            let m = if message.starts_with("Parser stack overflow") { "stackoverflow" }
                else if message.starts_with("Nesting depth") { "nesting" }
                else if message.starts_with("For loop range") { "range" }
                else if message.starts_with("Expansion limit") { "passes" }
                else if message.starts_with("Loop expansion too large") { "budget" }
                else { "other" };
            format!("k=InvalidToken pos={} msg={}", position, m)
        }
        InvalidNumber(_) => "k=InvalidNumber".into(),
        InvalidDuration(_) => "k=InvalidDuration".into(),
        InvalidTimestamp(_) => "k=InvalidTimestamp".into(),
        UnterminatedString(p) => format!("k=UnterminatedString pos={}", p),
        InvalidEscape(_) => "k=InvalidEscape".into(),
        Custom { span, .. } => format!("k=Custom pos={} end={}", span.start, span.end),
    }
}

/// run `parse` under a time budget; returns (description, elapsed)
fn timed_parse(src: &str, budget: Duration) -> (String, Duration) {
    *LAST_PANIC.lock().unwrap() = None;
    let (tx, rx) = std::sync::mpsc::channel();
    let s = src.to_string();
    let t0 = Instant::now();
    std::thread::spawn(move || {
        let r = catch(move || varpulis_parser::parse(&s));
        let _ = tx.send(r);
    });
    let r = rx.recv_timeout(budget);
    let el = t0.elapsed();
    let d = match r {
        Err(_) => "r=timeout".to_string(),
        Ok(Err(_)) => format!("r=panic at={}", LAST_PANIC.lock().unwrap().clone().unwrap_or_else(|| "?".into())),
        Ok(Ok(res)) => {
            let swallowed = LAST_PANIC.lock().unwrap().clone();
            match (res, swallowed) {
                (_, Some(at)) => format!("r=panic at={}", at),
                (Ok(_), None) => "r=ok".to_string(),
                (Err(e), None) => format!("r=err {}", variant(&e)),
            }
        }
    };
    (d, el)
}

fn stages(src: &str) -> String {
    let x = expand_result(src);
    if x.starts_with("E:") || x == "PANIC" { return format!("x={} i=- n=-", x.replace(' ', "_")); }
    let s = src.to_string();
    let expanded = varpulis_parser::expand::expand_declaration_loops(&s).unwrap();
    let e2 = expanded.clone();
    let pre = match catch(move || varpulis_parser::indent::preprocess_indentation(&e2)) { Ok(p) => p, Err(_) => return format!("x={} i=PANIC n=-", fnv(&expanded)) };
    let p2 = pre.clone();
    let n = match catch(move || varpulis_parser::pest_parser::verif_check_nesting_depth(&p2)) { Ok(None) => "ok".to_string(), Ok(Some(p)) => p.to_string(), Err(_) => "PANIC".to_string() };
    format!("x={} i={} n={}", fnv(&expanded), fnv(&pre), n)
}

// ---------------------------------------------------------------- corpus and mutations

fn collect_vpl(dir: &std::path::Path, out: &mut Vec<(String, String)>) {
    let Ok(rd) = std::fs::read_dir(dir) else { return };
    let mut ents: Vec<_> = rd.filter_map(|e| e.ok()).map(|e| e.path()).collect();
    ents.sort();
    for p in ents {
        if p.is_dir() {
            let n = p.file_name().unwrap().to_string_lossy().to_string();
            if n == "target" || n == "node_modules" || n.starts_with('.') { continue; }
            collect_vpl(&p, out);
        } else if p.extension().map(|e| e == "vpl").unwrap_or(false) {
            if let Ok(s) = std::fs::read_to_string(&p) {
                if s.len() <= 20_000 { out.push((p.to_string_lossy().to_string(), s)); }
            }
        }
    }
}

const SNIPPETS: &[&str] = &[
    "fn f(a: int) -> int:\n    if a > 1:\n        return a * 2\n    else:\n        return 0\n\nstream S = T .where(x > f(1))\n",
    "for i in 0..3:\n    stream S{i} = T .where(x == {i}) .emit(v: x)\n\nstream Z = T\n",
    "for r in 0..2:\n    for c in 0..2:\n        context t{r}{c}\n    stream R{r} = T\n        .context(t{r}0)\n        .where(x > {r})\n",
    "event E:\n    a: int\n    b: str\n\nconfig:\n    mode: \"x\"\n    n: 3\n\nstream S = E .where(a > 1 and b == \"k\") .emit(a: a)\n",
    "/* block\n   comment ( [ { */\nstream S = T # trailing ( comment\n    .where(s == \"str ( [ \\\" { \")\n",
    "stream A = T .window(5s) .aggregate(n: count()) .emit(n: n, t: @2024-01-15T10:30:00Z)\n",
    "let x = [1, [2, [3, [4, {\"a\": (1 + (2 * (3 - 4)))}]]]]\n",
    "fn g():\n\tlet y = 1\n\twhile y < 3:\n\t\ty := y + 1\n\treturn y\n",
];

const NASTY_NUM: &[&str] = &["9223372036854775807", "9223372036854775808", "99999999999999999999", "0", "007", "1.5e308", "1.0e999", "18446744073709551615d", "99999999999999999999s", "0.0", "4294967296"];
const NASTY_TOK: &[&str] = &[
    "@2024-13-01", "@2024-01-00", "@2024-99-99T99:99:99Z", "@0000-00-00", "@2024-02-30T10:00:00+99:99",
    "(-9223372036854775807 - 1) / -1", "-(-9223372036854775807 - 1)", "(-9223372036854775807 - 1) % -1", "9223372036854775807 + 1", "2 ** 64", "2 ** -1", "1 / 0", "1 % 0",
    "\"unterminated", "\"esc \\", "/*", "*/", "#", "\u{ab}INDENT\u{bb}", "\u{ab}DEDENT\u{bb}", "=>", "..", "..=", ":", "\u{e9}t\u{e9}", "\u{1F600}", "\u{3000}", "\u{a0}", "\u{2028}", "\u{feff}", "\0",
    "for i in 0..3:", "for i in 0..=9223372036854775807:", "for i in -9223372036854775808..9223372036854775807:", "for i in 0..10001:", "for i in 0..2:\n  for j in 0..2:\n   for k in 0..2:\n    x{i}{j}{k}",
];
const OPEN: &[char] = &['(', '[', '{'];
const CLOSE: &[char] = &[')', ']', '}'];

fn char_pos(ctx: &mut Ctx, s: &str) -> usize {
    if s.is_empty() { return 0; }
    let mut p = ctx.rng.below(s.len() as u64 + 1) as usize;
    while !s.is_char_boundary(p) { p -= 1; }
    p
}

fn mutate_lines(ctx: &mut Ctx, s: &str) -> String {
    let mut lines: Vec<String> = s.split('\n').map(|l| l.to_string()).collect();
    if lines.is_empty() { return s.to_string(); }
    let i = ctx.rng.below(lines.len() as u64) as usize;
    let k = ctx.rng.below(13);
    ctx.count(&format!("mut.line.{}", k));
    match k {
        0 => { lines[i] = format!("    {}", lines[i]); }
        1 => { lines[i] = lines[i].trim_start().to_string(); }
        2 => { lines[i] = format!("\t{}", lines[i]); }
        3 => { let t = lines[i].trim_start().to_string(); let n = lines[i].len() - t.len(); lines[i] = format!("{}{}", "\t".repeat(n / 4 + 1), t); }
        4 => { let ws = *ctx.rng.pick(&["\u{a0}", "\u{3000}", "\u{2003}", " \u{a0} "]); lines[i] = format!("{}{}", ws, lines[i]); }
        5 => { let l = lines[i].clone(); lines.insert(i, l); }
        6 => { lines.remove(i); }
        7 => { let j = ctx.rng.below(lines.len() as u64) as usize; lines.swap(i, j); }
        8 => { lines.insert(i, String::new()); }
        9 => { for l in lines.iter_mut() { if !l.ends_with('\r') { l.push('\r'); } } }
        10 => {
            // wrap a few lines into a declaration loop
            let n = ctx.rng.range(1, 4) as usize;
            let hdr = *ctx.rng.pick(&["for i in 0..3:", "for i in 0..=1:", "for k in -1..1:", "for i in 0..0:"]);
            let end = (i + n).min(lines.len());
            for l in lines[i..end].iter_mut() { *l = format!("    {}", l); }
            lines.insert(i, hdr.to_string());
        }
        11 => { let n = ctx.rng.range(1, 12) as usize; let l = lines[i].trim_start().to_string(); lines[i] = format!("{}{}", " ".repeat(n), l); }
        _ => { let end = (i + ctx.rng.range(1, 6) as usize).min(lines.len()); let amount = ctx.rng.range(1, 6) as usize; for l in lines[i..end].iter_mut() { *l = format!("{}{}", " ".repeat(amount), l); } }
    }
    lines.join("\n")
}

fn mutate_tokens(ctx: &mut Ctx, s: &str) -> String {
    let k = ctx.rng.below(9);
    ctx.count(&format!("mut.tok.{}", k));
    let mut out = s.to_string();
    match k {
        0 => {
            // replace a number literal
            let b = s.as_bytes();
            let starts: Vec<usize> = (0..b.len()).filter(|&i| b[i].is_ascii_digit() && (i == 0 || !(b[i - 1].is_ascii_alphanumeric() || b[i - 1] == b'_'))).collect();
            if let Some(&st) = starts.get(ctx.rng.below(starts.len().max(1) as u64) as usize) {
                let mut en = st;
                while en < b.len() && (b[en].is_ascii_digit() || b[en] == b'.') { en += 1; }
                out = format!("{}{}{}", &s[..st], ctx.rng.pick(NASTY_NUM), &s[en..]);
            }
        }
        1 => { let p = char_pos(ctx, s); out.insert_str(p, *ctx.rng.pick(NASTY_TOK)); }
        2 => { let p = char_pos(ctx, s); out.insert_str(p, &format!(" {} ", ctx.rng.pick(NASTY_TOK))); }
        3 => {
            // delete one bracket
            let idx: Vec<usize> = s.char_indices().filter(|(_, c)| OPEN.contains(c) || CLOSE.contains(c)).map(|(i, _)| i).collect();
            if !idx.is_empty() { let p = idx[ctx.rng.below(idx.len() as u64) as usize]; out.remove(p); }
        }
        4 => { let p = char_pos(ctx, s); let set = if ctx.rng.chance(1, 2) { OPEN } else { CLOSE }; out.insert(p, *ctx.rng.pick(set)); }
        5 => {
            // deep nesting (around the limit of 24 and far beyond)
            let n = *ctx.rng.pick(&[5usize, 12, 15, 16, 17, 18, 24, 25, 40, 200, 3000]);
            let c = *ctx.rng.pick(OPEN);
            let p = char_pos(ctx, s);
            let balanced = ctx.rng.chance(1, 2);
            let cl = CLOSE[OPEN.iter().position(|&o| o == c).unwrap()];
            let mut ins: String = std::iter::repeat(c).take(n).collect();
            ins.push('1');
            if balanced { ins.extend(std::iter::repeat(cl).take(n)); }
            out.insert_str(p, &ins);
        }
        6 => { out.push_str(&format!("\nlet zz = {}\n", ctx.rng.pick(NASTY_TOK))); }
        7 => { let a = *ctx.rng.pick(NASTY_TOK); let b = *ctx.rng.pick(NASTY_NUM); out.push_str(&format!("\nstream ZZ = T .where(x > {}) .emit(v: {})\n", a, b)); }
        _ => { let p = char_pos(ctx, s); out.truncate(p); }
    }
    out
}

fn mutate_bytes(ctx: &mut Ctx, s: &str) -> String {
    let mut b = s.as_bytes().to_vec();
    let n = ctx.rng.range(1, 4);
    for _ in 0..n {
        let k = ctx.rng.below(5);
        ctx.count(&format!("mut.byte.{}", k));
        let p = if b.is_empty() { 0 } else { ctx.rng.below(b.len() as u64) as usize };
        match k {
            0 => { if !b.is_empty() { b[p] ^= 1 << ctx.rng.below(8); } }
            1 => { b.insert(p, ctx.rng.below(256) as u8); }
            2 => { if !b.is_empty() { b.remove(p); } }
            3 => { if !b.is_empty() { let e = (p + ctx.rng.range(1, 40) as usize).min(b.len()); let chunk = b[p..e].to_vec(); let q = ctx.rng.below(b.len() as u64) as usize; for (j, c) in chunk.into_iter().enumerate() { b.insert(q + j, c); } } }
            _ => { if !b.is_empty() { b[p] = *ctx.rng.pick(&[b'\n', b'\t', b' ', b'"', b'\\', b'#', b'(', b')', b':', 0xc3, 0xab, 0xe3]); } }
        }
    }
    String::from_utf8_lossy(&b).to_string()
}

fn one_case(ctx: &mut Ctx, src: &str, budget: Duration) {
    let (d, el) = timed_parse(src, budget);
    let st = stages(src);
    let key = d.split(' ').take(2).collect::<Vec<_>>().join(" ");
    ctx.count(&format!("result.{}", key));
    if el > Duration::from_millis(500) { ctx.count("slow.over500ms"); }
    ctx.case(&format!("p {}", enc(src)), &format!("{} {}", d, st));
    // location map and from_position on a few positions
    let npos = 6;
    let mut ps: Vec<usize> = Vec::new();
    for _ in 0..npos { ps.push(ctx.rng.below(src.len() as u64 * 2 + 40) as usize); }
    ps.push(0);
    ps.push(src.len());
    let s2 = src.to_string();
    let ps2 = ps.clone();
    match catch(move || varpulis_parser::pest_parser::verif_source_locations(&s2, &ps2)) {
        Ok(Ok((_pre, locs))) => {
            ctx.case(&format!("m {}", ps.iter().map(|p| p.to_string()).collect::<Vec<_>>().join(" ")),
                     &locs.iter().map(|(l, c, o)| format!("{},{},{}", l, c, o)).collect::<Vec<_>>().join(" "));
        }
        Ok(Err(_)) => {}
        Err(_) => { ctx.case(&format!("m {}", ps.iter().map(|p| p.to_string()).collect::<Vec<_>>().join(" ")), "PANIC"); }
    }
    let s3 = src.to_string();
    let ps3 = ps.clone();
    let f = catch(move || ps3.iter().map(|&p| { let l = varpulis_parser::error::SourceLocation::from_position(&s3, p); format!("{},{}", l.line, l.column) }).collect::<Vec<_>>().join(" "));
    ctx.case(&format!("f {}", ps.iter().map(|p| p.to_string()).collect::<Vec<_>>().join(" ")), &f.unwrap_or_else(|_| "PANIC".into()));
}

/// `ts <year> <month> <day> <seconds of day> <tz hours> => <nanoseconds | PANIC>`: timestamp literals with any
/// digits the grammar admits, through `helpers::parse_timestamp`
fn ts_cases(ctx: &mut Ctx) {
    let n = if ctx.thorough { 20000 } else { 1500 };
    ctx.directive("new timestamps");
    for _ in 0..n {
        let y = match ctx.rng.below(6) { 0 => 1970, 1 => ctx.rng.range(0, 9999), 2 => ctx.rng.range(1960, 2040), 3 => 9999, 4 => 0, _ => ctx.rng.range(2200, 2300) };
        let m = if ctx.rng.chance(3, 4) { ctx.rng.range(1, 12) } else { ctx.rng.range(0, 99) };
        let d = if ctx.rng.chance(3, 4) { ctx.rng.range(1, 31) } else { ctx.rng.range(0, 99) };
        let mut text = format!("@{:04}-{:02}-{:02}", y, m, d);
        let mut tod = 0i64;
        let mut tz = 0i64;
        if ctx.rng.chance(2, 3) {
            let (h, mi, s) = (ctx.rng.range(0, 99), ctx.rng.range(0, 99), ctx.rng.range(0, 99));
            tod = h * 3600 + mi * 60 + s;
            text.push_str(&format!("T{:02}:{:02}:{:02}", h, mi, s));
            let (th, tm) = (ctx.rng.range(0, 99), ctx.rng.range(0, 99));
            match ctx.rng.below(4) {
                0 => text.push('Z'),
                1 => { tz = th; text.push_str(&format!("+{:02}:{:02}", th, tm)); }
                2 => { tz = -th; text.push_str(&format!("-{:02}:{:02}", th, tm)); }
                _ => {}
            }
        }
        ctx.count(if m == 0 || m > 12 || d == 0 { "ts.out-of-calendar" } else { "ts.calendar" });
        let t2 = text.clone();
        let r = catch(move || varpulis_parser::helpers::parse_timestamp(&t2));
        ctx.case(&format!("ts {} {} {} {} {}", y, m, d, tod, tz), &match r { Ok(v) => v.to_string(), Err(_) => "PANIC".to_string() });
        // the same literal as text: the model splits it itself
        let t3 = text.clone();
        let r = catch(move || varpulis_parser::helpers::parse_timestamp(&t3));
        ctx.case(&format!("tt {}", enc(&text)), &match r { Ok(v) => v.to_string(), Err(_) => "PANIC".to_string() });
    }
    // texts the grammar cannot produce (the helper is public): mirror only
    for w in ["@2024-01-01T", "@2024-01", "@x-y-z", "2024-01-01", "@2024-01-01T1", "@2024-01-01T\u{e9}0:00:00", "@2024-01-01T10:30", "@2024-01-01T10:30:00-05", "@2024-01-01T10:30:00+aa:00", "@-2024-01-01", "@2024-+3-01", ""] {
        let t3 = w.to_string();
        let r = catch(move || varpulis_parser::helpers::parse_timestamp(&t3));
        ctx.case(&format!("tt {}", enc(w)), &match r { Ok(v) => v.to_string(), Err(_) => "PANIC".to_string() });
    }
}

pub fn run(ctx: &mut Ctx, _name: &str) {
    std::panic::set_hook(Box::new(|info| {
        let at = info.location().map(|l| format!("{}:{}", l.file().rsplit('/').next().unwrap_or(""), l.line())).unwrap_or_else(|| "?".into());
        let why = info.payload().downcast_ref::<&str>().map(|s| s.to_string()).or_else(|| info.payload().downcast_ref::<String>().cloned()).unwrap_or_default();
        let why: String = why.chars().take(60).map(|c| if c.is_ascii_alphanumeric() { c } else { '_' }).collect();
        *LAST_PANIC.lock().unwrap() = Some(format!("{} why={}", at, why));
    }));
    if let Some(path) = ctx.replay.clone() {
        // replay: the file holds one source text (raw)
        let src = std::fs::read_to_string(&path).expect("replay file");
        ctx.directive("new replay");
        let t0 = Instant::now();
        one_case(ctx, &src, Duration::from_secs(120));
        ctx.notes.push(format!("replay {} took {:?}", path, t0.elapsed()));
        eprintln!("replay took {:?}", t0.elapsed());
        return;
    }
    let repo = std::env::var("VERIF_REPO").unwrap_or_else(|_| "/repo".to_string());
    let mut corpus: Vec<(String, String)> = Vec::new();
    collect_vpl(&std::path::Path::new(&repo).join("examples"), &mut corpus);
    collect_vpl(&std::path::Path::new(&repo).join("tests"), &mut corpus);
    collect_vpl(&std::path::Path::new(&repo).join("crates"), &mut corpus);
    collect_vpl(&std::path::Path::new(&repo).join("benchmarks"), &mut corpus);
    corpus.truncate(400);
    ctx.count_n("corpus.files", corpus.len() as u64);
    for (i, s) in SNIPPETS.iter().enumerate() { corpus.push((format!("snippet{}", i), s.to_string())); }
    if corpus.len() <= SNIPPETS.len() { ctx.notes.push(format!("no .vpl files found under {}", repo)); }
    // unmutated corpus: baseline time per file
    let mut base: Vec<Duration> = Vec::new();
    for (_, s) in corpus.iter() {
        ctx.directive("new base");
        let t0 = Instant::now();
        one_case(ctx, s, Duration::from_secs(60));
        base.push(t0.elapsed());
    }
    // fixed witnesses of the repaired defects and of the known folding panics
    for w in [
        "fn f():\n  return (", "for i in 0..50:\n    stream S{i} = T\n@@@\n", "for i in 0..=9223372036854775807:\n    x{i}\n",
        "for i in -9223372036854775808..9223372036854775807:\n    x\n", "for i in 0..2:\n x{i}\n\u{3000}y{i}\n", "stream S = T .where(t > @2024-13-01)\n",
        "stream S = T .where(t > @2024-01-00)\n", "let z = (-9223372036854775807 - 1) / -1\n",
        "event H:\n    zone: [[[[[[[[[[[[[[[[[[[[[[[[1]]]]]]]]]]]]]]]]]]]]]]]]str\n", "event H:\n    zone: [[[[[[[[[[[[[[[[1]]]]]]]]]]]]]]]]str\n", "\u{e9}\u{e9}\u{e9}\nstream = \n", "",
    ] {
        ctx.directive("new witness");
        // the deep-nesting witnesses must be rejected quickly; everything else gets a generous budget
        one_case(ctx, w, Duration::from_secs(if w.contains("[[[[[[[[") { 8 } else { 60 }));
    }
    // expansion budget: one loop asking for more than MAX_EXPANDED_LINES at once (rejected without work) …
    ctx.directive("new witness-budget");
    let big = format!("for a in 0..10000:\n{}", "    x{a}\n".repeat(101));
    one_case(ctx, &big, Duration::from_secs(60));
    // … and nested loops whose product is huge (rejected after at most MAX_EXPANDED_LINES lines; ~1e6 lines of work).
    // Only attempted when the budget exists at all (without it this input exhausts memory).
    if ctx.thorough && expand_result(&big) == "E:budget" {
        ctx.directive("new witness-nested-budget");
        one_case(ctx, "for a in 0..1000:\n for b in 0..1000:\n  for c in 0..1000:\n   x{a}{b}{c}\n", Duration::from_secs(300));
    }
    ts_cases(ctx);
    let n = if ctx.thorough { 12000 } else { 1200 };
    for it in 0..n {
        ctx.directive(&format!("new m{}", it));
        let ci = ctx.rng.below(corpus.len() as u64) as usize;
        let mut s = corpus[ci].1.clone();
        // small files more often for readable replays
        if s.len() > 4000 && ctx.rng.chance(2, 3) { let p = char_pos(ctx, &s[..4000]); s.truncate(p); }
        let rounds = ctx.rng.range(1, 3);
        for _ in 0..rounds {
            s = match ctx.rng.below(3) { 0 => mutate_lines(ctx, &s), 1 => mutate_tokens(ctx, &s), _ => mutate_bytes(ctx, &s) };
        }
        let budget = std::cmp::max(Duration::from_secs(10), base[ci] * 50);
        one_case(ctx, &s, budget);
    }
}
